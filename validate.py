#!/usr/bin/env python3
# Validate MANIFEST.json and evidence/*.json against the harness schemas.
import json, sys, glob
import jsonschema
ok = True
m = json.load(open('/verif/MANIFEST.json'))
jsonschema.validate(m, json.load(open('/root/.vp/MANIFEST.schema.json')))
print('MANIFEST ok: %d checks, %d not_applicable' % (len(m['checks']), len(m.get('not_applicable', []))))
es = json.load(open('/root/.vp/EVIDENCE.schema.json'))
for c in m['checks']:
    f = c['evidence_file']
    try:
        e = json.load(open(f))
        jsonschema.validate(e, es)
        cov = e['coverage']
        print('  %s ok tier=%s obligations=%s discharged=%s violations=%s wall=%.1fs' % (e['property_id'], e['tier'], cov.get('obligations'), cov.get('discharged'), e.get('violations'), e['wall_s']))
    except Exception as ex:
        ok = False
        print('  %s: %s' % (f, str(ex)[:200]))
sys.exit(0 if ok else 1)
