#!/bin/sh
# Runs the repository's own test suite (guard off – there are no hooks) and
# compares with /root/.vp/BASELINE.json's stable_pass list.
export GOFLAGS=-mod=mod GOPROXY=off GOSUMDB=off GOTOOLCHAIN=local GOWORK=off
REPO=${1:-/repo}
cd "$REPO" && go test -json -vet=off -count=1 -timeout 25m ./... > /tmp/htsverif-baseline.json 2>/dev/null
python3 - <<'PY'
import json
base=json.load(open('/root/.vp/BASELINE.json'))
res={}
for l in open('/tmp/htsverif-baseline.json'):
    try: e=json.loads(l)
    except: continue
    if e.get('Test') and e.get('Action') in('pass','fail') and '/' not in e['Test']:
        res[e['Package']+'::'+e['Test']]=e['Action']
bad=[t for t in base['stable_pass'] if res.get(t)!='pass']
print('stable_pass: %d/%d pass'%(len(base['stable_pass'])-len(bad),len(base['stable_pass'])))
for t in bad: print('  NOT PASSING:',t,res.get(t))
print('other failures:',[t for t,a in res.items() if a=='fail' and t not in base['stable_pass']])
PY
rm -f /tmp/htsverif-baseline.json
