// Invert invariance: a fourth behaviour-preserving rewrite used as a self-test.
// Every if statement that has an else block is written with the condition
// negated and the two blocks exchanged.
package main

import (
	"fmt"
	"go/ast"
	"go/format"
	"go/token"
	"os"
	"path/filepath"

	"golang.org/x/tools/go/packages"
)

func invertIfElse(src, dst string) (int, error) {
	cfg := &packages.Config{Mode: packages.LoadSyntax, Dir: src, Tests: false, Env: goEnv()}
	pkgs, err := packages.Load(cfg, "./...")
	if err != nil {
		return 0, err
	}
	n := 0
	for _, p := range pkgs {
		if len(p.Errors) > 0 {
			return 0, fmt.Errorf("%v", p.Errors)
		}
		for i, f := range p.Syntax {
			ast.Inspect(f, func(nd ast.Node) bool {
				is, ok := nd.(*ast.IfStmt)
				if !ok {
					return true
				}
				eb, ok := is.Else.(*ast.BlockStmt)
				if !ok { // no else, or else-if chain
					return true
				}
				is.Cond = &ast.UnaryExpr{Op: token.NOT, X: &ast.ParenExpr{X: is.Cond}}
				is.Body, is.Else = eb, is.Body
				n++
				return true
			})
			rel, err := filepath.Rel(src, p.CompiledGoFiles[i])
			if err != nil {
				return n, err
			}
			out := filepath.Join(dst, rel)
			if err := os.MkdirAll(filepath.Dir(out), 0o755); err != nil {
				return n, err
			}
			w, err := os.Create(out)
			if err != nil {
				return n, err
			}
			if err := format.Node(w, p.Fset, f); err != nil {
				w.Close()
				return n, err
			}
			w.Close()
		}
	}
	return n, nil
}

func cmdInvert(args []string) int {
	if len(args) != 2 {
		usage()
	}
	n, err := invertIfElse(args[0], args[1])
	if err != nil {
		fmt.Fprintln(os.Stderr, err)
		return 2
	}
	fmt.Printf("inverted %d if/else statements\n", n)
	return 0
}
