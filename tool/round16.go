// Rules written after the sixteenth seed round.
package main

import (
	"fmt"
	"go/token"
	"go/types"
	"strings"

	"golang.org/x/tools/go/ssa"
)

// ERR-CLEAR (C10, C02): Reader.Read and Reader.ReadByte store nil into
// Reader.err only to clear the io.EOF of a block that is used up – the value
// the field held last came from the current block's Read/ReadByte, never from
// nextBlock. A failure of nextBlock (a damaged or cut member) that is cleared
// is lost: the failed block is current, and the next call steps past it.
// Seed C10-q: "hand over what was read without an error; the next call meets
// the failure again".
func ruleErrClear(c *Ctx, r *Rep, tier string) {
	rule := "ERR-CLEAR"
	errF := c.Field("bgzf", "Reader", "err")
	for _, name := range []string{"(*Reader).Read", "(*Reader).ReadByte"} {
		fn := c.Func("bgzf", name)
		onRecv := func(addr ssa.Value) bool {
			fa, ok := addr.(*ssa.FieldAddr)
			return ok && fieldVarOfAddr(fa) == errF && origin(fa.X) == ssa.Value(fn.Params[0])
		}
		n := 0
		allInstrs(fn, func(ins ssa.Instruction) {
			st, ok := ins.(*ssa.Store)
			if !ok || !onRecv(st.Addr) || !isNilConst(st.Val) {
				return
			}
			n++
			r.Instance(rule, 1)
			key := fmt.Sprintf("%s#clears~%d", c.FnName(fn), n)
			why := ""
			// nearest earlier stores to the field, over all paths
			seen := map[*ssa.BasicBlock]bool{}
			var back func(b *ssa.BasicBlock, from int)
			back = func(b *ssa.BasicBlock, from int) {
				for i := from; i >= 0; i-- {
					switch x := b.Instrs[i].(type) {
					case *ssa.Store:
						if onRecv(x.Addr) {
							if w := blockLevelError(x.Val); w != "" {
								why += " " + w + " (stored at " + c.Pos(x.Pos()) + ");"
							}
							return
						}
					case *ssa.Call:
						// a callee on the same receiver may store the field
						if g := staticCallee(&x.Call); g != nil && g.Signature.Recv() != nil && len(x.Call.Args) > 0 && origin(x.Call.Args[0]) == ssa.Value(fn.Params[0]) && storesField(g, errF, 0) {
							why += " the field was last written inside " + g.Name() + ";"
							return
						}
					}
				}
				if len(b.Preds) == 0 {
					why += " the field is cleared on a path where this call has not written it;"
					return
				}
				for _, p := range b.Preds {
					if !seen[p] {
						seen[p] = true
						back(p, len(p.Instrs)-1)
					}
				}
			}
			idx := -1
			for i, x := range st.Block().Instrs {
				if x == ins {
					idx = i
				}
			}
			back(st.Block(), idx-1)
			r.Check(why == "", rule, key, c.Pos(st.Pos()), "clears only the end-of-block io.EOF of the current block's Read/ReadByte", "Reader.err is set to nil where it may hold something other than a used-up block's io.EOF:"+why+" a failure to load the next member is forgotten, the damaged member is skipped or the stream ends cleanly")
		})
		if n == 0 {
			r.Instance(rule, 1)
			r.Pass(rule, c.FnName(fn)+"#clears~0", c.Pos(fn.Pos()), "never clears the field")
		}
	}
}

// blockLevelError: "" when v is the error result of the current block's
// Read/ReadByte (an interface call on a Block), else what it is.
func blockLevelError(v ssa.Value) string {
	if isNilConst(v) {
		return ""
	}
	if ex, ok := v.(*ssa.Extract); ok {
		if call, ok := ex.Tuple.(*ssa.Call); ok && call.Call.IsInvoke() {
			if m := call.Call.Method; m != nil && (m.Name() == "Read" || m.Name() == "ReadByte") {
				if n, ok := call.Call.Value.Type().(*types.Named); ok && n.Obj().Name() == "Block" {
					return ""
				}
			}
		}
	}
	if call, ok := v.(*ssa.Call); ok {
		if g := staticCallee(&call.Call); g != nil {
			return "the value it holds is the result of " + g.Name()
		}
	}
	return "the value it holds is " + strings.TrimSpace(v.Name()+" "+v.String())
}

func storesField(g *ssa.Function, f *types.Var, depth int) bool {
	if g == nil || g.Blocks == nil || depth > 2 {
		return false
	}
	found := false
	allInstrs(g, func(ins ssa.Instruction) {
		switch x := ins.(type) {
		case *ssa.Store:
			if fa, ok := x.Addr.(*ssa.FieldAddr); ok && fieldVarOfAddr(fa) == f {
				found = true
			}
		case *ssa.Call:
			if h := staticCallee(&x.Call); h != nil && h != g && storesField(h, f, depth+1) {
				found = true
			}
		}
	})
	return found
}

var _ = token.MUL

// GET-LOADS-FIRST (C14, C03): the Block a cache's Get returns is read out of its
// node before anything that may write the node's block field – a helper that
// unlinks the node and clears it (seed C14-r: remove() sets n.b = nil for the
// garbage collector; LRU.Get was adapted, FIFO.Get returns n.b afterwards: Peek
// reports the block, Get returns nil and the entry is gone).
func ruleGetLoadsFirst(c *Ctx, r *Rep, tier string) {
	rule := "GET-LOADS-FIRST"
	blockT := c.Named("bgzf", "Block")
	for _, ci := range discoverCaches(c, hts_cacheCfg) {
		fn := c.Func("bgzf/cache", "(*"+ci.named.Obj().Name()+").Get")
		r.Instance(rule, 1)
		key := c.FnName(fn) + "#loads-first"
		why := ""
		allInstrs(fn, func(ins ssa.Instruction) {
			ret, ok := ins.(*ssa.Return)
			if !ok || len(ret.Results) == 0 {
				return
			}
			var loads []*ssa.UnOp
			var collect func(v ssa.Value, d int)
			collect = func(v ssa.Value, d int) {
				if d > 6 {
					return
				}
				switch x := v.(type) {
				case *ssa.Phi:
					for _, e := range x.Edges {
						collect(e, d+1)
					}
				case *ssa.UnOp:
					if x.Op == token.MUL {
						if al, ok := x.X.(*ssa.Alloc); ok {
							// spilled result: every store into it
							for _, ref := range *al.Referrers() {
								if st, ok := ref.(*ssa.Store); ok && st.Addr == ssa.Value(al) {
									collect(st.Val, d+1)
								}
							}
							return
						}
						if fa, ok := x.X.(*ssa.FieldAddr); ok && types.Identical(fieldVarOfAddr(fa).Type(), blockT) {
							loads = append(loads, x)
						}
					}
				}
			}
			collect(ret.Results[0], 0)
			for _, ld := range loads {
				fa := ld.X.(*ssa.FieldAddr)
				fld := fieldVarOfAddr(fa)
				writes := func(x ssa.Instruction) bool {
					switch y := x.(type) {
					case *ssa.Store:
						if a, ok := y.Addr.(*ssa.FieldAddr); ok && fieldVarOfAddr(a) == fld {
							return true
						}
					case *ssa.Call:
						if g := staticCallee(&y.Call); g != nil && storesField(g, fld, 0) {
							return true
						}
					}
					return false
				}
				allInstrs(fn, func(w ssa.Instruction) {
					if !writes(w) {
						return
					}
					if _, reach := pathTo(locOf(w), func(x ssa.Instruction) bool { return x == ssa.Instruction(ld) }, nil, nil); reach {
						why += " the block returned at " + c.Pos(ret.Pos()) + " is read from the node at " + c.Pos(ld.Pos()) + ", after " + c.Pos(w.Pos()) + " may have written the node's " + fld.Name() + " field;"
					}
				})
			}
		})
		r.Check(why == "", rule, key, c.Pos(fn.Pos()), "the returned block is read from its node before anything writes the node's block field", "Get can return what a helper left in the node instead of the cached block:"+why)
	}
}

// CUT-NO-CHANLEN (C08, C12): no function of the writer reads the length or
// capacity of a channel. How many compressors are idle, or how many blocks are
// queued, depends on wc and on the speed of the destination; a decision taken
// on it (seed C08-r: a long Write tops up the current block when no compressor
// is idle) makes where blocks are cut – the bytes of the file – depend on the
// schedule. FLUSH-CUTS says this for Flush's early return; this rule for every
// use.
func ruleNoChanLen(pkgs []string) func(c *Ctx, r *Rep, tier string) {
	return func(c *Ctx, r *Rep, tier string) {
		rule := "CUT-NO-CHANLEN"
		for _, pkg := range pkgs {
			for _, fn := range c.FuncsIn(pkg) {
				var all []*ssa.Function
				var add func(f *ssa.Function)
				add = func(f *ssa.Function) {
					all = append(all, f)
					for _, a := range f.AnonFuncs {
						add(a)
					}
				}
				add(fn)
				for _, f := range all {
					if f.Blocks == nil || (pkg == "bgzf" && !writerSide(f)) {
						continue
					}
					usesChan := false
					why := ""
					allInstrs(f, func(ins ssa.Instruction) {
						switch x := ins.(type) {
						case *ssa.Send, *ssa.Select, *ssa.MakeChan:
							usesChan = true
						case *ssa.UnOp:
							if x.Op == token.ARROW {
								usesChan = true
							}
						case *ssa.Call:
							for _, b := range []string{"len", "cap"} {
								if cc, ok := isBuiltinCall(x, b); ok && len(cc.Args) == 1 {
									if _, isCh := cc.Args[0].Type().Underlying().(*types.Chan); isCh {
										usesChan = true
										if how := decidesOn(x, f); how != "" {
											why += " " + b + "() of a channel at " + c.Pos(x.Pos()) + " " + how + ";"
										}
									}
								}
							}
						}
					})
					if !usesChan {
						continue
					}
					r.Instance(rule, 1)
					r.Check(why == "", rule, c.FnName(f)+"#chan-len", c.Pos(f.Pos()), "channels are only sent to, received from and closed", "a decision can depend on how full a channel is:"+why+" that is a function of wc and of the destination's speed, and so are the bytes written")
				}
			}
		}
	}
}

// writerSide: a method of Writer or compressor, a function handed one of them,
// the constructors, and the literals inside those.
func writerSide(f *ssa.Function) bool {
	for g := f; g != nil; g = g.Parent() {
		if strings.HasPrefix(g.Name(), "NewWriter") {
			return true
		}
		for _, p := range g.Params {
			t := p.Type().String()
			if strings.HasSuffix(t, "bgzf.Writer") || strings.HasSuffix(t, "bgzf.compressor") {
				return true
			}
		}
	}
	return false
}

// SIZE-FIRST (C08): HasEOF learns where the stream ends from a method that
// reports the whole size (Size(), Stat().Size()) wherever the reader has one;
// arithmetic on the read offset (Seek(0, current) + Len()) is a fall-back that
// is entered only after those type tests failed. bytes.Reader and
// strings.Reader have all three; their offset may stand beyond the end, where
// Len() is 0 and offset+Len() is not the size (seed C08-q moved the case up).
func ruleSizeFirst(c *Ctx, r *Rep, tier string) {
	rule := "SIZE-FIRST"
	fn := c.Func("bgzf", "HasEOF")
	type ta struct {
		ins   *ssa.TypeAssert
		whole bool
		arith bool
	}
	var tas []ta
	allInstrs(fn, func(ins ssa.Instruction) {
		x, ok := ins.(*ssa.TypeAssert)
		if !ok || len(fn.Params) == 0 || origin(x.X) != ssa.Value(fn.Params[0]) {
			return
		}
		it, ok := x.AssertedType.Underlying().(*types.Interface)
		if !ok {
			return
		}
		t := ta{ins: x}
		for i := 0; i < it.NumMethods(); i++ {
			switch it.Method(i).Name() {
			case "Size", "Stat":
				t.whole = true
			case "Seek", "Len":
				t.arith = true
			}
		}
		tas = append(tas, t)
	})
	nWhole := 0
	for _, t := range tas {
		if t.whole {
			nWhole++
		}
	}
	r.Instance(rule, 1)
	r.Check(nWhole > 0, rule, "bgzf.HasEOF#whole-size-source", c.Pos(fn.Pos()), "the reader is asked for its whole size (Size or Stat)", "HasEOF no longer asks the reader for its size through Size() or Stat(): the rule's anchor moved (undecided)")
	for _, t := range tas {
		if !t.arith || t.whole {
			continue
		}
		r.Instance(rule, 1)
		why := ""
		for _, w := range tas {
			if !w.whole {
				continue
			}
			b := w.ins.Block()
			if ifOf(b) == nil || !dominatedByEdge(fn, b, 1, t.ins.Block()) {
				why += " the test for " + types.TypeString(t.ins.AssertedType, nil) + " at " + c.Pos(t.ins.Pos()) + " is not behind the failure of the test for " + types.TypeString(w.ins.AssertedType, nil) + ";"
			}
		}
		r.Check(why == "", rule, "bgzf.HasEOF#offset-arithmetic-last", c.Pos(t.ins.Pos()), "entered only after every whole-size source was found missing", "a reader that reports its size is measured by its read offset instead:"+why+" with the offset beyond the end, HasEOF looks for the marker in the wrong place")
	}
}

// TX-END (C13): the chunk (*Tx).End reports is {the Begin noted when the
// transaction was opened, the Reader's lastChunk.End} and nothing else. The
// replay side (bam.Reader.Read under SetChunk, ChunkReader) compares the raw
// LastChunk().End with the chunk's End; an End that was "normalised" on the
// recording side – seed C13-q: (next block, 0) instead of (this block, 65280)
// for a record that ends with a full block – is beyond what the replay reaches
// at the end of record j, and the chunk yields one record more.
func ruleTxEnd(c *Ctx, r *Rep, tier string) {
	rule := "TX-END"
	fn := c.Func("bgzf", "(*Tx).End")
	chunkT := c.Named("bgzf", "Chunk")
	fieldPathOfAddr := func(a ssa.Value) (ssa.Value, string) {
		p := ""
		for {
			fa, ok := a.(*ssa.FieldAddr)
			if !ok {
				return a, p
			}
			p = "." + fieldVarOfAddr(fa).Name() + p
			a = fa.X
		}
	}
	// the path a loaded value was read from, through pointer loads
	var srcPath func(v ssa.Value, d int) string
	srcPath = func(v ssa.Value, d int) string {
		if d > 6 {
			return "?"
		}
		u, ok := v.(*ssa.UnOp)
		if !ok || u.Op != token.MUL {
			if p, ok := v.(*ssa.Parameter); ok {
				return "$" + p.Name()
			}
			return "?" + v.Name()
		}
		root, p := fieldPathOfAddr(u.X)
		return srcPath(root, d+1) + p
	}
	nEnd, why := 0, ""
	allInstrs(fn, func(ins ssa.Instruction) {
		st, ok := ins.(*ssa.Store)
		if !ok {
			return
		}
		root, p := fieldPathOfAddr(st.Addr)
		al, ok := root.(*ssa.Alloc)
		if !ok || !types.Identical(al.Type().(*types.Pointer).Elem(), chunkT) {
			return
		}
		src := srcPath(st.Val, 0)
		switch {
		case p == ".Begin" && strings.HasSuffix(src, ".begin"):
		case p == ".End" && strings.HasSuffix(src, ".lastChunk.End"):
			nEnd++
		case p == "" && strings.HasSuffix(src, ".lastChunk"):
			nEnd++
		default:
			why += " the reported chunk's " + strings.TrimPrefix(p, ".") + " is set from " + src + " at " + c.Pos(st.Pos()) + ";"
		}
	})
	r.Instance(rule, 1)
	if nEnd == 0 && why == "" {
		why = " no store of Reader.lastChunk.End into the reported chunk found (undecided)"
	}
	r.Check(why == "", rule, "bgzf.(*Tx).End#reports-lastchunk", c.Pos(fn.Pos()), "{Tx.begin, Reader.lastChunk.End}, unmodified", "the transaction's chunk is not the Reader's own interval:"+why+" the replay side compares the raw LastChunk().End with it, so a chunk from Begin(i) to this End(j) yields other records than i..j")
}

// CIGAR-ITEMWISE (C06): what Cigar.String writes for one operation depends on
// that operation only. Every argument of every call made inside the loop is
// free of loop-carried values (phis) other than the cursor used to index the
// receiver. A formatter that carries a previous type or an accumulated length
// round its loop (seed C06-p: runs of one type written as one operation) emits
// text that does not parse back to the same list.
func ruleCigarItemwise(c *Ctx, r *Rep, tier string) {
	rule := "CIGAR-ITEMWISE"
	fn := c.Func("sam", "Cigar.String")
	inLoop := func(b *ssa.BasicBlock) bool {
		seen := map[*ssa.BasicBlock]bool{}
		work := append([]*ssa.BasicBlock(nil), b.Succs...)
		for len(work) > 0 {
			x := work[len(work)-1]
			work = work[:len(work)-1]
			if x == b {
				return true
			}
			if seen[x] {
				continue
			}
			seen[x] = true
			work = append(work, x.Succs...)
		}
		return false
	}
	var dep func(v ssa.Value, viaIndex bool, d int, seen map[ssa.Value]bool) string
	dep = func(v ssa.Value, viaIndex bool, d int, seen map[ssa.Value]bool) string {
		if v == nil {
			return ""
		}
		if d > 14 {
			return "a value too deep to follow (undecided)"
		}
		switch x := v.(type) {
		case *ssa.Const, *ssa.Parameter, *ssa.Global, *ssa.Function, *ssa.Builtin, *ssa.FreeVar:
			return ""
		case *ssa.Phi:
			if viaIndex {
				return ""
			}
			return "the loop-carried value " + x.Name() + " (" + x.Comment + ")"
		case *ssa.IndexAddr:
			if w := dep(x.X, false, d+1, seen); w != "" {
				return w
			}
			return dep(x.Index, true, d+1, seen)
		case *ssa.Index:
			if w := dep(x.X, false, d+1, seen); w != "" {
				return w
			}
			return dep(x.Index, true, d+1, seen)
		case *ssa.BinOp:
			_, kx := constInt(x.X)
			_, ky := constInt(x.Y)
			via := viaIndex && (kx || ky) && (x.Op == token.ADD || x.Op == token.SUB)
			if w := dep(x.X, via, d+1, seen); w != "" {
				return w
			}
			return dep(x.Y, via, d+1, seen)
		case *ssa.Alloc:
			if seen[x] {
				return ""
			}
			seen[x] = true
			var addrs []ssa.Value = []ssa.Value{x}
			for i := 0; i < len(addrs); i++ {
				for _, ref := range *addrs[i].Referrers() {
					switch y := ref.(type) {
					case *ssa.Store:
						if y.Addr == addrs[i] {
							if w := dep(y.Val, false, d+1, seen); w != "" {
								return w
							}
						}
					case *ssa.IndexAddr:
						if y.X == addrs[i] {
							addrs = append(addrs, y)
						}
					case *ssa.FieldAddr:
						if y.X == addrs[i] {
							addrs = append(addrs, y)
						}
					}
				}
			}
			return ""
		case *ssa.Call:
			for _, a := range x.Call.Args {
				if w := dep(a, false, d+1, seen); w != "" {
					return w
				}
			}
			if x.Call.IsInvoke() {
				return dep(x.Call.Value, false, d+1, seen)
			}
			return ""
		}
		if ins, ok := v.(ssa.Instruction); ok {
			for _, op := range ins.Operands(nil) {
				if w := dep(*op, false, d+1, seen); w != "" {
					return w
				}
			}
		}
		return ""
	}
	n := 0
	why := ""
	allInstrs(fn, func(ins ssa.Instruction) {
		call, ok := ins.(*ssa.Call)
		if !ok || !inLoop(call.Block()) {
			return
		}
		n++
		args := append([]ssa.Value(nil), call.Call.Args...)
		if call.Call.IsInvoke() {
			args = append(args, call.Call.Value)
		}
		for _, a := range args {
			if w := dep(a, false, 0, map[ssa.Value]bool{}); w != "" {
				why += " the call at " + c.Pos(call.Pos()) + " is given " + w + ";"
				break
			}
		}
	})
	r.Instance(rule, 1)
	if n == 0 {
		why = " no call inside a loop found in Cigar.String: the formatter is written in a way this rule does not understand (undecided)"
	}
	r.Check(why == "", rule, "sam.Cigar.String#itemwise", c.Pos(fn.Pos()), fmt.Sprintf("%d call(s) in the loop, each fed by the current operation only", n), "what is written for an operation depends on more than that operation:"+why+" the text no longer lists the operations one by one, and ParseCigar gives back another list")
}

// MEMO-COHERENT (C05, C07): the reporting methods of the header item types
// (String of Reference, ReadGroup, Program) write nothing into their receiver –
// or, where one keeps what it computed in a field (a memo), every function that
// assigns another field of an existing item of that type assigns the memo field
// too. Seed C05-p: Reference.String keeps its @SQ line; SetName, SetLen and Set
// clear it, AddReference's merge branch assigns the fields directly and does not:
// a header marshalled once, merged into, and written again carries the old line.
func ruleMemoCoherent(c *Ctx, r *Rep, tier string) {
	rule := "MEMO-COHERENT"
	for _, tn := range []string{"Reference", "ReadGroup", "Program"} {
		named := c.Named("sam", tn)
		st, ok := named.Underlying().(*types.Struct)
		if !ok {
			unresolved("sam.%s is not a struct", tn)
		}
		isField := map[*types.Var]bool{}
		for i := 0; i < st.NumFields(); i++ {
			isField[st.Field(i)] = true
		}
		var strFn *ssa.Function
		for _, cand := range []string{"(*" + tn + ").String", tn + ".String"} {
			if f := c.FuncOpt("sam", cand); f != nil && f.Blocks != nil {
				strFn = f
				break
			}
		}
		if strFn == nil {
			unresolved("sam.%s has no String method", tn)
		}
		memo := map[*types.Var]bool{}
		rendered := map[*types.Var]bool{}
		var visit func(f *ssa.Function, d int)
		visit = func(f *ssa.Function, d int) {
			if f == nil || f.Blocks == nil || d > 2 {
				return
			}
			allInstrs(f, func(ins ssa.Instruction) {
				switch x := ins.(type) {
				case *ssa.UnOp:
					if fa, ok := x.X.(*ssa.FieldAddr); ok && x.Op == token.MUL && isField[fieldVarOfAddr(fa)] {
						rendered[fieldVarOfAddr(fa)] = true
					}
				case *ssa.Store:
					if fa, ok := x.Addr.(*ssa.FieldAddr); ok && isField[fieldVarOfAddr(fa)] {
						if _, fresh := origin(fa.X).(*ssa.Alloc); !fresh {
							memo[fieldVarOfAddr(fa)] = true
						}
					}
				case *ssa.Call:
					if g := staticCallee(&x.Call); g != nil && g.Pkg == f.Pkg && g.Signature.Recv() != nil && len(x.Call.Args) > 0 && origin(x.Call.Args[0]) == ssa.Value(f.Params[0]) {
						visit(g, d+1)
					}
				}
			})
		}
		visit(strFn, 0)
		r.Instance(rule, 1)
		key := "sam." + tn + ".String#memo"
		if len(memo) == 0 {
			r.Pass(rule, key, c.Pos(strFn.Pos()), "writes no field of its receiver")
			continue
		}
		why := ""
		for _, f := range c.FuncsIn("sam") {
			var all []*ssa.Function
			var add func(g *ssa.Function)
			add = func(g *ssa.Function) {
				all = append(all, g)
				for _, a := range g.AnonFuncs {
					add(a)
				}
			}
			add(f)
			for _, g := range all {
				if g.Blocks == nil || g == strFn {
					continue
				}
				other := map[ssa.Value]token.Pos{}
				clears := map[ssa.Value]bool{}
				allInstrs(g, func(ins ssa.Instruction) {
					x, ok := ins.(*ssa.Store)
					if !ok {
						return
					}
					fa, ok := x.Addr.(*ssa.FieldAddr)
					if !ok || !isField[fieldVarOfAddr(fa)] {
						return
					}
					base := origin(fa.X)
					if freshObject(base, 0, map[ssa.Value]bool{}) {
						return
					}
					if memo[fieldVarOfAddr(fa)] {
						clears[base] = true
					} else if !rendered[fieldVarOfAddr(fa)] {
						// a field String does not read (id, owner): the kept text does not depend on it
					} else if _, seen := other[base]; !seen {
						other[base] = x.Pos()
					}
				})
				for base, pos := range other {
					if !clears[base] {
						why += " " + c.FnName(g) + " assigns a field of an existing " + tn + " at " + c.Pos(pos) + " and leaves the kept text as it was;"
					}
				}
			}
		}
		r.Check(why == "", rule, key, c.Pos(strFn.Pos()), "every writer of the type's fields writes the kept field too", "String keeps what it computed in the receiver, and not every writer of the other fields renews it:"+why+" the next String (and so MarshalText, the BAM header text) reports the old values")
	}
}

// freshObject: v is an object made in this function – an allocation, or an
// element of a local slice into which only such allocations were put.
func freshObject(v ssa.Value, d int, seen map[ssa.Value]bool) bool {
	if d > 8 || v == nil {
		return false
	}
	if seen[v] {
		return true
	}
	seen[v] = true
	switch x := v.(type) {
	case *ssa.Alloc:
		return true
	case *ssa.UnOp:
		if x.Op != token.MUL {
			return false
		}
		if ia, ok := x.X.(*ssa.IndexAddr); ok {
			return freshSlice(ia.X, d+1, seen)
		}
	case *ssa.Phi:
		for _, e := range x.Edges {
			if !freshObject(e, d+1, seen) {
				return false
			}
		}
		return true
	}
	return false
}

func freshSlice(v ssa.Value, d int, seen map[ssa.Value]bool) bool {
	if d > 8 || v == nil {
		return false
	}
	if seen[v] {
		return true
	}
	seen[v] = true
	switch x := v.(type) {
	case *ssa.MakeSlice:
		return true
	case *ssa.Phi:
		for _, e := range x.Edges {
			if !freshSlice(e, d+1, seen) {
				return false
			}
		}
		return true
	case *ssa.Slice:
		return freshSlice(x.X, d+1, seen)
	case *ssa.Call:
		cc, ok := isBuiltinCall(x, "append")
		if !ok || len(cc.Args) != 2 || !freshSlice(cc.Args[0], d+1, seen) {
			return false
		}
		// the appended elements: a slice of a local array whose stores are fresh objects
		sl, ok := cc.Args[1].(*ssa.Slice)
		if !ok {
			return false
		}
		arr, ok := sl.X.(*ssa.Alloc)
		if !ok {
			return false
		}
		for _, ref := range *arr.Referrers() {
			if ia, ok := ref.(*ssa.IndexAddr); ok {
				for _, r2 := range *ia.Referrers() {
					if st, ok := r2.(*ssa.Store); ok && st.Addr == ssa.Value(ia) {
						if _, isAlloc := origin(st.Val).(*ssa.Alloc); !isAlloc {
							return false
						}
					}
				}
			}
		}
		return true
	}
	return false
}

// decidesOn: the value reaches a branch condition of f, or is handed out by an
// unexported function (whose callers may branch on it). A value that is only
// reported by an exported accessor decides nothing.
func decidesOn(v ssa.Value, f *ssa.Function) string {
	seen := map[ssa.Value]bool{}
	work := []ssa.Value{v}
	for len(work) > 0 {
		x := work[len(work)-1]
		work = work[:len(work)-1]
		if seen[x] {
			continue
		}
		seen[x] = true
		refs := x.Referrers()
		if refs == nil {
			continue
		}
		for _, ref := range *refs {
			switch y := ref.(type) {
			case *ssa.If:
				return "decides a branch"
			case *ssa.Return:
				if f.Object() == nil || !f.Object().Exported() {
					return "is handed to the callers of an unexported function"
				}
			case *ssa.Store, *ssa.Send, *ssa.MapUpdate:
				return "is stored where a later decision can read it"
			case *ssa.Call:
				return "is passed on to " + y.Call.Value.Name()
			case ssa.Value:
				work = append(work, y)
			}
		}
	}
	return ""
}

// keptTextFields: the fields of sam.<tn> that its own String method writes
// (a memo of the rendered line). MEMO-COHERENT answers for them.
func keptTextFields(c *Ctx, tn string) map[string]bool {
	out := map[string]bool{}
	named := c.Named("sam", tn)
	st, ok := named.Underlying().(*types.Struct)
	if !ok {
		return out
	}
	isField := map[*types.Var]bool{}
	for i := 0; i < st.NumFields(); i++ {
		isField[st.Field(i)] = true
	}
	f := c.FuncOpt("sam", "(*"+tn+").String")
	if f == nil || f.Blocks == nil {
		return out
	}
	allInstrs(f, func(ins ssa.Instruction) {
		if x, ok := ins.(*ssa.Store); ok {
			if fa, ok := x.Addr.(*ssa.FieldAddr); ok && isField[fieldVarOfAddr(fa)] {
				if _, fresh := origin(fa.X).(*ssa.Alloc); !fresh {
					out[fieldVarOfAddr(fa).Name()] = true
				}
			}
		}
	})
	return out
}
