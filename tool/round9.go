// Rules written after the eighth seed round.
//
//	STRATEGY-BIND  (C17, C04) the exported merge strategies Identity, Adjacent and
//	               Squash are initialised with the functions MERGE-STEP examines
//	               (identity, adjacent, squash) – not with something else that
//	               has the same type.
//	RESIZE-COUNT   (C14) each cache's Resize drops len(table) − n entries.
//	AUX-ARRAY-MIN  (C05, C11) bam.parseAux demands no more than the eight bytes of
//	               a B array's header before it has read the count: an empty
//	               array at the end of a record is eight bytes.
//	REF-COUNT      (C05, C07) sam.readRefRecords reads as many reference records
//	               as the header says (the loop is bounded by its parameter, not
//	               by the length of a slice with a capped allocation).
//	PATH-BAMCLOSE  (C12, C08) bam.Writer.Close closes the BGZF writer on every path.
//	MEMBER-ACCEPT  (C01, C10) bgzf nextBlockAt: a member that readMember read whole
//	               is handed to the decompressor on every path – no second opinion
//	               on its size in between.
//	ITER-ERR       (C10, C13) the error of a bam.Iterator is recorded by Next only;
//	               Close reports it, it does not assign it.
package main

import (
	"fmt"
	"go/token"
	"go/types"
	"strings"

	"golang.org/x/tools/go/ssa"
)

// ---- STRATEGY-BIND --------------------------------------------------------------------

func ruleStrategyBind(c *Ctx, r *Rep, tier string) {
	rule := "STRATEGY-BIND"
	pkg := c.SSA["bgzf/index"]
	want := map[string]string{"Identity": "identity", "Adjacent": "adjacent", "Squash": "squash"}
	got := map[string]string{}
	if init := pkg.Func("init"); init != nil {
		allInstrs(init, func(ins ssa.Instruction) {
			st, ok := ins.(*ssa.Store)
			if !ok {
				return
			}
			g, ok := st.Addr.(*ssa.Global)
			if !ok {
				return
			}
			if _, isWanted := want[g.Name()]; !isWanted {
				return
			}
			v := st.Val
			for {
				switch x := v.(type) {
				case *ssa.ChangeType:
					v = x.X
					continue
				case *ssa.MakeInterface:
					v = x.X
					continue
				}
				break
			}
			switch x := v.(type) {
			case *ssa.Function:
				got[g.Name()] = x.Name()
			case *ssa.MakeClosure:
				got[g.Name()] = "a closure (" + x.Fn.Name() + ")"
			default:
				got[g.Name()] = "the result of " + symKey(v)
			}
		})
	}
	for _, name := range []string{"Identity", "Adjacent", "Squash"} {
		r.Instance(rule, 1)
		g := got[name]
		why := ""
		if g != want[name] {
			if g == "" {
				g = "nothing the rule can follow"
			}
			why = fmt.Sprintf("index.%s is initialised with %s, not with the function %s: what bam, csi and tabix reach through the exported name is not the function whose merge step was examined (a Compressor with threshold 0, for instance, compares block starts only and merges two chunks of one block across the gap between them)", name, g, want[name])
		}
		r.Check(why == "", rule, "bgzf/index."+name+"#bound", "bgzf/index/strategy.go", "= "+want[name], why)
	}
}

// ---- RESIZE-COUNT ---------------------------------------------------------------------

func ruleResizeCount(c *Ctx, r *Rep, tier string) {
	rule := "RESIZE-COUNT"
	n := 0
	for _, fn := range c.FuncsIn("bgzf/cache") {
		if fn.Name() != "Resize" || fn.Signature.Recv() == nil || len(fn.Params) != 2 {
			continue
		}
		recv, newCap := fn.Params[0], fn.Params[1]
		allInstrs(fn, func(ins ssa.Instruction) {
			call, ok := ins.(*ssa.Call)
			if !ok {
				return
			}
			g := staticCallee(&call.Call)
			if g == nil || g.Name() != "drop" || len(call.Call.Args) != 2 {
				return
			}
			n++
			r.Instance(rule, 1)
			key := c.FnName(fn) + "#drop-count"
			arg := call.Call.Args[1]
			why := ""
			sub, ok := arg.(*ssa.BinOp)
			isLenTable := func(v ssa.Value) bool {
				a, ok := isLenCall(v)
				if !ok {
					return false
				}
				ld, ok := a.(*ssa.UnOp)
				if !ok || ld.Op != token.MUL {
					return false
				}
				fa, ok := ld.X.(*ssa.FieldAddr)
				if !ok || origin(fa.X) != ssa.Value(recv) {
					return false
				}
				_, isMap := ld.Type().Underlying().(*types.Map)
				return isMap
			}
			if !ok || sub.Op != token.SUB || !isLenTable(sub.X) || stripConv(sub.Y) != ssa.Value(newCap) {
				why = fmt.Sprintf("Resize drops %s entries, not len(table) − n: a cache that is not full and is shrunk below its length loses more than the excess (with the capacity in place of the length: capacity − length entries too many, the most recently used among them)", symKey(arg))
			}
			r.Check(why == "", rule, key, c.Pos(call.Pos()), "drop(len(table) − n)", why)
		})
	}
	if n < 3 {
		r.Instance(rule, 1)
		r.Fail(rule, "bgzf/cache#resize-drops", "bgzf/cache/cache.go", fmt.Sprintf("only %d drop calls found in Resize methods (3 confirmed by reading): the rule's anchor moved", n))
	}
}

// ---- AUX-ARRAY-MIN --------------------------------------------------------------------

func ruleAuxArrayMin(c *Ctx, r *Rep, tier string) {
	rule := "AUX-ARRAY-MIN"
	fn := c.Func("bam", "parseAux")
	aux := ssa.Value(fn.Params[0])
	r.Instance(rule, 1)
	key := "bam.parseAux#array-header"
	// the read of the count: a ByteOrder.Uint32 over aux[i+4:i+8]
	var cnt *ssa.Call
	var idx ssa.Value
	allInstrs(fn, func(ins ssa.Instruction) {
		call, ok := ins.(*ssa.Call)
		if !ok {
			return
		}
		if w, ok := byteOrderWidth(call); !ok || w != 4 || len(call.Call.Args) < 2 {
			return
		}
		sl, ok := call.Call.Args[1].(*ssa.Slice)
		if !ok || sl.X != aux || sl.Low == nil {
			return
		}
		lo := polyOf(sl.Low, nil)
		if k, has := lo[""]; has && k == 4 && len(lo) == 2 {
			cnt = call
			if bo, ok := sl.Low.(*ssa.BinOp); ok {
				idx = bo.X
			}
		}
	})
	if cnt == nil || idx == nil {
		r.Fail(rule, key, c.Pos(fn.Pos()), "the read of a B array's count (Uint32 of aux[i+4:i+8]) was not found: the rule's anchor moved (undecided)")
		return
	}
	ip := polyOf(idx, nil)
	why := ""
	for _, b := range fn.Blocks {
		iff := ifOf(b)
		if iff == nil || b.Succs[0] == b.Succs[1] {
			continue
		}
		bo, ok := iff.Cond.(*ssa.BinOp)
		if !ok {
			continue
		}
		isLenAux := func(v ssa.Value) bool { a, ok := isLenCall(v); return ok && a == aux }
		var A ssa.Value
		passEdge, strict := -1, false // the edge on which A ≤ len(aux) (strict: A < len(aux)) holds
		switch {
		case isLenAux(bo.Y):
			A = bo.X
			switch bo.Op {
			case token.GTR:
				passEdge = 1
			case token.GEQ:
				passEdge, strict = 1, true
			case token.LEQ:
				passEdge = 0
			case token.LSS:
				passEdge, strict = 0, true
			}
		case isLenAux(bo.X):
			A = bo.Y
			switch bo.Op {
			case token.LSS:
				passEdge = 1
			case token.LEQ:
				passEdge, strict = 1, true
			case token.GEQ:
				passEdge = 0
			case token.GTR:
				passEdge, strict = 0, true
			}
		}
		if passEdge < 0 || !dominatedByEdge(fn, b, passEdge, cnt.Block()) {
			continue
		}
		d := polyOf(A, nil).add(ip, -1)
		k, isConst := d[""]
		if strict {
			k++
		}
		switch {
		case len(d) > 1 || (len(d) == 1 && !isConst):
			why = fmt.Sprintf("before the count of a B array is read the guard at %s demands i+%s bytes – more than the eight of the array's header (tag, 'B', subtype, count) by an amount that is not constant: an array without elements, eight bytes, is refused when it is the last field of a record although the writer wrote it", c.Pos(iff.Pos()), strings.TrimPrefix(symKey(A), symKey(idx)+"+"))
		case k > 8:
			why = fmt.Sprintf("before the count of a B array is read the guard at %s demands %d bytes from the field's start, more than the eight of the array's header: an empty array at the end of a record is refused", c.Pos(iff.Pos()), k)
		}
	}
	r.Check(why == "", rule, key, c.Pos(cnt.Pos()), "no guard before the count demands more than eight bytes", why)
}

// ---- REF-COUNT ------------------------------------------------------------------------

func ruleRefCount(c *Ctx, r *Rep, tier string) {
	rule := "REF-COUNT"
	fn := c.Func("sam", "readRefRecords")
	r.Instance(rule, 1)
	key := "sam.readRefRecords#count"
	var nParam *ssa.Parameter
	for _, p := range fn.Params {
		if b, ok := p.Type().Underlying().(*types.Basic); ok && b.Info()&types.IsInteger != 0 {
			nParam = p
		}
	}
	// the loop that holds the reads: the innermost loop head that dominates a read call
	var read ssa.Instruction
	allInstrs(fn, func(ins ssa.Instruction) {
		if call, ok := ins.(*ssa.Call); ok {
			switch calleeFullName(&call.Call) {
			case "io.ReadFull", "encoding/binary.Read":
				if read == nil {
					read = ins
				}
			}
		}
	})
	why := ""
	if nParam == nil || read == nil {
		why = "the count parameter or the reads of readRefRecords were not found: the rule's anchor moved (undecided)"
	} else {
		found := false
		for _, b := range fn.Blocks {
			iff := ifOf(b)
			if iff == nil || !b.Dominates(read.Block()) || b == read.Block() {
				continue
			}
			// a loop head: reached again from the read
			if _, again := pathTo(locOf(read), func(x ssa.Instruction) bool { return x == ssa.Instruction(iff) }, nil, nil); !again {
				continue
			}
			bo, ok := iff.Cond.(*ssa.BinOp)
			if !ok {
				continue
			}
			found = true
			bound := bo.Y
			if _, isPhi := bo.X.(*ssa.Phi); !isPhi {
				bound = bo.X
			}
			if stripConv(bound) != ssa.Value(nParam) {
				why = fmt.Sprintf("the loop that reads the reference records runs to %s, not to the count the header gives (%s): with the slice allocated for at most a fixed number of references the decoder stops after that many and leaves the stream inside the reference list – a header with more references reads back incomplete, and the first record is taken from the middle of a reference record", symKey(bound), paramKey(nParam))
			}
		}
		if !found {
			why = "no loop round the reads of readRefRecords found (undecided)"
		}
	}
	r.Check(why == "", rule, key, c.Pos(fn.Pos()), "the loop is bounded by the count parameter", why)
}

// ---- PATH-BAMCLOSE --------------------------------------------------------------------

func rulePathBamClose(c *Ctx, r *Rep, tier string) {
	rule := "PATH-BAMCLOSE"
	fn := c.Func("bam", "(*Writer).Close")
	bgClose := c.Func("bgzf", "(*Writer).Close")
	r.Instance(rule, 1)
	isClose := func(ins ssa.Instruction) bool {
		call, ok := ins.(*ssa.Call)
		if !ok {
			return false
		}
		g := staticCallee(&call.Call)
		if g == bgClose {
			return true
		}
		// through a promoted method of an embedding type
		if g != nil && g.Name() == "Close" && g.Synthetic != "" {
			reaches := false
			allInstrs(g, func(x ssa.Instruction) {
				if cc := callCommon(x); cc != nil && staticCallee(cc) == bgClose {
					reaches = true
				}
			})
			return reaches
		}
		return false
	}
	why := ""
	if bad, ok := mustPass(entryLoc(fn), isReturn, isClose, nil); !ok {
		why = fmt.Sprintf("bam.Writer.Close can return at %s without having closed the BGZF writer: Flush alone does not wait – Close returns while the last records are still being compressed or written, and the stream has no EOF block", c.Pos(bad.Pos()))
	}
	r.Check(why == "", rule, "bam.(*Writer).Close#closes-bgzf", c.Pos(fn.Pos()), "every return is behind bgzf.Writer.Close", why)
}

// ---- MEMBER-ACCEPT --------------------------------------------------------------------

func ruleMemberAccept(c *Ctx, r *Rep, tier string) {
	rule := "MEMBER-ACCEPT"
	fn := c.Func("bgzf", "(*decompressor).nextBlockAt")
	readMember := c.Func("bgzf", "(*decompressor).readMember")
	r.Instance(rule, 1)
	key := "bgzf.(*decompressor).nextBlockAt#decodes-what-it-read"
	var rm *ssa.Call
	var goStmt ssa.Instruction
	allInstrs(fn, func(ins ssa.Instruction) {
		if call, ok := ins.(*ssa.Call); ok && staticCallee(&call.Call) == readMember {
			rm = call
		}
		if g, ok := ins.(*ssa.Go); ok {
			goStmt = g
		}
	})
	if rm == nil || goStmt == nil {
		r.Fail(rule, key, c.Pos(fn.Pos()), "readMember call or the go statement that starts decompression not found in nextBlockAt: the rule's anchor moved (undecided)")
		return
	}
	// follow the "no error" edge of the test of readMember's result
	errF := c.Field("bgzf", "decompressor", "err")
	okEdge := func(from, to *ssa.BasicBlock) bool {
		ce, ok := classifyErrIf(from, func(v ssa.Value) bool {
			if v == ssa.Value(rm) {
				return true
			}
			f, _ := loadedField(v)
			return f == errF
		})
		if !ok || !ce.isNil || from.Succs[0] == from.Succs[1] || !instrDominates(rm, from.Instrs[len(from.Instrs)-1]) {
			return true
		}
		// only the first such test after readMember decides about its result
		if _, between := pathTo(locOf(rm), func(x ssa.Instruction) bool {
			st, ok := x.(*ssa.Store)
			if !ok || x.Block() == rm.Block() {
				return false
			}
			fa, ok := st.Addr.(*ssa.FieldAddr)
			return ok && fieldVarOfAddr(fa) == errF && instrDominates(x, from.Instrs[len(from.Instrs)-1])
		}, nil, nil); between {
			return true
		}
		return to == from.Succs[ce.yes]
	}
	why := ""
	if bad, ok := mustPass(locOf(rm), isReturn, func(x ssa.Instruction) bool { return x == goStmt }, okEdge); !ok {
		why = fmt.Sprintf("after readMember has read a whole member without error, nextBlockAt can return at %s without starting the decompression: the member is refused on a second opinion (a bound on the compressed size, say) – and a conforming writer's member is whatever BSIZE says, up to 64 KiB: incompressible data at levels other than 0 and 1 needs more than BlockSize+10 bytes of deflate stream", c.Pos(bad.Pos()))
	}
	r.Check(why == "", rule, key, c.Pos(fn.Pos()), "success of readMember leads to the go statement on every path", why)
}

// ---- ITER-ERR -------------------------------------------------------------------------

func ruleIterErr(c *Ctx, r *Rep, tier string) {
	rule := "ITER-ERR"
	errF := c.Field("bam", "Iterator", "err")
	n := 0
	for _, fn := range c.FuncsIn("bam") {
		for _, f := range withAnon(fn) {
			f := f
			allInstrs(f, func(ins ssa.Instruction) {
				st, ok := ins.(*ssa.Store)
				if !ok {
					return
				}
				fa, ok := st.Addr.(*ssa.FieldAddr)
				if !ok || fieldVarOfAddr(fa) != errF {
					return
				}
				n++
				r.Instance(rule, 1)
				key := fmt.Sprintf("%s#iterator-err~%d", c.FnName(f), n)
				name := rootFn(f).Name()
				ok2 := name == "Next" || name == "NewIterator"
				if _, isAlloc := origin(fa.X).(*ssa.Alloc); isAlloc {
					ok2 = true // a new Iterator being built
				}
				r.Check(ok2, rule, key, c.Pos(st.Pos()), "recorded by Next (or set when the Iterator is made)", fmt.Sprintf("%s assigns the Iterator's error at %s: the error Next recorded – the reason the iteration stopped – is overwritten, and the documented `for it.Next() {…}; return it.Close()` reports success for a damaged stream", c.FnName(f), c.Pos(st.Pos())))
			})
		}
	}
	if n < 2 {
		r.Instance(rule, 1)
		r.Fail(rule, "bam.Iterator#err-stores", "bam/reader.go", fmt.Sprintf("only %d stores to Iterator.err found (2 confirmed by reading, both in Next): the rule's anchor moved", n))
	}
}
