// Context-insensitive reachability over several functions (a small
// "supergraph"): a call to a function of the set both enters the callee and –
// assuming it returns – continues after the call; a return continues after
// every call site of its function inside the set.
package main

import "golang.org/x/tools/go/ssa"

func superReach(fns map[*ssa.Function]bool, start []Loc, target, barrier func(ssa.Instruction) bool, edgeOK edgeFn) (ssa.Instruction, bool) {
	sites := map[*ssa.Function][]ssa.Instruction{}
	for f := range fns {
		allInstrs(f, func(ins ssa.Instruction) {
			if cc := callCommon(ins); cc != nil {
				if _, isGo := ins.(*ssa.Go); isGo {
					return
				}
				if g := staticCallee(cc); g != nil && fns[g] {
					sites[g] = append(sites[g], ins)
				}
			}
		})
	}
	type key struct {
		b *ssa.BasicBlock
		i int
	}
	seen := map[key]bool{}
	var work []key
	push := func(b *ssa.BasicBlock, i int) {
		k := key{b, i}
		if !seen[k] {
			seen[k] = true
			work = append(work, k)
		}
	}
	for _, s := range start {
		push(s.B, s.I+1)
	}
	for len(work) > 0 {
		it := work[len(work)-1]
		work = work[:len(work)-1]
		stopped := false
		for i := it.i; i < len(it.b.Instrs); i++ {
			ins := it.b.Instrs[i]
			if target(ins) {
				return ins, true
			}
			if barrier != nil && barrier(ins) {
				stopped = true
				break
			}
			switch x := ins.(type) {
			case *ssa.Call:
				if g := staticCallee(&x.Call); g != nil && fns[g] && g.Blocks != nil {
					push(g.Blocks[0], 0)
				}
			case *ssa.RunDefers:
				// deferred calls of this function run here
				allInstrs(it.b.Parent(), func(d ssa.Instruction) {
					if df, ok := d.(*ssa.Defer); ok {
						if g := staticCallee(&df.Call); g != nil && fns[g] && g.Blocks != nil {
							push(g.Blocks[0], 0)
						}
					}
				})
			case *ssa.Return:
				for _, site := range sites[it.b.Parent()] {
					if _, isDefer := site.(*ssa.Defer); isDefer {
						continue
					}
					l := locOf(site)
					push(l.B, l.I+1)
				}
			}
		}
		if stopped {
			continue
		}
		for _, s := range it.b.Succs {
			if edgeOK != nil && !edgeOK(it.b, s) {
				continue
			}
			push(s, 0)
		}
	}
	return nil, false
}
