// C15: index serialisation (BAI, CSI, tabix) – structural part.
package main

import (
	"fmt"
	"go/token"
	"go/types"
	"regexp"
	"sort"
	"strings"

	"golang.org/x/tools/go/ssa"
)

// wtok: one item of a writer's or reader's wire sequence.
type wtok struct {
	width int // bytes; -1 variable
	depth int // loop nesting (across inlined helpers)
	cond  string
	role  string // field-derived role, "" = no field on this side (local, length, constant)
	pos   token.Pos
	what  string
}

func (t wtok) String() string {
	w := fmt.Sprint(t.width)
	if t.width < 0 {
		w = "var"
	}
	return w + strings.Repeat("*", t.depth) + t.cond
}

var lastSelRE = regexp.MustCompile(`\.([A-Za-z_][A-Za-z0-9_]*)[)\]]*$`)

func roleOfKey(k string) string {
	k = strings.TrimPrefix(k, "&")
	if strings.Contains(strings.ToLower(k), "magic") {
		return "magic"
	}
	if m := lastSelRE.FindStringSubmatch(k); m != nil {
		return m[1]
	}
	return ""
}

// destOfTemp: the field a value read into the local temp (by the binary.Read at
// call) is assigned to afterwards.
func destOfTemp(al *ssa.Alloc, call *ssa.Call) string {
	var reads []ssa.Instruction // other reads into the same temp
	for _, ref := range *al.Referrers() {
		if mi, ok := ref.(*ssa.MakeInterface); ok {
			for _, r2 := range *mi.Referrers() {
				if c2, ok := r2.(*ssa.Call); ok && c2 != call {
					reads = append(reads, c2)
				}
			}
		}
	}
	for _, ref := range *al.Referrers() {
		ld, ok := ref.(*ssa.UnOp)
		if !ok || ld.Op != token.MUL || !instrDominates(call, ld) {
			continue
		}
		stale := false
		for _, r2 := range reads {
			if instrDominates(call, r2) && instrDominates(r2, ld) {
				stale = true
			}
		}
		if stale {
			continue
		}
		// follow the loaded value to a store (through conversions and makeOffset-like calls)
		var find func(v ssa.Value, d int) string
		find = func(v ssa.Value, d int) string {
			if d > 3 {
				return ""
			}
			for _, u := range *v.Referrers() {
				switch x := u.(type) {
				case *ssa.Store:
					if x.Val == v {
						return roleOfKey(symAddrKey(x.Addr, nil, 0))
					}
				case *ssa.Call:
					if r := find(x, d+1); r != "" {
						return r
					}
				case *ssa.Convert:
					if r := find(x, d+1); r != "" {
						return r
					}
				}
			}
			return ""
		}
		if r := find(ld, 0); r != "" {
			return r
		}
	}
	return ""
}

// condOf: a version test ("version == 2") that dominates ins, rendered.
func condOf(fn *ssa.Function, ins ssa.Instruction) string {
	for _, b := range fn.Blocks {
		iff := ifOf(b)
		if iff == nil {
			continue
		}
		bo, ok := iff.Cond.(*ssa.BinOp)
		if !ok || (bo.Op != token.EQL && bo.Op != token.NEQ) {
			continue
		}
		k, isK := constInt(bo.Y)
		if !isK || !isVersionValue(bo.X) {
			continue
		}
		yes := 0
		if bo.Op == token.NEQ {
			yes = 1
		}
		// the set of versions (of those the package knows: every constant a
		// version is compared with) for which the item is present
		dom := versionDomain(fn)
		var in []string
		switch {
		case dominatedByEdge(fn, b, yes, ins.Block()):
			in = append(in, fmt.Sprint(k))
		case dominatedByEdge(fn, b, 1-yes, ins.Block()):
			for _, v := range dom {
				if v != k {
					in = append(in, fmt.Sprint(v))
				}
			}
		default:
			continue
		}
		return "[v" + strings.Join(in, ",") + "]"
	}
	return ""
}

var versionDomCache = map[*ssa.Package][]int64{}

func versionDomain(fn *ssa.Function) []int64 {
	pkg := fn.Pkg
	if d, ok := versionDomCache[pkg]; ok {
		return d
	}
	set := map[int64]bool{}
	for _, m := range pkg.Members {
		f, ok := m.(*ssa.Function)
		if !ok {
			continue
		}
		allInstrs(f, func(ins ssa.Instruction) {
			if bo, ok := ins.(*ssa.BinOp); ok && (bo.Op == token.EQL || bo.Op == token.NEQ) {
				if k, isK := constInt(bo.Y); isK && isVersionValue(bo.X) {
					set[k] = true
				}
			}
		})
	}
	var d []int64
	for k := range set {
		d = append(d, k)
	}
	sort.Slice(d, func(i, j int) bool { return d[i] < d[j] })
	versionDomCache[pkg] = d
	return d
}

// wireFlat: the wire sequence of fn with module helpers inlined at their call
// position, except those for which cut returns true (a marker token is left).
func wireFlat(c *Ctx, fn *ssa.Function, depth, lvl int, cut func(*ssa.Function) bool) []wtok {
	if fn == nil || len(fn.Blocks) == 0 || lvl > 5 {
		return nil
	}
	type item struct {
		pos  token.Pos
		toks []wtok
	}
	var items []item
	allInstrs(fn, func(ins ssa.Instruction) {
		call, ok := ins.(*ssa.Call)
		if !ok {
			return
		}
		d := depth
		if inLoop(ins) {
			d++
		}
		cond := condOf(fn, ins)
		name := calleeFullName(&call.Call)
		switch name {
		case "encoding/binary.Write", "encoding/binary.Read":
			arg := call.Call.Args[2]
			if mi, ok := arg.(*ssa.MakeInterface); ok {
				arg = mi.X
			}
			t := arg.Type()
			if sl, ok := t.Underlying().(*types.Slice); ok {
				// a batch of fixed-width elements
				if w := binarySizeOf(sl.Elem()); w > 0 {
					// one loop level over the elements, whether or not the
					// function splits the work into batches with a loop of its own
					items = append(items, item{call.Pos(), []wtok{{width: w, depth: depth + 1, cond: cond, pos: call.Pos(), what: symKey(arg)}}})
					return
				}
			}
			// an array literal written in one call: one token per element
			if u, ok := arg.(*ssa.UnOp); ok && u.Op == token.MUL {
				if al, ok := u.X.(*ssa.Alloc); ok {
					if at, ok := al.Type().(*types.Pointer).Elem().Underlying().(*types.Array); ok && al.Comment == "complit" {
						ew := binarySizeOf(at.Elem())
						els := make([]wtok, at.Len())
						for i := range els {
							els[i] = wtok{width: ew, depth: d, cond: cond, pos: call.Pos(), what: "0"}
						}
						for _, ref := range *al.Referrers() {
							if ia, ok := ref.(*ssa.IndexAddr); ok {
								if k, ok := constInt(ia.Index); ok && int(k) < len(els) {
									for _, r2 := range *ia.Referrers() {
										if st, ok := r2.(*ssa.Store); ok {
											els[k].what = symKey(st.Val)
										}
									}
								}
							}
						}
						items = append(items, item{call.Pos(), els})
						return
					}
				}
			}
			w := binarySizeOf(t)
			role := ""
			key := symKey(arg)
			if al, ok := arg.(*ssa.Alloc); ok && name == "encoding/binary.Read" {
				role = destOfTemp(al, call)
			} else {
				role = roleOfKey(key)
			}
			items = append(items, item{call.Pos(), []wtok{{width: w, depth: d, cond: cond, role: role, pos: call.Pos(), what: key}}})
			return
		case "io.ReadFull":
			// a fixed buffer decoded piecewise: one token per Uint32/Uint64(buf[a:b]) use
			if sl, ok := call.Call.Args[1].(*ssa.Slice); ok {
				if al, ok := sl.X.(*ssa.Alloc); ok {
					if at, ok := al.Type().(*types.Pointer).Elem().Underlying().(*types.Array); ok && sl.Low == nil && sl.High == nil {
						type piece struct {
							lo   int64
							w    int
							role string
						}
						var ps []piece
						for _, ref := range *al.Referrers() {
							s2, ok := ref.(*ssa.Slice)
							if !ok || s2 == sl {
								continue
							}
							lo, hi := int64(0), at.Len()
							if s2.Low != nil {
								lo, _ = constInt(s2.Low)
							}
							if s2.High != nil {
								hi, _ = constInt(s2.High)
							}
							role := ""
							for _, u := range *s2.Referrers() {
								if cv, ok := u.(ssa.Value); ok {
									var find func(v ssa.Value, d int) string
									find = func(v ssa.Value, d int) string {
										if d > 3 || v.Referrers() == nil {
											return ""
										}
										for _, x := range *v.Referrers() {
											switch y := x.(type) {
											case *ssa.Store:
												return roleOfKey(symAddrKey(y.Addr, nil, 0))
											case ssa.Value:
												if r := find(y, d+1); r != "" {
													return r
												}
											}
										}
										return ""
									}
									role = find(cv, 0)
								}
							}
							w := int(hi - lo)
							if w > 8 {
								w = 8
							}
							ps = append(ps, piece{lo, w, role})
						}
						sort.Slice(ps, func(i, j int) bool { return ps[i].lo < ps[j].lo })
						var toks []wtok
						for _, p := range ps {
							toks = append(toks, wtok{width: p.w, depth: d, cond: cond, role: p.role, pos: call.Pos(), what: fmt.Sprintf("buf[%d:]", p.lo)})
						}
						if len(toks) > 0 {
							items = append(items, item{call.Pos(), toks})
							return
						}
						items = append(items, item{call.Pos(), []wtok{{width: int(at.Len()), depth: d, cond: cond, pos: call.Pos()}}})
						return
					}
				}
			}
			items = append(items, item{call.Pos(), []wtok{{width: -1, depth: d, cond: cond, pos: call.Pos(), what: symKey(call.Call.Args[1])}}})
			return
		}
		if call.Call.IsInvoke() && (call.Call.Method.Name() == "Write" || call.Call.Method.Name() == "Read") && len(call.Call.Args) == 1 {
			w := -1
			// a slice literal of known length ([]byte{idx.Version})
			if sl, ok := call.Call.Args[0].(*ssa.Slice); ok && sl.Low == nil && sl.High == nil && d == 0 {
				if al, ok := sl.X.(*ssa.Alloc); ok && al.Comment == "slicelit" {
					if at, ok := al.Type().(*types.Pointer).Elem().Underlying().(*types.Array); ok {
						w = int(at.Len())
					}
				}
			}
			items = append(items, item{call.Pos(), []wtok{{width: w, depth: d, cond: cond, pos: call.Pos(), what: symKey(call.Call.Args[0])}}})
			return
		}
		if g := staticCallee(&call.Call); g != nil && c.PkgOf(g) != nil && g != fn {
			if cut != nil && cut(g) {
				items = append(items, item{call.Pos(), []wtok{{width: 0, depth: d, cond: cond, role: "<" + g.Name() + ">", pos: call.Pos()}}})
				return
			}
			if sub := wireFlat(c, g, d, lvl+1, cut); len(sub) > 0 {
				for i := range sub {
					if sub[i].cond == "" {
						sub[i].cond = cond
					}
				}
				items = append(items, item{call.Pos(), sub})
			}
		}
	})
	sort.SliceStable(items, func(i, j int) bool { return items[i].pos < items[j].pos })
	var out []wtok
	for _, it := range items {
		out = append(out, it.toks...)
	}
	return out
}

func wstr(ts []wtok) string {
	var s []string
	for _, t := range ts {
		if t.width == 0 {
			continue
		}
		x := t.String()
		if t.role != "" {
			x += ":" + t.role
		}
		s = append(s, x)
	}
	return strings.Join(s, " ")
}

// compareWire: widths, loop depths and version conditions must agree position by
// position; roles must agree where both sides have a field-derived role.
func compareWire(w, r []wtok) string {
	// markers dropped; a run of variable-width items (name, NUL, name, NUL … on
	// one side, one block of bytes on the other) counts as one
	squash := func(in []wtok) []wtok {
		var out []wtok
		for _, t := range in {
			if t.width == 0 {
				continue
			}
			if t.width < 0 {
				if len(out) > 0 && out[len(out)-1].width < 0 {
					continue
				}
				t.depth, t.cond = 0, ""
			}
			out = append(out, t)
		}
		return out
	}
	ww, rr := squash(w), squash(r)
	if len(ww) != len(rr) {
		// one side may write several fields in one call (a struct, an array):
		// compare byte totals of adjacent fixed items at the same depth and
		// condition instead – weaker (no roles), but not a false report
		coalesce := func(in []wtok) []wtok {
			var out []wtok
			for _, t := range in {
				if n := len(out); n > 0 && t.width > 0 && out[n-1].width > 0 && out[n-1].depth == t.depth && out[n-1].cond == t.cond {
					out[n-1].width += t.width
					out[n-1].role = ""
					continue
				}
				t.role = ""
				out = append(out, t)
			}
			return out
		}
		cw, cr := coalesce(ww), coalesce(rr)
		same := len(cw) == len(cr)
		for i := 0; same && i < len(cw); i++ {
			same = cw[i].width == cr[i].width && cw[i].depth == cr[i].depth && cw[i].cond == cr[i].cond
		}
		if same {
			return ""
		}
		return fmt.Sprintf("writer emits %d items [%s], reader consumes %d [%s]", len(ww), wstr(ww), len(rr), wstr(rr))
	}
	for i := range ww {
		a, b := ww[i], rr[i]
		if a.width != b.width || a.depth != b.depth || a.cond != b.cond {
			return fmt.Sprintf("item %d: writer %s (%s), reader %s (%s); writer [%s], reader [%s]", i, a, a.what, b, b.what, wstr(ww), wstr(rr))
		}
		if a.role != "" && b.role != "" && !strings.EqualFold(a.role, b.role) {
			return fmt.Sprintf("item %d: writer emits %s, reader stores it as %s; writer [%s], reader [%s]", i, a.role, b.role, wstr(ww), wstr(rr))
		}
	}
	return ""
}

func isStatsHelper(g *ssa.Function) bool { return strings.HasSuffix(g.Name(), "Stats") }

func ruleWireIndex(rule string, pairs [][4]string) func(c *Ctx, r *Rep, tier string) {
	return func(c *Ctx, r *Rep, tier string) {
		for _, p := range pairs {
			wfn, rfn := c.Func(p[0], p[1]), c.Func(p[2], p[3])
			w := wireFlat(c, wfn, 0, 0, isStatsHelper)
			rd := wireFlat(c, rfn, 0, 0, isStatsHelper)
			r.Instance(rule, 1)
			key := fmt.Sprintf("%s.%s/%s#sequence", p[0], p[1], p[3])
			why := ""
			if len(w) == 0 || len(rd) == 0 {
				why = "no wire items extracted"
			} else {
				why = compareWire(w, rd)
			}
			r.Check(why == "", rule, key, c.Pos(wfn.Pos()), "writer = reader = ["+wstr(w)+"]", why)
		}
	}
}

// ---- the statistics pseudo-bin ------------------------------------------------------------------------

func ruleStatsBin(c *Ctx, r *Rep, tier string) {
	rule := "COUNT-ONE"
	for _, pkg := range []string{"internal", "csi"} {
		wb, rb := c.Func(pkg, "writeBins"), c.Func(pkg, "readBins")
		ws, rs := c.Func(pkg, "writeStats"), c.Func(pkg, "readStats")
		// body: writeStats after its header == readStats
		w := wireFlat(c, ws, 0, 0, nil)
		rd := wireFlat(c, rs, 0, 0, nil)
		// the header items of writeStats: everything before the first field-derived item
		hdr := map[string][]wtok{}
		var body []wtok
		for _, t := range w {
			if t.role == "" && len(body) == 0 {
				hdr[t.cond] = append(hdr[t.cond], t)
			} else {
				body = append(body, t)
			}
		}
		r.Instance(rule, 1)
		why := compareWire(body, rd)
		r.Check(why == "", rule, pkg+".writeStats/readStats#body", c.Pos(ws.Pos()), "stats record: ["+wstr(body)+"] on both sides", why)

		// header: per version, the pseudo-bin header has the width of an ordinary
		// bin's header as the reader consumes it, starts with the pseudo-bin
		// number and ends with the chunk count the reader insists on
		rbins := wireFlat(c, rb, 0, 0, isStatsHelper)
		perBin := map[string]int{}
		var versions []string
		for v := range hdr {
			versions = append(versions, v)
		}
		sort.Strings(versions)
		marker := -1
		for i, t := range rbins {
			if t.width == 0 && t.role == "<readStats>" {
				marker = i
			}
		}
		for _, v := range versions {
			sum := 0
			for i, t := range rbins {
				if marker >= 0 && i < marker && t.depth == 1 && (t.cond == "" || t.cond == v) {
					sum += t.width
				}
			}
			perBin[v] = sum
		}
		// the constant the reader compares the count with, and the bin it treats as pseudo-bin
		var wantCount int64 = -1
		dummyKey := ""
		allInstrs(rb, func(ins ssa.Instruction) {
			bo, ok := ins.(*ssa.BinOp)
			if !ok {
				return
			}
			if bo.Op == token.NEQ {
				if k, ok := constInt(bo.Y); ok && k > 0 && strings.Contains(strings.ToLower(symKey(bo.X)), "n") {
					if iff := ifOf(bo.Block()); iff != nil && iff.Cond == ssa.Value(bo) {
						for _, b := range rb.Blocks {
							if i2 := ifOf(b); i2 != nil {
								if b2, ok := i2.Cond.(*ssa.BinOp); ok && b2.Op == token.EQL && dominatedByEdge(rb, b, 0, bo.Block()) {
									// bins[i].bin == pseudo-bin number, read from either side
									switch {
									case strings.HasSuffix(strings.ToLower(symKey(b2.X)), ".bin"):
										wantCount, dummyKey = k, symKey(b2.Y)
									case strings.HasSuffix(strings.ToLower(symKey(b2.Y)), ".bin"):
										wantCount, dummyKey = k, symKey(b2.X)
									}
								}
							}
						}
					}
				}
			}
		})
		for _, v := range versions {
			r.Instance(rule, 1)
			h := hdr[v]
			sum := 0
			for _, t := range h {
				sum += t.width
			}
			why := ""
			switch {
			case marker < 0:
				why = "readBins never reads a statistics record"
			case len(h) < 2:
				why = "pseudo-bin header not found in writeStats"
			case sum != perBin[v]:
				why = fmt.Sprintf("the pseudo-bin header is %d bytes [%s] but the reader consumes %d bytes of bin header before it recognises the pseudo-bin", sum, wstr(h), perBin[v])
			case wantCount < 0:
				why = "the reader does not check the pseudo-bin's chunk count"
			case h[len(h)-1].what != fmt.Sprint(wantCount):
				why = fmt.Sprintf("the header's chunk count is %s, the reader insists on %d", h[len(h)-1].what, wantCount)
			case limitNorm(ws, h[0].what) != limitNorm(rb, dummyKey):
				// internal: a constant; csi: binLimit+1 on both sides
				why = fmt.Sprintf("the header's bin number is %s, the reader recognises %s", h[0].what, dummyKey)
			}
			r.Check(why == "", rule, fmt.Sprintf("%s.writeStats#pseudo-bin-header%s", pkg, v), c.Pos(ws.Pos()), fmt.Sprintf("%d bytes, bin %s, count %d", sum, dummyKey, wantCount), why)
		}

		// counting: the writer announces len(bins) + (1 iff stats != nil); the reader drops exactly one slot when it meets the pseudo-bin
		r.Instance(rule, 1)
		{
			why := ""
			// writer: the value written first is phi(len(bins), len(bins)+1) on stats != nil
			var first *ssa.Call
			allInstrs(wb, func(ins ssa.Instruction) {
				if call, ok := ins.(*ssa.Call); ok && calleeFullName(&call.Call) == "encoding/binary.Write" && (first == nil || call.Pos() < first.Pos()) {
					first = call
				}
			})
			okW := false
			// the roles of the writer's parameters, by type: the bin list and the statistics
			binsKey, statsKey := "?", "?"
			for _, p := range wb.Params {
				switch t := p.Type().(type) {
				case *types.Slice:
					if _, isStruct := t.Elem().Underlying().(*types.Struct); isStruct {
						binsKey = paramKey(p)
					}
				case *types.Pointer:
					if n, ok := t.Elem().(*types.Named); ok && n.Obj().Name() == "ReferenceStats" {
						statsKey = paramKey(p)
					}
				}
			}
			if first != nil {
				arg := first.Call.Args[2]
				if mi, ok := arg.(*ssa.MakeInterface); ok {
					arg = mi.X
				}
				if al, ok := arg.(*ssa.Alloc); ok {
					// n is address-taken: stores n = len(bins); n = n+1 under stats != nil
					base, inc := false, false
					for _, ref := range *al.Referrers() {
						if st, ok := ref.(*ssa.Store); ok && st.Addr == ssa.Value(al) {
							p := polyOf(st.Val, nil).canon()
							if p == pAtom("len("+binsKey+")").canon() {
								base = true
							}
							if p == pAtom(allocKey(al)).add(pConst(1), 1).canon() || p == pAtom("len("+binsKey+")").add(pConst(1), 1).canon() {
								for _, b := range wb.Blocks {
									ce, ok := classifyErrIf(b, func(v ssa.Value) bool { return symKey(v) == statsKey })
									if ok && ce.isNil && dominatedByEdge(wb, b, 1-ce.yes, st.Block()) {
										inc = true
									}
								}
							}
						}
					}
					okW = base && inc
				} else {
					p := polyOf(arg, nil).canon()
					okW = strings.Contains(p, "len("+binsKey+")")
				}
			}
			if !okW {
				why += " the writer's bin count is not len(bins) plus one exactly when stats != nil;"
			}
			// the writer emits the statistics record exactly when stats != nil
			okS := false
			allInstrs(wb, func(ins ssa.Instruction) {
				if call, ok := ins.(*ssa.Call); ok && staticCallee(&call.Call) == ws {
					for _, b := range wb.Blocks {
						ce, ok := classifyErrIf(b, func(v ssa.Value) bool { return symKey(v) == statsKey })
						if ok && ce.isNil && dominatedByEdge(wb, b, 1-ce.yes, call.Block()) {
							okS = true
						}
					}
				}
			})
			if !okS {
				why += " writeStats is not called exactly under stats != nil;"
			}
			// reader: bins = bins[:len(bins)-1] and i-- in the pseudo-bin arm, once
			shr, dec := 0, 0
			allInstrs(rb, func(ins ssa.Instruction) {
				if sl, ok := ins.(*ssa.Slice); ok && sl.High != nil {
					if polyOf(sl.High, nil).canon() == pAtom("len("+symKey(sl.X)+")").add(pConst(1), -1).canon() {
						shr++
					}
				}
				if bo, ok := ins.(*ssa.BinOp); ok && bo.Op == token.SUB {
					if k, ok := constInt(bo.Y); ok && k == 1 {
						if _, isPhi := bo.X.(*ssa.Phi); isPhi {
							dec++
						}
					}
				}
			})
			if shr != 1 || dec != 1 {
				why += fmt.Sprintf(" the reader shrinks the bin slice %d times and steps the index back %d times for a pseudo-bin (want 1 and 1);", shr, dec)
			}
			r.Check(why == "", rule, pkg+".writeBins/readBins#count", c.Pos(wb.Pos()), "n_bin = len(bins) + [stats present]; the reader gives the pseudo-bin's slot back", why)
		}
	}
}

// ---- ELEM-COVER: batched copies visit every element -----------------------------------------------------

func ruleElemCover(c *Ctx, r *Rep, tier string) {
	rule := "ELEM-COVER"
	for _, f := range [][2]string{{"internal", "writeIntervals"}, {"internal", "readIntervals"}} {
		fn := c.Func(f[0], f[1])
		// loop induction variables: phis with a constant start and a + step edge
		type ind struct {
			phi  *ssa.Phi
			step ssa.Value
		}
		var inds []ind
		allInstrs(fn, func(ins ssa.Instruction) {
			ph, ok := ins.(*ssa.Phi)
			if !ok {
				return
			}
			for _, e := range ph.Edges {
				if bo, ok := e.(*ssa.BinOp); ok && bo.Op == token.ADD && bo.X == ssa.Value(ph) {
					inds = append(inds, ind{ph, bo.Y})
				}
			}
		})
		n := 0
		allInstrs(fn, func(ins ssa.Instruction) {
			ia, ok := ins.(*ssa.IndexAddr)
			if !ok {
				return
			}
			// accesses to the offsets slice (parameter of the writer, result of the reader)
			k := symKey(ia.X)
			if !isOffsetSlice(ia.X.Type()) || (!strings.HasPrefix(k, "$") && !strings.HasPrefix(k, "make([]")) {
				return
			}
			if _, isSl := ia.X.Type().Underlying().(*types.Slice); !isSl {
				return
			}
			n++
			r.Instance(rule, 1)
			key := fmt.Sprintf("%s.%s#offsets[%s]", f[0], f[1], symKey(ia.Index))
			// enclosing loops of this access
			want := poly{}
			nEnc := 0
			for _, iv := range inds {
				if iv.phi.Block().Dominates(ia.Block()) && inLoop(ia) {
					// the access is inside the loop of iv if the loop header reaches it and it reaches the header
					if _, back := pathTo(locOf(ia), func(x ssa.Instruction) bool { return x == ssa.Instruction(iv.phi) }, nil, nil); back {
						// the value of the induction variable in the body: the phi itself, or phi+1 for go/ssa's rangeindex form
						v := pAtom(symKey(iv.phi))
						if iv.phi.Comment == "rangeindex" {
							v = v.add(pConst(1), 1)
						}
						want = want.add(v, 1)
						nEnc++
					}
				}
			}
			got := polyOf(ia.Index, nil)
			r.Check(got.eq(want), rule, key, c.Pos(ia.Pos()), fmt.Sprintf("index = sum of the %d enclosing loop counters", nEnc), fmt.Sprintf("inside %d nested loops the element index is %s, want %s: elements are skipped or repeated (a batched copy has to add the batch start to the position within the batch)", nEnc, got.canon(), want.canon()))
		})
		if n == 0 && strings.HasPrefix(f[1], "read") {
			r.Instance(rule, 1)
			r.Fail(rule, f[0]+"."+f[1]+"#offsets", c.Pos(fn.Pos()), "no indexed access to the offsets found")
		}
		if n == 0 && strings.HasPrefix(f[1], "write") {
			// a range loop over the slice: every element once, by construction
			r.Instance(rule, 1)
			rng := false
			allInstrs(fn, func(ins ssa.Instruction) {
				if ia, ok := ins.(*ssa.IndexAddr); ok && isOffsetSlice(ia.X.Type()) {
					rng = true
				}
			})
			r.Check(true, rule, f[0]+"."+f[1]+"#offsets", c.Pos(fn.Pos()), fmt.Sprintf("range over the slice (indexed=%v)", rng), "")
		}
	}
}

// ---- FLAG-TABIX: the format word ---------------------------------------------------------------------------

func ruleFlagTabix(c *Ctx, r *Rep, tier string) {
	rule := "FLAG-TABIX"
	wfn, rfn := c.Func("tabix", "writeTabixHeader"), c.Func("tabix", "readTabixHeader")
	// writer: the first binary.Write argument
	var first *ssa.Call
	allInstrs(wfn, func(ins ssa.Instruction) {
		if call, ok := ins.(*ssa.Call); ok && calleeFullName(&call.Call) == "encoding/binary.Write" && (first == nil || call.Pos() < first.Pos()) {
			first = call
		}
	})
	var firstR *ssa.Call
	allInstrs(rfn, func(ins ssa.Instruction) {
		if call, ok := ins.(*ssa.Call); ok && calleeFullName(&call.Call) == "encoding/binary.Read" && (firstR == nil || call.Pos() < firstR.Pos()) {
			firstR = call
		}
	})
	if first == nil || firstR == nil {
		unresolved("tabix header: first Write/Read not found")
	}
	r.Instance(rule, 1)
	why := ""
	n := 0
	for _, format := range []int64{0, 1, 2, 3, 255} {
		for _, zb := range []int64{0, 1} {
			n++
			// run the writer up to its first Write and take the value handed over
			env := map[string]int64{"$1.Format": format, "$1.ZeroBased": zb}
			sr := symExecAt(wfn, entryLoc(wfn), func(i ssa.Instruction) bool { return i == ssa.Instruction(first) }, env)
			if sr.Undec != "" {
				why = "the format word depends on " + sr.Undec + " besides Format and ZeroBased"
				break
			}
			arg := first.Call.Args[2]
			if mi, ok := arg.(*ssa.MakeInterface); ok {
				arg = mi.X
			}
			word, ok := symValueAt(wfn, first, arg, env)
			if !ok {
				why = "cannot evaluate the format word " + symKey(arg)
				break
			}
			// run the reader from after its first Read with that word
			renv := map[string]int64{}
			// the variable the reader's first binary.Read fills
			if len(firstR.Call.Args) == 3 {
				dst := firstR.Call.Args[2]
				if mi, ok := dst.(*ssa.MakeInterface); ok {
					dst = mi.X
				}
				if al, ok := dst.(*ssa.Alloc); ok {
					renv[allocKey(al)] = word
				}
			}
			rr := symExecAt(rfn, locOf(firstR), func(i ssa.Instruction) bool {
				call, ok := i.(*ssa.Call)
				return ok && calleeFullName(&call.Call) == "encoding/binary.Read"
			}, renv)
			got := map[string]string{}
			for _, e := range rr.Effects {
				if strings.HasPrefix(e, "store $1.Format = ") {
					got["Format"] = strings.TrimPrefix(e, "store $1.Format = ")
				}
				if strings.HasPrefix(e, "store $1.ZeroBased = ") {
					got["ZeroBased"] = strings.TrimPrefix(e, "store $1.ZeroBased = ")
				}
			}
			gf, okF := symEvalKeyed(rfn, firstR, "Format", renv)
			gz, okZ := symEvalKeyed(rfn, firstR, "ZeroBased", renv)
			if !okF || !okZ {
				why = fmt.Sprintf("cannot evaluate what the reader stores for format word %#x (stores: %v)", word, got)
				break
			}
			if gf != format || gz != zb {
				why += fmt.Sprintf(" Format=%d ZeroBased=%d is written as %#x and read back as Format=%d ZeroBased=%d;", format, zb, word, gf, gz)
			}
		}
	}
	r.Check(why == "", rule, "tabix.writeTabixHeader/readTabixHeader#format-word", c.Pos(wfn.Pos()), fmt.Sprintf("%d (Format, ZeroBased) pairs survive the format word", n), why)
}

// symValueAt: the concrete value of v when fn is run under env up to (not including) stop.
func symValueAt(fn *ssa.Function, stop ssa.Instruction, v ssa.Value, env map[string]int64) (int64, bool) {
	fr := &symFrame{params: map[*ssa.Parameter]string{}, vals: map[ssa.Value]int64{}, stop: func(i ssa.Instruction) bool { return i == stop }}
	symExecF(fn, env, fr, 0)
	x, ok := fr.vals[v]
	if !ok {
		if k, isK := constInt(v); isK {
			return k, true
		}
	}
	return x, ok
}

// symEvalKeyed: run fn from just after `from` to the next binary.Read and
// return the concrete value stored into idx.<field>.
func symEvalKeyed(fn *ssa.Function, from ssa.Instruction, field string, env map[string]int64) (int64, bool) {
	loc := locOf(from)
	if v, ok := from.(ssa.Value); ok {
		// the read itself succeeded
		e2 := map[string]int64{symKey(v): 0}
		for k, x := range env {
			e2[k] = x
		}
		env = e2
	}
	var val ssa.Value
	fr := &symFrame{params: map[*ssa.Parameter]string{}, vals: map[ssa.Value]int64{}, start: &loc, stop: func(i ssa.Instruction) bool {
		if st, ok := i.(*ssa.Store); ok {
			if fa, ok := st.Addr.(*ssa.FieldAddr); ok && fieldVarOfAddr(fa).Name() == field {
				val = st.Val
			}
		}
		call, ok := i.(*ssa.Call)
		return ok && calleeFullName(&call.Call) == "encoding/binary.Read"
	}}
	symExecF(fn, env, fr, 0)
	if val == nil {
		return 0, false
	}
	x, ok := fr.vals[val]
	return x, ok
}

// ---- SORT-FLAG and LIMIT-AGREE (added after a blind second seed round missed both) -------------------------

// ruleSortFlag: WriteIndex/WriteTo sort only when the sorted flag is clear, so
// every assignment in Add to a container that sort() orders – a new bin, the
// linear index – has to clear the flag on every path. (Appending a chunk to an
// existing bin is exempt: chunks arrive in file order.)
func ruleSortFlag(c *Ctx, r *Rep, tier string) {
	rule := "SORT-FLAG"
	for _, f := range []struct {
		pkg, flag string
		conts     []string
	}{{"internal", "IsSorted", []string{"Bins", "Intervals"}}, {"csi", "isSorted", []string{"bins"}}} {
		fn := c.Func(f.pkg, "(*Index).Add")
		isFlagClear := func(ins ssa.Instruction) bool {
			st, ok := ins.(*ssa.Store)
			if !ok {
				return false
			}
			fa, ok := st.Addr.(*ssa.FieldAddr)
			if !ok || fieldVarOfAddr(fa).Name() != f.flag {
				return false
			}
			k, isK := st.Val.(*ssa.Const)
			return isK && k.Value != nil && k.Value.String() == "false"
		}
		n := 0
		allInstrs(fn, func(ins ssa.Instruction) {
			st, ok := ins.(*ssa.Store)
			if !ok {
				return
			}
			fa, ok := st.Addr.(*ssa.FieldAddr)
			if !ok {
				return
			}
			name := fieldVarOfAddr(fa).Name()
			hit := false
			for _, cn := range f.conts {
				if name == cn {
					hit = true
				}
			}
			if !hit {
				return
			}
			n++
			r.Instance(rule, 1)
			key := fmt.Sprintf("%s.(*Index).Add#%s~%d", f.pkg, name, n)
			// the flag is cleared before (dominating) or on every path after
			ok = false
			allInstrs(fn, func(x ssa.Instruction) {
				if isFlagClear(x) && instrDominates(x, st) {
					ok = true
				}
			})
			if !ok {
				if _, leak := pathTo(locOf(st), func(x ssa.Instruction) bool {
					ret, isRet := x.(*ssa.Return)
					return isRet && len(ret.Results) == 1 && isNilConst(ret.Results[0])
				}, isFlagClear, nil); !leak {
					ok = true
				}
			}
			if !ok && (name == "Bins" || name == "bins") {
				// order-aware variant: the flag is cleared exactly when the new bin's
				// number is below one already held (appending a higher number keeps
				// the bins in order) – accepted without checking which bin it is
				// compared with
				allInstrs(fn, func(x ssa.Instruction) {
					if !isFlagClear(x) {
						return
					}
					for _, b := range fn.Blocks {
						iff := ifOf(b)
						if iff == nil {
							continue
						}
						bo, isBo := iff.Cond.(*ssa.BinOp)
						if !isBo || (bo.Op != token.LSS && bo.Op != token.GTR) {
							continue
						}
						kx, ky := symKey(bo.X), symKey(bo.Y)
						heldX, heldY := strings.HasSuffix(strings.ToLower(kx), ".bin"), strings.HasSuffix(strings.ToLower(ky), ".bin")
						if heldX != heldY { // a bin number already held compared with another value (the new bin's number)
							if dominatedByEdge(fn, b, 0, x.Block()) {
								ok = true
							}
						}
					}
				})
			}
			r.Check(ok, rule, key, c.Pos(st.Pos()), "the sorted flag is cleared on every path through this assignment", fmt.Sprintf("Add assigns %s, which sort() orders, on a path that leaves %s set: the next write does not sort, the reader does, and the re-read index writes different bytes (and answers tile queries differently)", name, f.flag))
		})
		if n == 0 {
			r.Instance(rule, 1)
			r.Fail(rule, f.pkg+".(*Index).Add#containers", c.Pos(fn.Pos()), "no assignment of a sorted container found in Add")
		}
		// and sort() sets it, after sorting
		r.Instance(rule, 1)
		sf := c.Func(f.pkg, "(*Index).sort")
		set := false
		allInstrs(sf, func(ins ssa.Instruction) {
			if st, ok := ins.(*ssa.Store); ok {
				if fa, ok := st.Addr.(*ssa.FieldAddr); ok && fieldVarOfAddr(fa).Name() == f.flag {
					if k, isK := st.Val.(*ssa.Const); isK && k.Value != nil && k.Value.String() == "true" {
						set = true
					}
				}
			}
		})
		r.Check(set, rule, f.pkg+".(*Index).sort#sets-flag", c.Pos(sf.Pos()), "sort() sets the flag", "sort() never sets the sorted flag")
	}
}

// typedKey: like symKey, with the type each arithmetic step is computed in.
func typedKey(v ssa.Value, depth int) string {
	if depth > 12 {
		return "…"
	}
	switch x := v.(type) {
	case *ssa.BinOp:
		return "(" + typedKey(x.X, depth+1) + x.Op.String() + typedKey(x.Y, depth+1) + "):" + types.TypeString(x.Type(), func(*types.Package) string { return "" })
	case *ssa.Convert:
		return types.TypeString(x.Type(), func(*types.Package) string { return "" }) + "(" + typedKey(x.X, depth+1) + ")"
	case *ssa.Const:
		if k, ok := constInt(x); ok {
			return fmt.Sprint(k)
		}
	}
	return symKey(v)
}

// ruleLimitAgree: the CSI bin limit (from which the pseudo-bin number and the
// bin-count check derive) is computed by the same expression, in the same
// integer types, by the writer and by the reader – it overflows uint32 for
// depth ≥ 10, and the two sides must overflow alike.
func ruleLimitAgree(c *Ctx, r *Rep, tier string) {
	rule := "LIMIT-AGREE"
	argOf := func(fn *ssa.Function, callee string) ssa.Value {
		var v ssa.Value
		allInstrs(fn, func(ins ssa.Instruction) {
			if call, ok := ins.(*ssa.Call); ok {
				if g := staticCallee(&call.Call); g != nil && g.Name() == callee {
					v = call.Call.Args[len(call.Call.Args)-1]
				}
			}
		})
		return v
	}
	w := argOf(c.Func("csi", "WriteTo"), "writeIndices")
	rd := argOf(c.Func("csi", "ReadFrom"), "readIndices")
	r.Instance(rule, 1)
	why := ""
	if w == nil || rd == nil {
		why = "the bin limit handed to writeIndices/readIndices was not found"
	} else if idxNorm(c, "WriteTo", typedKey(w, 0)) != idxNorm(c, "ReadFrom", typedKey(rd, 0)) {
		why = fmt.Sprintf("the writer computes the bin limit as %s, the reader as %s: where they differ (overflow at depth ≥ 10) the reader does not recognise the writer's pseudo-bin", typedKey(w, 0), typedKey(rd, 0))
	}
	r.Check(why == "", rule, "csi.WriteTo/ReadFrom#bin-limit", c.Pos(c.Func("csi", "WriteTo").Pos()), "same expression and integer types on both sides", why)
	// the pseudo-bin number derived from it
	r.Instance(rule, 1)
	find := func(fn *ssa.Function) string {
		out := ""
		isLimitPlus := func(v ssa.Value) (*ssa.BinOp, bool) {
			bo, ok := v.(*ssa.BinOp)
			return bo, ok && bo.Op == token.ADD && symKey(bo.X) == uint32ParamKey(fn)
		}
		// the reader: the value a bin's number is compared with
		allInstrs(fn, func(ins ssa.Instruction) {
			cmp, ok := ins.(*ssa.BinOp)
			if !ok || cmp.Op != token.EQL {
				return
			}
			for _, pr := range [][2]ssa.Value{{cmp.X, cmp.Y}, {cmp.Y, cmp.X}} {
				if strings.HasSuffix(strings.ToLower(symKey(pr[0])), ".bin") {
					if bo, ok := isLimitPlus(pr[1]); ok {
						out = limitNorm(fn, typedKey(bo, 0))
					}
				}
			}
		})
		if out != "" {
			return out
		}
		// the writer: the only limit+k it forms
		allInstrs(fn, func(ins ssa.Instruction) {
			if v, isVal := ins.(ssa.Value); isVal {
				if bo, ok := isLimitPlus(v); ok {
					out = limitNorm(fn, typedKey(bo, 0))
				}
			}
		})
		return out
	}
	a, b := find(c.Func("csi", "writeStats")), find(c.Func("csi", "readBins"))
	r.Check(a != "" && a == b, rule, "csi.writeStats/readBins#pseudo-bin-number", c.Pos(c.Func("csi", "writeStats").Pos()), "pseudo-bin number = "+a+" on both sides", fmt.Sprintf("the pseudo-bin number is %q for the writer and %q for the reader", a, b))
}

// ---- PATH-SORT-BEFORE-WRITE --------------------------------------------------------------------------------

func ruleSortBeforeWrite(c *Ctx, r *Rep, tier string) {
	rule := "PATH-SORT-BEFORE-WRITE"
	for _, f := range [][3]string{{"internal", "WriteIndex", "(*Index).sort"}, {"csi", "WriteTo", "(*Index).sort"}} {
		fn, sortFn := c.Func(f[0], f[1]), c.Func(f[0], f[2])
		r.Instance(rule, 1)
		var sortCall ssa.Instruction
		var firstOut ssa.Instruction
		allInstrs(fn, func(ins ssa.Instruction) {
			call, ok := ins.(*ssa.Call)
			if !ok {
				return
			}
			if staticCallee(&call.Call) == sortFn {
				sortCall = ins
				return
			}
			isOut := calleeFullName(&call.Call) == "encoding/binary.Write" || call.Call.IsInvoke() && call.Call.Method.Name() == "Write"
			if g := staticCallee(&call.Call); g != nil && c.PkgOf(g) != nil && len(wireFlat(c, g, 0, 0, nil)) > 0 {
				isOut = true
			}
			if isOut && (firstOut == nil || ins.Pos() < firstOut.Pos()) {
				firstOut = ins
			}
		})
		ok := sortCall != nil && firstOut != nil && instrDominates(sortCall, firstOut)
		r.Check(ok, rule, f[0]+"."+f[1]+"#sort-first", c.Pos(fn.Pos()), "idx.sort() dominates the first byte written", "the index is written without being put in canonical order first: bins appear in insertion order and the bytes differ from those of the re-read index")
		// sort() orders bins, chunks (and intervals)
		r.Instance(rule, 1)
		var kinds []string
		allInstrs(sortFn, func(ins ssa.Instruction) {
			if call, ok := ins.(*ssa.Call); ok && calleeFullName(&call.Call) == "sort.Sort" {
				arg := call.Call.Args[0]
				if mi, ok := arg.(*ssa.MakeInterface); ok {
					kinds = append(kinds, types.TypeString(mi.X.Type(), func(*types.Package) string { return "" }))
				}
			}
		})
		sort.Strings(kinds)
		has := func(s string) bool {
			for _, k := range kinds {
				if k == s {
					return true
				}
			}
			return false
		}
		r.Check(has("byBinNumber") && has("byBeginOffset"), rule, f[0]+"."+f[2]+"#orders", c.Pos(sortFn.Pos()), fmt.Sprintf("sorts %v", kinds), fmt.Sprintf("sort() orders only %v: bins and their chunks must both be ordered", kinds))
	}
	// the readers leave bins and chunks in the same canonical order
	for _, f := range [][2]string{{"internal", "readBins"}, {"internal", "readChunks"}, {"csi", "readBins"}, {"csi", "readChunks"}} {
		fn := c.Func(f[0], f[1])
		r.Instance(rule, 1)
		want := "byBinNumber"
		if f[1] == "readChunks" {
			want = "byBeginOffset"
		}
		found := false
		allInstrs(fn, func(ins ssa.Instruction) {
			if call, ok := ins.(*ssa.Call); ok && calleeFullName(&call.Call) == "sort.Sort" {
				if mi, ok := call.Call.Args[0].(*ssa.MakeInterface); ok && strings.HasSuffix(mi.X.Type().String(), "."+want) {
					// on every path to the successful return
					found = true
				}
			}
		})
		r.Check(found, rule, f[0]+"."+f[1]+"#canonical", c.Pos(fn.Pos()), "sorted "+want+" after reading", "the reader does not establish the canonical order the writer relies on (isSorted is set after reading)")
	}
}

// ---- STATS-ADD ---------------------------------------------------------------------------------------------------

func ruleStatsAdd(c *Ctx, r *Rep, tier string) {
	rule := "STATS-ADD"
	for _, f := range [][2]string{{"internal", "(*Index).Add"}, {"csi", "(*Index).Add"}} {
		fn := c.Func(f[0], f[1])
		r.Instance(rule, 1)
		// increments: *p = *p + 1 on a counter
		kindOf := func(ins ssa.Instruction) string {
			st, ok := ins.(*ssa.Store)
			if !ok {
				return ""
			}
			bo, ok := st.Val.(*ssa.BinOp)
			if !ok || bo.Op != token.ADD {
				return ""
			}
			if k, ok := constInt(bo.Y); !ok || k != 1 {
				return ""
			}
			ld, ok := bo.X.(*ssa.UnOp)
			if !ok || ld.Op != token.MUL {
				return ""
			}
			ka, kl := symAddrKey(st.Addr, nil, 0), symAddrKey(ld.X, nil, 0)
			if ka != kl {
				return ""
			}
			switch {
			case strings.HasSuffix(ka, ".Mapped"):
				return "mapped"
			case strings.HasSuffix(ka, ".Unmapped") && strings.Contains(strings.ToLower(ka), "stats"):
				return "unmapped"
			case strings.HasSuffix(strings.ToLower(ka), "unmapped"):
				return "unplaced"
			}
			return ""
		}
		w := NewWalker(c)
		w.MaxVisits = 1
		w.Effect = func(ins ssa.Instruction) (string, bool) {
			if k := kindOf(ins); k != "" {
				return k, true
			}
			return "", false
		}
		why := ""
		nOK := 0
		for _, pe := range w.Walk(fn, entryLoc(fn)) {
			ret, ok := pe.At.(*ssa.Return)
			if !ok || len(pe.Ret) != 1 || !isNilConst(pe.Ret[0]) {
				continue
			}
			nOK++
			m, u, p := pe.Counts["mapped"], pe.Counts["unmapped"], pe.Counts["unplaced"]
			if m+u+p != 1 {
				why = fmt.Sprintf("a successful Add counts the record %d times (mapped %d, unmapped %d, unplaced %d) on path %s to %s", m+u+p, m, u, p, traceStr(pe.Trace), c.Pos(ret.Pos()))
				break
			}
		}
		if nOK == 0 || w.overflow {
			why = "no successful path enumerated"
		}
		// which counter: by the two boolean arguments – one of them (placed)
		// selects the unplaced counter on its false edge, the other (mapped)
		// selects mapped on its true and unmapped on its false edge. The
		// parameters are told apart by that behaviour, not by their names.
		if why == "" {
			guards := map[string]map[string]bool{} // counter kind → "param/edge" guards that dominate every increment
			allInstrs(fn, func(ins ssa.Instruction) {
				k := kindOf(ins)
				if k == "" {
					return
				}
				here := map[string]bool{}
				for _, b := range fn.Blocks {
					iff := ifOf(b)
					if iff == nil || b.Succs[0] == b.Succs[1] {
						continue
					}
					if p, isP := iff.Cond.(*ssa.Parameter); isP {
						for e := 0; e < 2; e++ {
							if dominatedByEdge(fn, b, e, ins.Block()) {
								here[fmt.Sprintf("%s/%d", paramKey(p), e)] = true
							}
						}
					}
				}
				if prev, seen := guards[k]; seen {
					for g := range prev {
						if !here[g] {
							delete(prev, g)
						}
					}
				} else {
					guards[k] = here
				}
			})
			var bools []string
			for _, p := range fn.Params {
				if b, ok := p.Type().Underlying().(*types.Basic); ok && b.Kind() == types.Bool {
					bools = append(bools, paramKey(p))
				}
			}
			found := false
			for _, x := range bools {
				for _, y := range bools {
					if x != y && guards["unplaced"][x+"/1"] && guards["mapped"][y+"/0"] && guards["unmapped"][y+"/1"] {
						found = true
					}
				}
			}
			if !found {
				why += fmt.Sprintf(" the counters are not selected by the two boolean arguments (unplaced on the false edge of one, mapped/unmapped on the two edges of the other); dominating guards found: %v;", guards)
			}
		}
		r.Check(why == "", rule, f[0]+"."+f[1]+"#one-count", c.Pos(fn.Pos()), fmt.Sprintf("%d successful paths: exactly one of mapped/unmapped/unplaced is incremented, selected by the placed and mapped arguments", nOK), why)
	}
	// tabix: names in step with references
	r.Instance(rule, 1)
	{
		fn := c.Func("tabix", "(*Index).Add")
		effs := effectsOf(fn)
		ap := hasEff(effs, "store", "$0.refNames", "append($0.refNames,[$1.RefName()])")
		why := ""
		if ap == nil {
			why = "no append to refNames found"
		} else {
			// guarded by "this record created the reference": rid < len(i.idx.Refs) evaluated after idx.Add
			ok := false
			for _, b := range fn.Blocks {
				iff := ifOf(b)
				if iff == nil {
					continue
				}
				bo, isBo := iff.Cond.(*ssa.BinOp)
				if !isBo || bo.Op != token.LSS || symKey(bo.Y) != "len($0.idx.Refs)" {
					continue
				}
				var addCall ssa.Instruction
				allInstrs(fn, func(ins ssa.Instruction) {
					if call, isC := ins.(*ssa.Call); isC {
						if g := staticCallee(&call.Call); g != nil && g.Name() == "Add" {
							addCall = ins
						}
					}
				})
				if addCall != nil && instrDominates(addCall, bo) && dominatedByEdge(fn, b, 0, ap.Ins.Block()) {
					ok = true
				}
			}
			if !ok {
				why = "the name is appended whether or not the record created a reference in the underlying index (unplaced or refused records): WriteTo then writes more names than references and ReadFrom rejects the file"
			}
		}
		r.Check(why == "", rule, "tabix.(*Index).Add#names-follow-refs", c.Pos(fn.Pos()), "a name is registered only when idx.Add has created its reference", why)
	}
	// WriteTo's n_ref and the names written come from lists of equal length (checked at read time): the reader compares them
	r.Instance(rule, 1)
	{
		fn := c.Func("tabix", "ReadFrom")
		found := false
		allInstrs(fn, func(ins ssa.Instruction) {
			if bo, ok := ins.(*ssa.BinOp); ok && bo.Op == token.NEQ && strings.Contains(symKey(bo.X), "len(") && strings.Contains(symKey(bo.X), "refNames") {
				found = true
			}
		})
		r.Check(found, rule, "tabix.ReadFrom#name-count", c.Pos(fn.Pos()), "n_ref is compared with the number of names", "ReadFrom does not compare n_ref with the number of names")
	}
}

func init() {
	bai := [][4]string{
		{"internal", "WriteIndex", "internal", "ReadIndex"},
	}
	csi := [][4]string{
		{"csi", "WriteTo", "csi", "ReadFrom"},
	}
	tbx := [][4]string{
		{"tabix", "WriteTo", "tabix", "ReadFrom"},
	}
	register(&PropDef{
		ID: "C15", Title: "Index serialisation round trip keeps answers and statistics (BAI, CSI, tabix)", Level: "other",
		Rules: []RuleDef{
			{Name: "DEPTH-GUARD", What: "csi.(*Index).Add refuses an index deeper than the bin numbering holds: a depth-10 index was written with a statistics bin number that is a real bin's and could not be read back (shared with C04)", Floor: 1, Run: ruleDepthGuard},
			{Name: "LINEAR-KEEP", What: "Add only extends the linear index and sort only permutes it: what is written is what was recorded (shared with C04)", Floor: 2, Run: ruleLinearKeep},
			{Name: "CHUNKS-FRESH", What: "answering a query does not write the index: the list a Chunks method sorts and merges in place is built in that call, never an alias of a bin's chunks – or the index written after a query differs from the one written before (shared with C04, C17; here since fifteenth-round seed C15-q)", Floor: 2, Run: ruleChunksFresh},
			{Name: "WIRE-BAI", What: "internal.WriteIndex and ReadIndex (shared by BAI and tabix): same item widths, loop nesting and field roles, helpers inlined, statistics record aside", Floor: 1, Run: ruleWireIndex("WIRE-BAI", bai)},
			{Name: "WIRE-CSI", What: "csi.WriteTo and ReadFrom: same items including the version 2 record count", Floor: 1, Run: ruleWireIndex("WIRE-CSI", csi)},
			{Name: "WIRE-TABIX", What: "tabix.WriteTo and ReadFrom: header items and the shared index body", Floor: 1, Run: ruleWireIndex("WIRE-TABIX", tbx)},
			{Name: "COUNT-ONE", What: "statistics pseudo-bin: record body equal on both sides, header width per version equals the reader's bin header, bin number and chunk count agree, n_bin counts it exactly once", Floor: 7, Run: ruleStatsBin},
			{Name: "ELEM-COVER", What: "linear index: every indexed access inside nested loops uses the sum of the loop counters", Floor: 2, Run: ruleElemCover},
			{Name: "FLAG-TABIX", What: "tabix format word: (Format, ZeroBased) → word → (Format, ZeroBased) is the identity for all presets", Floor: 1, Run: ruleFlagTabix},
			{Name: "PATH-SORT-BEFORE-WRITE", What: "writers sort before the first byte; sort() orders bins and chunks; readers re-establish the same order", Floor: 8, Run: ruleSortBeforeWrite},
			{Name: "SORT-FLAG", What: "Add clears the sorted flag on every path that assigns a container sort() orders (new bin, linear index); sort() sets it (added after a blind second seed round – which also exposed the same defect in the unchanged tree)", Floor: 5, Run: ruleSortFlag},
			{Name: "LIMIT-AGREE", What: "CSI bin limit and pseudo-bin number: same expression in the same integer types in writer and reader", Floor: 2, Run: ruleLimitAgree},
			{Name: "COUNT-LIMIT", What: "a reader that bounds a reference's bin count leaves room for the statistics pseudo-bin the writer counts in (added after fifth-round seed C15-e; the CSI reader did not – repaired)", Floor: 2, Run: ruleCountLimit},
			{Name: "SORT-ALL", What: "(*Index).sort orders bins, each bin's chunks and the linear index of every reference on every way round its loop (added after fifth-round seed C15-f)", Floor: 5, Run: ruleSortAll},
			{Name: "STATS-ADD", What: "Add increments exactly one of mapped/unmapped/unplaced per accepted record, selected by its arguments; tabix names follow references", Floor: 4, Run: ruleStatsAdd},
			{Name: "NAMES-SPLIT", What: "tabix.readTabixHeader takes the name list apart with an operation that keeps empty names (strings.Split on the terminator), none that drops empty fields or trims more than one terminator: the writer writes one terminator per name (added after seventh-round seed C15-h)", Floor: 1, Run: ruleNamesSplit},
			{Name: "INTERVAL-LIMIT", What: "a bound on the linear index's length in readIntervals admits all 2^29/16384 tiles the writer can produce (added after ninth-round seed C04-i)", Floor: 1, Run: ruleIntervalLimit},
			{Name: "SORTED-SETTER", What: "an index's sorted flag is set to true only in a function that sorts the bins by number, itself or through its callees: sort() and the readers (added after ninth-round seed C04-j)", Floor: 4, Run: ruleSortedSetter},
			{Name: "BIT-VOFFSET", What: "vOffset/makeOffset are inverse (bit domain)", Floor: 6, Run: ruleVOffset},
		},
		Explanation: "A symmetric mistake survives a round trip and an asymmetric one breaks it; both are visible when the writer's and the reader's item sequences are laid side by side. The WIRE rules flatten each writer and reader (helpers inlined in call order) into items (width, loop depth, version condition, field role) and compare them position by position; COUNT-ONE covers the one place where the two sides are shaped differently (the statistics pseudo-bin: written after the bins from an array literal, read inside the bin loop); ELEM-COVER, FLAG-TABIX, STATS-ADD and PATH-SORT-BEFORE-WRITE cover element indexing, the packed format word, the counters and the canonical order that 'identical bytes' relies on.",
		NotDecided:  "that Chunks answers are equal before and after (follows from equal contents given C04's rules, not shown separately), name bytes of tabix (NUL-separated list) beyond its length item, the CSI bin-limit arithmetic.",
	})
}

// idxNorm: the key of the index object (the *Index parameter of the writer, the
// local Index of the reader) replaced by one placeholder, so that the two sides'
// expressions can be compared.
func idxNorm(c *Ctx, fnName, key string) string {
	fn := c.Func("csi", fnName)
	for _, p := range fn.Params {
		if pt, ok := p.Type().(*types.Pointer); ok {
			if n, ok := pt.Elem().(*types.Named); ok && n.Obj().Name() == "Index" {
				key = strings.ReplaceAll(key, paramKey(p), "INDEX")
			}
		}
	}
	return strings.ReplaceAll(key, "local:Index", "INDEX")
}

// uint32ParamKey: the key of fn's only uint32 parameter (the CSI bin limit).
func uint32ParamKey(fn *ssa.Function) string {
	k := "?"
	for _, p := range fn.Params {
		if b, ok := p.Type().Underlying().(*types.Basic); ok && b.Kind() == types.Uint32 {
			k = paramKey(p)
		}
	}
	return k
}

// isVersionValue: the format version – the field Version of an index, or a
// byte-typed parameter it was handed down in (no other byte parameter exists in
// the index packages; the name of the parameter does not matter).
func isVersionValue(v ssa.Value) bool {
	v = stripConv(v)
	if f, _ := loadedField(v); f != nil {
		return f.Name() == "Version"
	}
	if fl, ok := v.(*ssa.Field); ok {
		return fieldVarOfField(fl).Name() == "Version"
	}
	if p, ok := v.(*ssa.Parameter); ok {
		b, ok := p.Type().Underlying().(*types.Basic)
		return ok && b.Kind() == types.Uint8
	}
	return false
}

// limitNorm: the key of fn's bin-limit parameter replaced by a placeholder (the
// writer and the reader have it at different positions).
func limitNorm(fn *ssa.Function, key string) string {
	if k := uint32ParamKey(fn); k != "?" {
		return strings.ReplaceAll(key, k, "LIMIT")
	}
	return key
}

// isOffsetSlice: []bgzf.Offset (the linear index).
func isOffsetSlice(t types.Type) bool {
	sl, ok := t.Underlying().(*types.Slice)
	if !ok {
		return false
	}
	n, ok := sl.Elem().(*types.Named)
	return ok && n.Obj().Name() == "Offset"
}
