package main

import (
	"golang.org/x/tools/go/ssa"
)

// ruleEndMax (PATH-ENDMAX): Record.End returns the maximum over all prefixes of
// the CIGAR walk (the B extension can move the position backwards): the value
// returned after the loop is a loop-carried running maximum that is updated on
// every iteration from the running position.
func ruleEndMax(c *Ctx, r *Rep, tier string) {
	rule := "PATH-ENDMAX"
	fn := c.Func("sam", "(*Record).End")
	r.Instance(rule, 1)
	why := ""
	// loop-carried phis
	isLoopPhi := func(p *ssa.Phi) bool {
		for _, e := range p.Edges {
			if e != ssa.Value(p) && dependsOnDeep(e, p, 0, map[ssa.Value]bool{}) {
				return true
			}
		}
		return false
	}
	found := false
	allInstrs(fn, func(ins ssa.Instruction) {
		ret, ok := ins.(*ssa.Return)
		if !ok {
			return
		}
		v := retValue(ret, 0)
		phi, isPhi := v.(*ssa.Phi)
		if !isPhi || !isLoopPhi(phi) {
			return
		}
		// the back-edge value: max(phi, pos') or a select between them
		for _, e := range phi.Edges {
			if e == ssa.Value(phi) {
				continue
			}
			switch x := e.(type) {
			case *ssa.Call:
				if g := staticCallee(&x.Call); g != nil && len(x.Call.Args) == 2 {
					a0, a1 := x.Call.Args[0], x.Call.Args[1]
					if (a0 == ssa.Value(phi) && a1 != ssa.Value(phi)) || (a1 == ssa.Value(phi) && a0 != ssa.Value(phi)) {
						// the callee returns one of its two parameters under a comparison
						isMax := false
						allInstrs(g, func(y ssa.Instruction) {
							if rr, ok := y.(*ssa.Return); ok {
								if paramIndex(g, rr.Results[0]) >= 0 {
									isMax = true
								}
							}
						})
						if isMax {
							found = true
						}
					}
				}
			case *ssa.Phi:
				// if pos > end { end = pos }
				for _, e2 := range x.Edges {
					if e2 == ssa.Value(phi) {
						found = true
					}
				}
			}
		}
	})
	if !found {
		why = "the alignment end is not a running maximum updated on every CIGAR operation: with the B (back) extension the walk can end left of the right-most coordinate it reached, and End, Len and the index bin come out too small"
	}
	r.Check(why == "", rule, "sam.(*Record).End#running-max", c.Pos(fn.Pos()), "end = max(end, pos) carried through the CIGAR loop and returned", why)
}
