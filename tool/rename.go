// Rename invariance: a self-test of the rules (thorough tier).
//
// renameLocals writes a copy of the module in which every function-level
// variable – locals, parameters, receivers, named results – has a new name. The
// copy behaves exactly like the original, so every rule must give the same
// verdict on it; a rule that does not is reading variable names, and renaming a
// receiver would make it raise an alarm on correct code. (A first run of this
// test found 54 such obligations in nine properties; keys are now built from
// parameter positions, types and roles.)
package main

import (
	"fmt"
	"go/ast"
	"go/format"
	"go/types"
	"os"
	"path/filepath"

	"golang.org/x/tools/go/packages"
)

func renameLocals(src, dst, suffix string) (int, error) {
	cfg := &packages.Config{Mode: packages.LoadSyntax, Dir: src, Tests: false, Env: goEnv()}
	pkgs, err := packages.Load(cfg, "./...")
	if err != nil {
		return 0, err
	}
	n := 0
	for _, p := range pkgs {
		if len(p.Errors) > 0 {
			return 0, fmt.Errorf("%v", p.Errors)
		}
		local := func(obj types.Object) bool {
			v, ok := obj.(*types.Var)
			if !ok || v.IsField() || v.Pkg() == nil || v.Name() == "_" || v.Name() == "" {
				return false
			}
			return v.Parent() != v.Pkg().Scope() && v.Parent() != types.Universe
		}
		for i, f := range p.Syntax {
			ast.Inspect(f, func(nd ast.Node) bool {
				if ts, ok := nd.(*ast.TypeSwitchStmt); ok {
					// `switch x := v.(type)`: x has no object of its own (one
					// implicit object per clause); its uses are renamed below
					if as, ok := ts.Assign.(*ast.AssignStmt); ok && len(as.Lhs) == 1 {
						if id, ok := as.Lhs[0].(*ast.Ident); ok && id.Name != "_" && p.TypesInfo.Defs[id] == nil {
							id.Name += suffix
							n++
						}
					}
					return true
				}
				id, ok := nd.(*ast.Ident)
				if !ok {
					return true
				}
				obj := p.TypesInfo.Defs[id]
				if obj == nil {
					obj = p.TypesInfo.Uses[id]
				}
				if obj != nil && local(obj) {
					id.Name += suffix
					n++
				}
				return true
			})
			rel, err := filepath.Rel(src, p.CompiledGoFiles[i])
			if err != nil {
				return n, err
			}
			out := filepath.Join(dst, rel)
			if err := os.MkdirAll(filepath.Dir(out), 0o755); err != nil {
				return n, err
			}
			w, err := os.Create(out)
			if err != nil {
				return n, err
			}
			if err := format.Node(w, p.Fset, f); err != nil {
				w.Close()
				return n, err
			}
			w.Close()
		}
	}
	return n, nil
}

// cmdRenameLocals: htsverif rename-locals <module dir> <output dir>
// (the output dir must already hold a copy of the module: go.mod, go.sum).
func cmdRenameLocals(args []string) int {
	if len(args) != 2 {
		usage()
	}
	n, err := renameLocals(args[0], args[1], "Q")
	if err != nil {
		fmt.Fprintln(os.Stderr, err)
		return 2
	}
	fmt.Printf("renamed %d identifiers\n", n)
	return 0
}
