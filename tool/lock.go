// Engine E1: lock discipline. Mutexes are struct fields of type sync.Mutex /
// sync.RWMutex; a lock is identified by (origin of the base pointer, field).
package main

import (
	"fmt"
	"go/types"
	"sort"
	"strings"

	"golang.org/x/tools/go/ssa"
)

type lockKey struct {
	base  ssa.Value
	field *types.Var
}

const (
	modeNone = 0
	modeR    = 1
	modeW    = 2
)

type lockState map[lockKey]int

func (s lockState) clone() lockState {
	n := lockState{}
	for k, v := range s {
		n[k] = v
	}
	return n
}

type lockOp struct {
	acquire bool
	mode    int
}

func mutexOp(cc *ssa.CallCommon) (lockOp, bool) {
	switch calleeFullName(cc) {
	case "(*sync.Mutex).Lock", "(*sync.RWMutex).Lock":
		return lockOp{true, modeW}, true
	case "(*sync.RWMutex).RLock":
		return lockOp{true, modeR}, true
	case "(*sync.Mutex).Unlock", "(*sync.RWMutex).Unlock":
		return lockOp{false, modeW}, true
	case "(*sync.RWMutex).RUnlock":
		return lockOp{false, modeR}, true
	}
	return lockOp{}, false
}

// mutexOfCall: the lock a mutex method call operates on.
func mutexOfCall(cc *ssa.CallCommon) (lockKey, bool) {
	if len(cc.Args) == 0 {
		return lockKey{}, false
	}
	f, base := addrField(cc.Args[0])
	if f == nil {
		return lockKey{}, false
	}
	return lockKey{canonBase(base), f}, true
}

// lockFlow computes, for every instruction of fn, the lock state *before* it.
// must=true: a lock counts only if held on all paths (join = min); must=false:
// held on some path (join = max). entry is the state at function entry.
func lockFlow(fn *ssa.Function, must bool, entry lockState) map[ssa.Instruction]lockState {
	in := map[*ssa.BasicBlock]lockState{}
	out := map[*ssa.BasicBlock]lockState{}
	before := map[ssa.Instruction]lockState{}
	if len(fn.Blocks) == 0 {
		return before
	}
	join := func(states []lockState) lockState {
		if len(states) == 0 {
			return lockState{}
		}
		r := states[0].clone()
		for _, s := range states[1:] {
			if must {
				for k, v := range r {
					if s[k] < v {
						r[k] = s[k]
					}
				}
			} else {
				for k, v := range s {
					if v > r[k] {
						r[k] = v
					}
				}
			}
		}
		for k, v := range r {
			if v == modeNone {
				delete(r, k)
			}
		}
		return r
	}
	eq := func(a, b lockState) bool {
		if len(a) != len(b) {
			return false
		}
		for k, v := range a {
			if b[k] != v {
				return false
			}
		}
		return true
	}
	changed := true
	for iter := 0; changed && iter < 50; iter++ {
		changed = false
		for _, b := range fn.Blocks {
			var st lockState
			if b == fn.Blocks[0] {
				st = entry.clone()
			} else {
				var ps []lockState
				for _, p := range b.Preds {
					if o, ok := out[p]; ok {
						ps = append(ps, o)
					}
				}
				if len(ps) == 0 {
					continue // no predecessor computed yet (⊤); unreachable blocks stay uncomputed
				}
				st = join(ps)
			}
			in[b] = st
			cur := st.clone()
			for _, ins := range b.Instrs {
				before[ins] = cur.clone()
				if call, ok := ins.(*ssa.Call); ok {
					if op, ok := mutexOp(&call.Call); ok {
						if k, ok := mutexOfCall(&call.Call); ok {
							if op.acquire {
								cur[k] = op.mode
							} else {
								delete(cur, k)
							}
						}
					}
				}
			}
			if o, ok := out[b]; !ok || !eq(o, cur) {
				out[b] = cur
				changed = true
			}
		}
	}
	return before
}

// lockCfg describes the types under a rule.
type lockCfg struct {
	pkgs []string // packages whose functions are analysed
	// guarded: mutex field → guarded fields
	guarded map[*types.Var][]*types.Var
	// exempt: "function#field" → reason (structural part checked by exemptCheck)
	exempt map[string]string
}

type lockAnalysis struct {
	c    *Ctx
	fns  []*ssa.Function
	must map[*ssa.Function]map[ssa.Instruction]lockState
	may  map[*ssa.Function]map[ssa.Instruction]lockState
	// entry assumptions: locks held by every caller, keyed by parameter index
	entry map[*ssa.Function]map[int]map[*types.Var]int
	// acq: mutex fields a function may acquire on parameter i (transitively, same object)
	acq map[*ssa.Function]map[int]map[*types.Var]bool
	// acqAny: all mutex fields a function may acquire, any object (transitive, dynamic calls resolved by type)
	acqAny map[*ssa.Function]map[*types.Var]bool
}

func paramIndex(fn *ssa.Function, v ssa.Value) int {
	v = origin(v)
	for i, p := range fn.Params {
		if p == v {
			return i
		}
	}
	return -1
}

// resolveCallees: static callee, or for interface calls every method of a
// module type implementing the interface (CHA restricted to the module).
func (c *Ctx) resolveCallees(cc *ssa.CallCommon) []*ssa.Function {
	if f := staticCallee(cc); f != nil {
		return []*ssa.Function{f}
	}
	if !cc.IsInvoke() {
		return nil
	}
	iface, ok := cc.Value.Type().Underlying().(*types.Interface)
	if !ok {
		return nil
	}
	var out []*ssa.Function
	for _, p := range c.Pkgs {
		sc := p.Types.Scope()
		for _, n := range sc.Names() {
			tn, ok := sc.Lookup(n).(*types.TypeName)
			if !ok || tn.IsAlias() {
				continue
			}
			if _, isIface := tn.Type().Underlying().(*types.Interface); isIface {
				continue
			}
			for _, t := range []types.Type{tn.Type(), types.NewPointer(tn.Type())} {
				if types.Implements(t, iface) {
					sel := c.Prog.MethodSets.MethodSet(t).Lookup(cc.Method.Pkg(), cc.Method.Name())
					if sel != nil {
						if f := c.Prog.MethodValue(sel); f != nil {
							if f.Synthetic != "" {
								if d := c.byDecl[sel.Obj().(*types.Func)]; d != nil {
									f = d
								}
							}
							out = append(out, f)
						}
					}
					break
				}
			}
		}
	}
	return out
}

func newLockAnalysis(c *Ctx, pkgs []string) *lockAnalysis {
	la := &lockAnalysis{c: c, must: map[*ssa.Function]map[ssa.Instruction]lockState{}, may: map[*ssa.Function]map[ssa.Instruction]lockState{},
		entry: map[*ssa.Function]map[int]map[*types.Var]int{}, acq: map[*ssa.Function]map[int]map[*types.Var]bool{}, acqAny: map[*ssa.Function]map[*types.Var]bool{}}
	for _, p := range pkgs {
		la.fns = append(la.fns, c.FuncsIn(p)...)
	}
	inSet := map[*ssa.Function]bool{}
	for _, f := range la.fns {
		inSet[f] = true
	}
	// direct acquisitions and transitive closure (acq on own params, acqAny)
	for _, f := range la.fns {
		la.acq[f] = map[int]map[*types.Var]bool{}
		la.acqAny[f] = map[*types.Var]bool{}
	}
	for changed := true; changed; {
		changed = false
		for _, f := range la.fns {
			allInstrs(f, func(ins ssa.Instruction) {
				cc := callCommon(ins)
				if cc == nil {
					return
				}
				if _, isGo := ins.(*ssa.Go); isGo {
					return // a new goroutine does not acquire in the caller's context
				}
				if op, ok := mutexOp(cc); ok {
					if !op.acquire {
						return
					}
					if k, ok := mutexOfCall(cc); ok {
						if !la.acqAny[f][k.field] {
							la.acqAny[f][k.field] = true
							changed = true
						}
						if i := paramIndex(f, k.base); i >= 0 {
							if la.acq[f][i] == nil {
								la.acq[f][i] = map[*types.Var]bool{}
							}
							if !la.acq[f][i][k.field] {
								la.acq[f][i][k.field] = true
								changed = true
							}
						}
					}
					return
				}
				for _, g := range c.resolveCallees(cc) {
					if !inSet[g] {
						continue
					}
					for m := range la.acqAny[g] {
						if !la.acqAny[f][m] {
							la.acqAny[f][m] = true
							changed = true
						}
					}
					if cc.IsInvoke() {
						continue
					}
					for gi, ms := range la.acq[g] {
						if gi >= len(cc.Args) {
							continue
						}
						if i := paramIndex(f, cc.Args[gi]); i >= 0 {
							if la.acq[f][i] == nil {
								la.acq[f][i] = map[*types.Var]bool{}
							}
							for m := range ms {
								if !la.acq[f][i][m] {
									la.acq[f][i][m] = true
									changed = true
								}
							}
						}
					}
				}
			})
		}
	}
	// flows with entry assumptions; iterate to a fixpoint on entry assumptions
	callers := map[*ssa.Function][]ssa.Instruction{}
	addrTaken := map[*ssa.Function]bool{}
	for _, f := range la.fns {
		allInstrs(f, func(ins ssa.Instruction) {
			if cc := callCommon(ins); cc != nil {
				if g := staticCallee(cc); g != nil && inSet[g] && !cc.IsInvoke() {
					callers[g] = append(callers[g], ins)
				}
			}
			// function values used other than as callee
			for _, op := range ins.Operands(nil) {
				if g, ok := (*op).(*ssa.Function); ok {
					if cc := callCommon(ins); cc == nil || cc.Value != g {
						addrTaken[g] = true
					}
				}
			}
		})
	}
	isHelper := func(f *ssa.Function) bool {
		if f.Parent() != nil || addrTaken[f] || len(callers[f]) == 0 {
			return false
		}
		o := f.Object()
		return o != nil && !o.Exported()
	}
	for iter := 0; iter < 6; iter++ {
		for _, f := range la.fns {
			entry := lockState{}
			for i, ms := range la.entry[f] {
				for m, mode := range ms {
					entry[lockKey{f.Params[i], m}] = mode
				}
			}
			la.must[f] = lockFlow(f, true, entry)
			la.may[f] = lockFlow(f, false, entry)
		}
		changed := false
		for _, g := range la.fns {
			if !isHelper(g) {
				continue
			}
			ne := map[int]map[*types.Var]int{}
			for ci, site := range callers[g] {
				cc := callCommon(site)
				_, isGo := site.(*ssa.Go)
				_, isDefer := site.(*ssa.Defer)
				caller := site.Parent()
				st := la.must[caller][site]
				for i := range g.Params {
					if i >= len(cc.Args) {
						continue
					}
					base := canonBase(cc.Args[i])
					held := map[*types.Var]int{}
					if !isGo && !isDefer {
						for k, mode := range st {
							if k.base == base {
								held[k.field] = mode
							}
						}
					}
					if ci == 0 {
						ne[i] = held
					} else {
						for m, mode := range ne[i] {
							if held[m] < mode {
								ne[i][m] = held[m]
							}
							if ne[i][m] == modeNone {
								delete(ne[i], m)
							}
						}
					}
				}
			}
			if fmt.Sprint(flattenEntry(ne)) != fmt.Sprint(flattenEntry(la.entry[g])) {
				la.entry[g] = ne
				changed = true
			}
		}
		if !changed {
			break
		}
	}
	return la
}

func flattenEntry(e map[int]map[*types.Var]int) []string {
	var out []string
	for i, ms := range e {
		for m, mode := range ms {
			out = append(out, fmt.Sprintf("%d.%s=%d", i, m.Name(), mode))
		}
	}
	sort.Strings(out)
	return out
}

func fieldQual(f *types.Var, owner string) string { return owner + "." + f.Name() }

// ownerOfField finds the struct type (by name) declaring the field.
func (c *Ctx) ownerOfField(f *types.Var) string {
	for _, p := range c.Pkgs {
		sc := p.Types.Scope()
		for _, n := range sc.Names() {
			if tn, ok := sc.Lookup(n).(*types.TypeName); ok {
				if st, ok := tn.Type().Underlying().(*types.Struct); ok {
					for i := 0; i < st.NumFields(); i++ {
						if st.Field(i) == f {
							return p.Types.Name() + "." + n
						}
					}
				}
			}
		}
	}
	return "?"
}

// ---- LOCK-1 ---------------------------------------------------------------------

func (la *lockAnalysis) ruleNoReacquire(r *Rep, rule string) {
	c := la.c
	for _, f := range la.fns {
		may := la.may[f]
		allInstrs(f, func(ins ssa.Instruction) {
			cc := callCommon(ins)
			if cc == nil {
				return
			}
			if _, isGo := ins.(*ssa.Go); isGo {
				return
			}
			st := may[ins]
			if _, isDefer := ins.(*ssa.Defer); isDefer {
				return
			}
			if op, ok := mutexOp(cc); ok {
				if op.acquire {
					if k, ok := mutexOfCall(cc); ok {
						r.Instance(rule, 1)
						key := fmt.Sprintf("%s#%s-while-held", c.FnName(f), k.field.Name())
						if st[k] != modeNone {
							r.Fail(rule, key, c.Pos(ins.Pos()), fmt.Sprintf("%s.%s is acquired while it may already be held by the same goroutine (sync mutexes are not re-entrant)", c.ownerOfField(k.field), k.field.Name()))
						} else {
							r.Pass(rule, key, c.Pos(ins.Pos()), "not held at the acquisition")
						}
					}
				}
				return
			}
			g := staticCallee(cc)
			if g == nil || cc.IsInvoke() {
				return
			}
			la.reacquireThroughPath(r, rule, f, ins, cc, st)
			for gi, ms := range la.acq[g] {
				if gi >= len(cc.Args) {
					continue
				}
				base := canonBase(cc.Args[gi])
				for m := range ms {
					r.Instance(rule, 1)
					key := fmt.Sprintf("%s#call:%s", c.FnName(f), c.FnName(g))
					if st[lockKey{base, m}] != modeNone {
						r.Fail(rule, key, c.Pos(ins.Pos()), fmt.Sprintf("%s is called with %s.%s held on the same object and acquires it again: the call never returns", c.FnName(g), c.ownerOfField(m), m.Name()))
					} else {
						r.Pass(rule, key, c.Pos(ins.Pos()), "callee locks "+m.Name()+"; not held at the call")
					}
				}
			}
		})
	}
}

// ---- LOCK-3 -----------------------------------------------------------------------

func (la *lockAnalysis) ruleReleaseOnExit(r *Rep, rule string) {
	c := la.c
	for _, f := range la.fns {
		allInstrs(f, func(ins ssa.Instruction) {
			call, ok := ins.(*ssa.Call)
			if !ok {
				return
			}
			op, ok := mutexOp(&call.Call)
			if !ok || !op.acquire {
				return
			}
			k, ok := mutexOfCall(&call.Call)
			if !ok {
				return
			}
			r.Instance(rule, 1)
			isRelease := func(x ssa.Instruction) bool {
				cc := callCommon(x)
				if cc == nil {
					return false
				}
				if _, isGo := x.(*ssa.Go); isGo {
					return false
				}
				o, ok := mutexOp(cc)
				if !ok || o.acquire || o.mode != op.mode {
					return false
				}
				kk, ok := mutexOfCall(cc)
				return ok && kk == k // Call or Defer: a deferred release runs at every exit after it
			}
			key := fmt.Sprintf("%s#%s", c.FnName(f), lockName(op, k))
			if bad, ok := mustPass(locOf(ins), isReturn, isRelease, nil); !ok {
				r.Fail(rule, key, c.Pos(ins.Pos()), fmt.Sprintf("a path from this acquisition reaches the return at %s without releasing %s", c.Pos(bad.Pos()), k.field.Name()))
			} else {
				r.Pass(rule, key, c.Pos(ins.Pos()), "released (directly or by defer) on every path to a return")
			}
		})
	}
}

func lockName(op lockOp, k lockKey) string {
	if op.mode == modeR {
		return k.field.Name() + ".RLock"
	}
	return k.field.Name() + ".Lock"
}

// ---- LOCK-2 -----------------------------------------------------------------------

// fieldAccesses enumerates accesses to struct fields in fn: (instruction,
// field, base, write?).
type fieldAccess struct {
	ins   ssa.Instruction
	field *types.Var
	base  ssa.Value
	write bool
}

func mutatesMapParam(fn *ssa.Function, idx int, depth int) bool {
	if fn == nil || fn.Blocks == nil || depth > 3 || idx >= len(fn.Params) {
		return false
	}
	p := fn.Params[idx]
	mut := false
	for _, ref := range *p.Referrers() {
		switch x := ref.(type) {
		case *ssa.MapUpdate:
			if x.Map == p {
				mut = true
			}
		case *ssa.Call:
			if _, ok := isBuiltinCall(x, "delete"); ok {
				mut = true
			} else if g := staticCallee(&x.Call); g != nil {
				for i, a := range x.Call.Args {
					if a == p && mutatesMapParam(g, i, depth+1) {
						mut = true
					}
				}
			}
		}
	}
	return mut
}

func accessesOf(fn *ssa.Function, fields map[*types.Var]bool) []fieldAccess {
	var out []fieldAccess
	allInstrs(fn, func(ins ssa.Instruction) {
		fa, ok := ins.(*ssa.FieldAddr)
		if !ok {
			return
		}
		f := fieldVarOfAddr(fa)
		if f == nil || !fields[f] {
			return
		}
		write := false
		var visit func(v ssa.Value, isAddr bool, depth int)
		visit = func(v ssa.Value, isAddr bool, depth int) {
			if depth > 4 {
				return
			}
			for _, ref := range *v.Referrers() {
				switch x := ref.(type) {
				case *ssa.Store:
					if isAddr && x.Addr == v {
						write = true
					}
					if isAddr && x.Val == v {
						write = true // address escapes
					}
				case *ssa.UnOp:
					if isAddr {
						visit(x, false, depth+1) // loaded value (map, pointer …)
					}
				case *ssa.FieldAddr:
					if isAddr {
						visit(x, true, depth+1)
					}
				case *ssa.IndexAddr:
					visit(x, true, depth+1)
				case *ssa.MapUpdate:
					if !isAddr && x.Map == v {
						write = true
					}
				case *ssa.Call:
					if _, ok := isBuiltinCall(x, "delete"); ok && !isAddr {
						write = true
					} else if g := staticCallee(&x.Call); g != nil {
						for i, a := range x.Call.Args {
							if a != v {
								continue
							}
							if isAddr {
								if op, isM := mutexOp(&x.Call); !isM || op.acquire {
									write = true // address handed to a callee
								}
							} else if _, isMap := v.Type().Underlying().(*types.Map); isMap && mutatesMapParam(g, i, 0) {
								write = true
							}
						}
					}
				}
			}
		}
		visit(fa, true, 0)
		out = append(out, fieldAccess{ins: fa, field: f, base: fa.X, write: write})
	})
	return out
}

func isFreshAlloc(v ssa.Value) bool {
	v = origin(v)
	switch x := v.(type) {
	case *ssa.Alloc:
		return true
	case *ssa.FieldAddr:
		return isFreshAlloc(x.X)
	case *ssa.IndexAddr:
		return isFreshAlloc(x.X)
	case *ssa.MakeSlice:
		return true
	case *ssa.Slice:
		return isFreshAlloc(x.X)
	}
	return false
}

func (la *lockAnalysis) ruleGuarded(r *Rep, rule string, cfg lockCfg) {
	c := la.c
	guardOf := map[*types.Var]*types.Var{}
	all := map[*types.Var]bool{}
	for m, fs := range cfg.guarded {
		for _, f := range fs {
			guardOf[f] = m
			all[f] = true
		}
	}
	usedExempt := map[string]bool{}
	for _, f := range la.fns {
		for _, a := range accessesOf(f, all) {
			m := guardOf[a.field]
			r.Instance(rule, 1)
			kind := "read"
			need := modeR
			if a.write {
				kind, need = "write", modeW
			}
			key := fmt.Sprintf("%s#%s:%s", c.FnName(f), a.field.Name(), kind)
			pos := c.Pos(a.ins.Pos())
			base := canonBase(a.base)
			if isFreshAlloc(base) {
				r.Pass(rule, key, pos, "object under construction (fresh allocation, not yet shared)")
				continue
			}
			held := la.must[f][a.ins][lockKey{base, m}]
			if held >= need {
				r.Pass(rule, key, pos, fmt.Sprintf("%s held (%s) on every path", m.Name(), map[int]string{modeR: "R", modeW: "W"}[held]))
				continue
			}
			ek := c.FnName(f) + "#" + a.field.Name()
			if why, ok := cfg.exempt[ek]; ok {
				usedExempt[ek] = true
				if msg := la.exemptCheck(f, a, ek); msg != "" {
					r.Fail(rule, key, pos, "exemption '"+why+"' no longer holds structurally: "+msg)
				} else {
					r.Pass(rule, key, pos, "exempt: "+why)
				}
				continue
			}
			have := "not held"
			if held == modeR {
				have = "only read-locked"
			}
			r.Fail(rule, key, pos, fmt.Sprintf("%s of %s.%s with %s %s on some path to this access", kind, c.ownerOfField(a.field), a.field.Name(), m.Name(), have))
		}
	}
}

// exemptCheck re-checks the structural part of an exemption's reason.
func (la *lockAnalysis) exemptCheck(f *ssa.Function, a fieldAccess, key string) string {
	switch {
	case strings.HasSuffix(key, "(*Writer).Close#err"):
		// Close touches err without the mutex only after the emitting goroutine
		// has finished: on every path to the access, either wg.Wait() was
		// executed, or the Writer was already closed (an earlier Close waited).
		isWait := func(ins ssa.Instruction) bool {
			if cc := callCommon(ins); cc != nil && calleeFullName(cc) == "(*sync.WaitGroup).Wait" {
				if fv, _ := addrField(cc.Args[0]); fv != nil && fv.Name() == "wg" {
					return true
				}
			}
			return false
		}
		closedEdge := func(from, to *ssa.BasicBlock) bool {
			i := ifOf(from)
			if i == nil {
				return true
			}
			cond := i.Cond
			neg := false
			if u, ok := cond.(*ssa.UnOp); ok && u.Op.String() == "!" {
				cond, neg = u.X, true
			}
			fv, _ := loadedField(cond)
			if fv == nil || fv.Name() != "closed" {
				return true
			}
			k := 0 // successor taken when closed is true
			if neg {
				k = 1
			}
			return from.Succs[k] != to // block the already-closed edge
		}
		if _, ok := mustPass(entryLoc(f), func(x ssa.Instruction) bool { return x == a.ins }, isWait, closedEdge); !ok {
			return "an access to err in Close is reachable without wg.Wait() on a path where the writer was not already closed"
		}
		return ""
	}
	return ""
}

// ---- LOCK-4 -----------------------------------------------------------------------

func (la *lockAnalysis) ruleLockOrder(r *Rep, rule string) {
	c := la.c
	edges := map[*types.Var]map[*types.Var]string{}
	add := func(a, b *types.Var, where string) {
		if edges[a] == nil {
			edges[a] = map[*types.Var]string{}
		}
		if _, ok := edges[a][b]; !ok {
			edges[a][b] = where
		}
	}
	inSet := map[*ssa.Function]bool{}
	for _, f := range la.fns {
		inSet[f] = true
	}
	for _, f := range la.fns {
		may := la.may[f]
		allInstrs(f, func(ins ssa.Instruction) {
			cc := callCommon(ins)
			if cc == nil {
				return
			}
			if _, isGo := ins.(*ssa.Go); isGo {
				return
			}
			st := may[ins]
			if len(st) == 0 {
				return
			}
			if op, ok := mutexOp(cc); ok {
				if op.acquire {
					if k, ok := mutexOfCall(cc); ok {
						for h := range st {
							if h != k {
								add(h.field, k.field, c.Pos(ins.Pos()))
							}
						}
					}
				}
				return
			}
			for _, g := range c.resolveCallees(cc) {
				if !inSet[g] {
					continue
				}
				for m := range la.acqAny[g] {
					for h := range st {
						// same-object re-acquisition is LOCK-1's business; a dynamic
						// call reaches a different object of possibly the same type.
						if h.field == m && !cc.IsInvoke() {
							continue
						}
						add(h.field, m, c.Pos(ins.Pos()))
					}
				}
			}
		})
	}
	// cycle detection ignoring self loops (a wrapper may wrap another instance of its own type)
	var nodes []*types.Var
	seen := map[*types.Var]bool{}
	for a, bs := range edges {
		if !seen[a] {
			seen[a] = true
			nodes = append(nodes, a)
		}
		for b := range bs {
			if !seen[b] {
				seen[b] = true
				nodes = append(nodes, b)
			}
		}
	}
	sort.Slice(nodes, func(i, j int) bool {
		return c.ownerOfField(nodes[i])+nodes[i].Name() < c.ownerOfField(nodes[j])+nodes[j].Name()
	})
	name := func(v *types.Var) string { return c.ownerOfField(v) + "." + v.Name() }
	var elist []string
	for _, a := range nodes {
		for b, where := range edges[a] {
			elist = append(elist, fmt.Sprintf("%s → %s (%s)", name(a), name(b), where))
		}
	}
	sort.Strings(elist)
	r.Instance(rule, len(elist))
	// DFS
	color := map[*types.Var]int{}
	var cyc []string
	var dfs func(v *types.Var, stack []*types.Var)
	dfs = func(v *types.Var, stack []*types.Var) {
		color[v] = 1
		stack = append(stack, v)
		for w := range edges[v] {
			if w == v {
				continue
			}
			if color[w] == 1 {
				var s []string
				for _, x := range stack {
					s = append(s, name(x))
				}
				cyc = append(cyc, strings.Join(s, " → ")+" → "+name(w))
			} else if color[w] == 0 {
				dfs(w, stack)
			}
		}
		color[v] = 2
	}
	for _, n := range nodes {
		if color[n] == 0 {
			dfs(n, nil)
		}
	}
	if len(cyc) > 0 {
		sort.Strings(cyc)
		r.Fail(rule, "lock-order#cycle", "-", "locks are acquired in cyclic order: "+strings.Join(cyc, "; "))
	} else {
		r.Pass(rule, "lock-order#acyclic", "-", "held→acquired graph is acyclic: "+strings.Join(elist, "; "))
	}
}

// ---- LOCK-5 -----------------------------------------------------------------------

// ruleSingleSection: each listed method acquires its receiver's mutex at
// exactly one site, not inside a loop.
func (la *lockAnalysis) ruleSingleSection(r *Rep, rule string, methods []*ssa.Function) {
	c := la.c
	for _, f := range methods {
		var sites []ssa.Instruction
		allInstrs(f, func(ins ssa.Instruction) {
			if call, ok := ins.(*ssa.Call); ok {
				if op, ok := mutexOp(&call.Call); ok && op.acquire {
					if k, ok := mutexOfCall(&call.Call); ok && len(f.Params) > 0 && k.base == f.Params[0] {
						sites = append(sites, ins)
					}
				}
				// a helper on the same receiver that takes the receiver's mutex is a
				// critical section of its own (a duplicate test moved into `holds(base)`
				// under the read lock, the insertion left under the write lock)
				if g := staticCallee(&call.Call); g != nil && g.Blocks != nil && g.Pkg == f.Pkg && len(call.Call.Args) > 0 && len(f.Params) > 0 && call.Call.Args[0] == ssa.Value(f.Params[0]) && acquiresOwnMutex(g, 0) {
					sites = append(sites, ins)
				}
			}
		})
		r.Instance(rule, 1)
		key := c.FnName(f) + "#critical-section"
		switch {
		case len(sites) == 0:
			r.Fail(rule, key, c.Pos(f.Pos()), "operation does not lock the receiver's mutex at all")
		case len(sites) > 1:
			r.Fail(rule, key, c.Pos(sites[1].Pos()), fmt.Sprintf("operation takes the receiver's mutex at %d sites: its effect is split over several critical sections and is not atomic", len(sites)))
		default:
			// not in a loop: the acquisition cannot reach itself
			if _, again := pathTo(locOf(sites[0]), func(x ssa.Instruction) bool { return x == sites[0] }, nil, nil); again {
				r.Fail(rule, key, c.Pos(sites[0].Pos()), "the acquisition is inside a loop: several critical sections per operation")
			} else {
				r.Pass(rule, key, c.Pos(sites[0].Pos()), "one acquisition, executed once")
			}
		}
	}
}

// canonBase maps a pointer value to a canonical representative so that two
// loads of the same field chain from the same root (d.owner … d.owner) denote
// the same object. Assumes the intermediate pointer fields are not re-assigned
// between the accesses compared (they are set at construction in this code).
var canonReps = map[string]ssa.Value{}

func canonBase(v ssa.Value) ssa.Value {
	v = origin(v)
	if u, ok := v.(*ssa.UnOp); ok {
		if fa, ok := u.X.(*ssa.FieldAddr); ok {
			key := fmt.Sprintf("%p.%d", canonBase(fa.X), fa.Field)
			if rep, ok := canonReps[key]; ok {
				return rep
			}
			canonReps[key] = v
			return v
		}
	}
	return v
}

// acquiresOwnMutex: g locks a mutex field of its receiver, itself or through a
// callee on the same receiver (two levels).
func acquiresOwnMutex(g *ssa.Function, depth int) bool {
	if g == nil || g.Blocks == nil || len(g.Params) == 0 || depth > 2 {
		return false
	}
	found := false
	allInstrs(g, func(ins ssa.Instruction) {
		call, ok := ins.(*ssa.Call)
		if !ok || found {
			return
		}
		if op, ok := mutexOp(&call.Call); ok && op.acquire {
			if k, ok := mutexOfCall(&call.Call); ok && k.base == g.Params[0] {
				found = true
				return
			}
		}
		if h := staticCallee(&call.Call); h != nil && h != g && h.Pkg == g.Pkg && len(call.Call.Args) > 0 && call.Call.Args[0] == ssa.Value(g.Params[0]) && acquiresOwnMutex(h, depth+1) {
			found = true
		}
	})
	return found
}
