// C09 / C12 / C01 / C08 share the writer protocol rules; C09 and C02 the reader's.
package main

func writerRules(which ...string) []RuleDef {
	var wm *writerModel
	var wmCtx *Ctx
	get := func(c *Ctx) *writerModel {
		if wm == nil || wmCtx != c {
			wm, wmCtx = newWriterModel(c, htsWriterCfg), c
		}
		return wm
	}
	all := map[string]RuleDef{
		"W1": {Name: "W1", What: "every send of a compressor on queue is followed on all paths by qwg.Add(1) (once) and an invocation of writeBlock on the same compressor, Add first", Floor: 3,
			Run: func(c *Ctx, r *Rep, tier string) { get(c).ruleW1(r, "W1") }},
		"W2": {Name: "W2", What: "emitter: per received compressor exactly one receive on flush, one waiting<-c, one qwg.Done on every path", Floor: 1,
			Run: func(c *Ctx, r *Rep, tier string) { get(c).ruleEmitter(r, "W2", "W3") }},
		"W3": {Name: "W3", What: "emitter returns only over the closed edge of the receive on queue (drains)", Floor: 1,
			Run: func(c *Ctx, r *Rep, tier string) {}},
		"W4": {Name: "W4", What: "one emitter started once; the underlying writer is written only by it, and by Close after wg.Wait", Floor: 3,
			Run: func(c *Ctx, r *Rep, tier string) { get(c).ruleW4(r, "W4") }},
		"W5": {Name: "W5", What: "qwg.Done and the hand-back of the compressor only after the block's write returned; errors latched before the compressor is released and before Done", Floor: 2,
			Run: func(c *Ctx, r *Rep, tier string) { get(c).ruleW5(r, "W5") }},
		"W6": {Name: "W6", What: "close(queue) once under !closed after submitting the active block; EOF marker only after wg.Wait and only if err == nil", Floor: 2,
			Run: func(c *Ctx, r *Rep, tier string) { get(c).ruleW6(r, "W6") }},
		"W7": {Name: "W7", What: "sends on queue only when not closed; constant-nil error returns of the API only after the latch was tested", Floor: 8,
			Run: func(c *Ctx, r *Rep, tier string) { get(c).ruleW7(r, "W7") }},
		"W8": {Name: "W8", What: "writeBlock sends on flush exactly once on every path", Floor: 1,
			Run: func(c *Ctx, r *Rep, tier string) { get(c).ruleW8(r, "W8") }},
		"W9": {Name: "W9", What: "after a failed block nothing further is written to the underlying writer (supergraph reachability from the error edges, latch==nil edges blocked)", Floor: 2,
			Run: func(c *Ctx, r *Rep, tier string) { get(c).ruleW9(r, "W9") }},
		"PATH-WAIT": {Name: "PATH-WAIT", What: "Wait: nil latch ⇒ qwg.Wait() on every path, then the latch re-read and returned", Floor: 1,
			Run: func(c *Ctx, r *Rep, tier string) { get(c).ruleWait(r, "PATH-WAIT") }},
	}
	var out []RuleDef
	for _, w := range which {
		out = append(out, all[w])
	}
	return out
}

func readerRules(which ...string) []RuleDef {
	var rm *readerModel
	var rmCtx *Ctx
	get := func(c *Ctx) *readerModel {
		if rm == nil || rmCtx != c {
			rm, rmCtx = newReaderModel(c, htsReaderCfg), c
		}
		return rm
	}
	all := map[string]RuleDef{
		"R1": {Name: "R1", What: "the head token (serialises the underlying reader) is taken and given back the same number of times on every path of every entry point; helpers have a constant net effect", Floor: 8,
			Run: func(c *Ctx, r *Rep, tier string) { get(c).ruleBalance(r, "R1", "recv:head", "send:head", "head token") }},
		"R2": {Name: "R2", What: "decompressor wait group: every Add(1) is matched by exactly one Done (directly or in the decompression goroutine) on every path", Floor: 8,
			Run: func(c *Ctx, r *Rep, tier string) {
				get(c).ruleBalance(r, "R2", "dwg.Add", "dwg.Done", "decompressor wait group")
			}},
		"R3": {Name: "R3", What: "read-ahead goroutine: each decompressor from waiting goes to working once; returns only over closed edges; closes done", Floor: 1,
			Run: func(c *Ctx, r *Rep, tier string) { get(c).ruleReadAhead(r, "R3") }},
		"R4": {Name: "R4", What: "Seek: decompressors taken from waiting/working = given back to waiting = values sent on control, on every feasible path (branch correlation on Reader.dec)", Floor: 1,
			Run: func(c *Ctx, r *Rep, tier string) { get(c).ruleSeek(r, "R4") }},
		"R6": {Name: "R6", What: "only non-nil decompressors are sent on waiting/working (premise of R4's path feasibility)", Floor: 6,
			Run: func(c *Ctx, r *Rep, tier string) { get(c).ruleSendsNonNil(r, "R6") }},
		"R5": {Name: "R5", What: "Close closes control and waiting, then waits on done; channel capacities; one head token", Floor: 2,
			Run: func(c *Ctx, r *Rep, tier string) { get(c).ruleClose(r, "R5") }},
	}
	var out []RuleDef
	for _, w := range which {
		out = append(out, all[w])
	}
	return out
}

func init() {
	register(&PropDef{
		ID: "C09", Title: "I/O faults never hang and are never swallowed by the BGZF reader or writer", Level: "other",
		Rules: append(append(writerRules("W1", "W2", "W3", "W5", "W7", "W8", "W9", "PATH-WAIT", "W6"), readerRules("R1", "R2", "R3", "R4", "R5", "R6")...),
			RuleDef{Name: "LATCH-ONE", What: "Writer.Close reports and acts on the error state setErr records: a writer whose underlying writer failed does not return nil from Close (shared with C08)", Floor: 1, Run: ruleLatchOne},
			RuleDef{Name: "FIELD-NEVER-SET", What: "every error field of package bgzf that is read is assigned a non-nil value somewhere: a failure that is recorded where nobody looks is swallowed (shared with C08)", Floor: 3, Run: ruleFieldNeverSet([]string{"bgzf"})},
			RuleDef{Name: "ERR-1", What: "no error returned by a call in package bgzf is dropped (exemptions named)", Floor: 40, Run: ruleNoDroppedError([]string{"bgzf"}, errExempt)},
			RuleDef{Name: "PATH-NEXTBLOCK", What: "a read-ahead result (error included) is reported only for the block whose base was expected", Floor: 1, Run: ruleNextBlock},
			RuleDef{Name: "CUR-SEEKOFF", What: "a failed underlying Seek leaves the recorded offset where the stream still is, and the bytes buffered from there in place (added after a blind second seed round; buffer clause after tenth-round seed C09-l: offset and buffer change together or not at all)", Floor: 3, Run: ruleSeekOff},
			RuleDef{Name: "BASE-DROPS-DATA", What: "after a failed read the recycled block does not look like a valid block of the new base", Floor: 2, Run: ruleBaseDropsData},
			RuleDef{Name: "PIPE-STALL", What: "the read-ahead loop examines the decompressor's error before deriving the next offset (a failed read-ahead must not park the worker while the reader waits)", Floor: 1, Run: rulePipeStall},
			RuleDef{Name: "GEN-BIND", What: "read-ahead generations: the generation sent on control is the Reader's when the sender returns, and the goroutine stamps a decompressor with the generation of the very instruction whose offset it reads – a result for the latest instruction never looks stale (else the Reader drops it and waits on a parked goroutine); added with the read-ahead repair ae10916", Floor: 2, Run: ruleGenBind},
			RuleDef{Name: "SYNC-REDIRECT", What: "after the Reader has filled a pool decompressor itself (nextBlock's synchronous fall-back) every path to a return re-points the read-ahead goroutine; Seek's slow path is R4's", Floor: 1, Run: ruleSyncRedirect},
			RuleDef{Name: "FAILED-CURRENT", What: "nextBlock makes the failed block current before it returns that block's error: a Seek afterwards takes the slow path and re-points the parked read-ahead goroutine (shared with C02)", Floor: 1, Run: ruleFailedCurrent},
			RuleDef{Name: "ERR-OVERWRITE", What: "a possibly failing store to Reader.err – direct, or left there by a helper on the same Reader – is read before the field is assigned again: an error that lives in a field is swallowed by overwriting it unseen (added after twelfth-round seed C09-n, once the protocol rules survived the helper extraction that had made them report it)", Floor: 2, Run: ruleErrOverwrite},
			RuleDef{Name: "NEXT-LATCH", What: "the error of nextBlock is recorded in Reader.err before an exported method returns it, also through helpers (added after sixth-round seed C09-h)", Floor: 1, Run: ruleNextLatch},
			RuleDef{Name: "BASE-ONCE", What: "Block.setBase is invoked only in nextBlockAt, with the offset the member is read from: a failed read-ahead result stays attributable to the block the reader waits for (added after fifth-round seed C09-f)", Floor: 1, Run: ruleBaseOnce},
			RuleDef{Name: "STICKY-ERR", What: "Reader.Read/ReadByte return the recorded error at once and do not touch it (past the end the worker is parked: carrying on hangs; added after fifth-round seed C02-f)", Floor: 2, Run: ruleReaderStickyErr},
			RuleDef{Name: "POOL-BARE", What: "every decompressor sent to the read-ahead pool is new or had its block taken by wait(): otherwise the end of a stream that cannot seek is a panic instead of io.EOF (shared with C01)", Floor: 4, Run: rulePoolBare},
			RuleDef{Name: "LOCK-2", What: "the writer's error latch and the reader's cache field are accessed under their mutex (Close after wg.Wait exempt, structurally re-checked)", Floor: 8,
				Run: func(c *Ctx, r *Rep, tier string) {
					newLockAnalysis(c, []string{"bgzf"}).ruleGuarded(r, "LOCK-2", buildLockCfg(c, "bgzf"))
				}}),
		Explanation: "Necessary conditions of \"every call returns and the failure is reported\" that are path properties of the goroutine protocol, decided for every fault position and schedule at once: W1–W3/W8 every queued compressor is compressed, consumed, Done and returned to the pool exactly once and the emitter drains the queue until it is closed (a stranded compressor or a missing Done blocks Write/Flush+Wait/Close for ever); W5/W7/PATH-WAIT errors are latched before a compressor is released or Done is signalled and no API call returns a constant nil without consulting the latch; W9 nothing is written after a failed block; W6 Close's shutdown order; R1/R2 the reader's head token and per-decompressor wait group are balanced on every path of every entry point; R3–R5 the read-ahead goroutine's hand-offs, Seek's hand-back and Close's shutdown.",
		NotDecided:  "global deadlock freedom (needs a model of channel capacities and interleavings), goroutine leaks beyond R3/R5, that the reader's error is the right one for the position.",
		Assumptions: []string{"loops unrolled at most twice per path when counting effects", "static callees summarised to depth 4"},
	})
}
