// Shared primitives over go/ssa: instruction-level reachability with barriers
// and blocked edges, dominance, value origins, field identity, callee
// resolution.
package main

import (
	"go/token"
	"go/types"

	"golang.org/x/tools/go/ssa"
)

type Loc struct {
	B *ssa.BasicBlock
	I int
}

func locOf(ins ssa.Instruction) Loc {
	b := ins.Block()
	for i, x := range b.Instrs {
		if x == ins {
			return Loc{b, i}
		}
	}
	panic("instruction not in its block")
}

type edgeFn func(from, to *ssa.BasicBlock) bool

// pathTo reports whether some CFG path starting just after `from` reaches an
// instruction satisfying target without first executing an instruction
// satisfying barrier and without using an edge for which edgeOK is false.
// A nil edgeOK allows all edges. The found instruction is returned.
func pathTo(from Loc, target, barrier func(ssa.Instruction) bool, edgeOK edgeFn) (ssa.Instruction, bool) {
	seen := map[*ssa.BasicBlock]bool{}
	type item struct {
		b *ssa.BasicBlock
		i int
	}
	work := []item{{from.B, from.I + 1}}
	for len(work) > 0 {
		it := work[len(work)-1]
		work = work[:len(work)-1]
		stopped := false
		for i := it.i; i < len(it.b.Instrs); i++ {
			ins := it.b.Instrs[i]
			if target != nil && target(ins) {
				return ins, true
			}
			if barrier != nil && barrier(ins) {
				stopped = true
				break
			}
		}
		if stopped {
			continue
		}
		for _, s := range it.b.Succs {
			if edgeOK != nil && !edgeOK(it.b, s) {
				continue
			}
			if !seen[s] {
				seen[s] = true
				work = append(work, item{s, 0})
			}
		}
	}
	return nil, false
}

// pathToCorr is pathTo with one correlation: the state is (block, edge it was
// entered by), and a branch whose condition is a φ of boolean constants in the
// branching block itself (or its negation) – the `found := false … found =
// true; break … if !found` idiom – takes only the successor that the constant
// on the entering edge selects.
func pathToCorr(from Loc, target, barrier func(ssa.Instruction) bool, edgeOK edgeFn) (ssa.Instruction, bool) {
	type st struct{ b, pred *ssa.BasicBlock }
	seen := map[st]bool{}
	type item struct {
		b, pred *ssa.BasicBlock
		i       int
	}
	work := []item{{from.B, nil, from.I + 1}}
	for len(work) > 0 {
		it := work[len(work)-1]
		work = work[:len(work)-1]
		stopped := false
		for i := it.i; i < len(it.b.Instrs); i++ {
			ins := it.b.Instrs[i]
			if target != nil && target(ins) {
				return ins, true
			}
			if barrier != nil && barrier(ins) {
				stopped = true
				break
			}
		}
		if stopped {
			continue
		}
		succs := it.b.Succs
		if iff := ifOf(it.b); iff != nil && len(succs) == 2 && succs[0] != succs[1] && it.pred != nil {
			cond, neg := iff.Cond, false
			if u, ok := cond.(*ssa.UnOp); ok && u.Op == token.NOT {
				cond, neg = u.X, true
			}
			if p, ok := cond.(*ssa.Phi); ok && p.Block() == it.b {
				for i, pb := range it.b.Preds {
					if pb != it.pred {
						continue
					}
					if k, isK := p.Edges[i].(*ssa.Const); isK && k.Value != nil && (k.Value.String() == "true" || k.Value.String() == "false") {
						truth := (k.Value.String() == "true") != neg
						if truth {
							succs = succs[:1]
						} else {
							succs = succs[1:]
						}
					}
					break
				}
			}
		}
		for _, s := range succs {
			if edgeOK != nil && !edgeOK(it.b, s) {
				continue
			}
			if !seen[st{s, it.b}] {
				seen[st{s, it.b}] = true
				work = append(work, item{s, it.b, 0})
			}
		}
	}
	return nil, false
}

// entryLoc is the location "before the first instruction" of fn.
func entryLoc(fn *ssa.Function) Loc { return Loc{fn.Blocks[0], -1} }

func isReturn(ins ssa.Instruction) bool { _, ok := ins.(*ssa.Return); return ok }

func isExit(ins ssa.Instruction) bool {
	switch ins.(type) {
	case *ssa.Return, *ssa.Panic:
		return true
	}
	return false
}

// mustPass: every path from `from` to an instruction satisfying `to` executes
// an instruction satisfying `through` first. Returns the offending target.
func mustPass(from Loc, to, through func(ssa.Instruction) bool, edgeOK edgeFn) (ssa.Instruction, bool) {
	ins, found := pathTo(from, to, through, edgeOK)
	return ins, !found
}

// instrDominates reports whether a is executed before b on every path from
// entry to b.
func instrDominates(a, b ssa.Instruction) bool {
	la, lb := locOf(a), locOf(b)
	if la.B == lb.B {
		return la.I < lb.I
	}
	return la.B.Dominates(lb.B)
}

// reachesWithoutEdge: is `to` block reachable from entry when the CFG edge
// (from→succ index k) is removed? Used for "dominated by the true/false edge".
func blockReachableAvoidingEdge(fn *ssa.Function, eb *ssa.BasicBlock, k int, to *ssa.BasicBlock) bool {
	seen := map[*ssa.BasicBlock]bool{fn.Blocks[0]: true}
	work := []*ssa.BasicBlock{fn.Blocks[0]}
	for len(work) > 0 {
		b := work[len(work)-1]
		work = work[:len(work)-1]
		if b == to {
			return true
		}
		for i, s := range b.Succs {
			if b == eb && i == k {
				continue
			}
			if !seen[s] {
				seen[s] = true
				work = append(work, s)
			}
		}
	}
	return false
}

// dominatedByEdge: every path from entry to block `to` uses edge k of the If
// terminating block eb.
func dominatedByEdge(fn *ssa.Function, eb *ssa.BasicBlock, k int, to *ssa.BasicBlock) bool {
	if eb.Succs[0] == eb.Succs[1] {
		return false
	}
	return !blockReachableAvoidingEdge(fn, eb, k, to)
}

// ---- values ------------------------------------------------------------------

// deref strips value-preserving wrappers.
func strip(v ssa.Value) ssa.Value {
	for {
		switch x := v.(type) {
		case *ssa.ChangeType:
			v = x.X
		case *ssa.MakeInterface:
			v = x.X
		case *ssa.ChangeInterface:
			v = x.X
		case *ssa.Phi:
			// phi of identical edges
			var u ssa.Value
			same := true
			for _, e := range x.Edges {
				e = stripNoPhi(e)
				if e == x {
					continue
				}
				if u == nil {
					u = e
				} else if u != e {
					same = false
				}
			}
			if !same || u == nil {
				return v
			}
			v = u
		default:
			return v
		}
	}
}

// singleStore returns the only value stored into an Alloc (captured variable
// spilled by go/ssa), or nil.
func singleStore(a *ssa.Alloc) ssa.Value {
	var val ssa.Value
	n := 0
	for _, r := range *a.Referrers() {
		if st, ok := r.(*ssa.Store); ok && st.Addr == a {
			val = st.Val
			n++
		}
	}
	// also stores made inside closures that captured it
	if n == 1 {
		// check closures do not store
		for _, r := range *a.Referrers() {
			if mc, ok := r.(*ssa.MakeClosure); ok {
				fn := mc.Fn.(*ssa.Function)
				for i, b := range mc.Bindings {
					if b == a && freeVarStored(fn, fn.FreeVars[i]) {
						return nil
					}
				}
			}
		}
		return val
	}
	return nil
}

func freeVarStored(fn *ssa.Function, fv *ssa.FreeVar) bool {
	for _, r := range *fv.Referrers() {
		if st, ok := r.(*ssa.Store); ok && st.Addr == fv {
			return true
		}
		if mc, ok := r.(*ssa.MakeClosure); ok {
			f2 := mc.Fn.(*ssa.Function)
			for i, b := range mc.Bindings {
				if b == fv && freeVarStored(f2, f2.FreeVars[i]) {
					return true
				}
			}
		}
	}
	return false
}

// origin resolves loads of single-assignment spilled variables (including
// free variables of literals bound to such Allocs) to the stored value.
func origin(v ssa.Value) ssa.Value {
	for depth := 0; depth < 16; depth++ {
		v = strip(v)
		u, ok := v.(*ssa.UnOp)
		if !ok || u.Op != token.MUL {
			return v
		}
		switch a := u.X.(type) {
		case *ssa.Alloc:
			if s := singleStore(a); s != nil {
				v = s
				continue
			}
			return v
		case *ssa.FreeVar:
			b := freeVarBinding(a)
			if al, ok := b.(*ssa.Alloc); ok {
				if s := singleStore(al); s != nil {
					v = s
					continue
				}
			}
			return v
		default:
			return v
		}
	}
	return v
}

// freeVarBinding finds the value bound to a free variable at the (unique)
// MakeClosure of its function in the parent.
func freeVarBinding(fv *ssa.FreeVar) ssa.Value {
	fn := fv.Parent()
	par := fn.Parent()
	if par == nil {
		return nil
	}
	idx := -1
	for i, x := range fn.FreeVars {
		if x == fv {
			idx = i
		}
	}
	var found ssa.Value
	n := 0
	for _, b := range par.Blocks {
		for _, ins := range b.Instrs {
			if mc, ok := ins.(*ssa.MakeClosure); ok && mc.Fn == fn {
				found = mc.Bindings[idx]
				n++
			}
		}
	}
	if n != 1 {
		return nil
	}
	if pfv, ok := found.(*ssa.FreeVar); ok {
		return freeVarBinding(pfv)
	}
	return found
}

// fieldVar returns the struct field selected by a FieldAddr / Field.
func fieldVarOfAddr(fa *ssa.FieldAddr) *types.Var {
	pt, ok := fa.X.Type().Underlying().(*types.Pointer)
	if !ok {
		return nil
	}
	st, ok := pt.Elem().Underlying().(*types.Struct)
	if !ok {
		return nil
	}
	return st.Field(fa.Field)
}

func fieldVarOfField(f *ssa.Field) *types.Var {
	st, ok := f.X.Type().Underlying().(*types.Struct)
	if !ok {
		return nil
	}
	return st.Field(f.Field)
}

// loadedField: if v is (a load of) a struct field, return the field object and
// the base pointer/struct value it was selected from.
func loadedField(v ssa.Value) (*types.Var, ssa.Value) {
	v = strip(v)
	switch x := v.(type) {
	case *ssa.UnOp:
		if x.Op == token.MUL {
			if fa, ok := x.X.(*ssa.FieldAddr); ok {
				return fieldVarOfAddr(fa), fa.X
			}
		}
	case *ssa.Field:
		return fieldVarOfField(x), x.X
	case *ssa.FieldAddr:
		return fieldVarOfAddr(x), x.X
	}
	return nil, nil
}

// addrField: if v is the address of a struct field (possibly through a load of
// a pointer-typed field, e.g. c.qwg), return the field.
func addrField(v ssa.Value) (*types.Var, ssa.Value) {
	v = strip(v)
	if fa, ok := v.(*ssa.FieldAddr); ok {
		return fieldVarOfAddr(fa), fa.X
	}
	return loadedField(v)
}

// ---- calls --------------------------------------------------------------------

func callCommon(ins ssa.Instruction) *ssa.CallCommon {
	switch x := ins.(type) {
	case *ssa.Call:
		return &x.Call
	case *ssa.Go:
		return &x.Call
	case *ssa.Defer:
		return &x.Call
	}
	return nil
}

// staticCallee resolves the callee of a call: static functions, methods, and
// closures created by MakeClosure / function literals called directly.
func staticCallee(cc *ssa.CallCommon) *ssa.Function {
	if cc == nil {
		return nil
	}
	if f := cc.StaticCallee(); f != nil {
		return f
	}
	if cc.IsInvoke() {
		return nil
	}
	switch v := origin(cc.Value).(type) {
	case *ssa.MakeClosure:
		return v.Fn.(*ssa.Function)
	case *ssa.Function:
		return v
	}
	return nil
}

// calleeFullName: "(*sync.WaitGroup).Add", "io.Copy", "" when unknown. For
// interface invocations: "(io.Writer).Write".
func calleeFullName(cc *ssa.CallCommon) string {
	if cc == nil {
		return ""
	}
	if cc.IsInvoke() {
		return cc.Method.FullName()
	}
	if f := staticCallee(cc); f != nil {
		if o := f.Object(); o != nil {
			if fo, ok := o.(*types.Func); ok {
				return fo.FullName()
			}
		}
		return f.String()
	}
	if b, ok := cc.Value.(*ssa.Builtin); ok {
		return "builtin." + b.Name()
	}
	return ""
}

func isBuiltinCall(ins ssa.Instruction, name string) (*ssa.CallCommon, bool) {
	cc := callCommon(ins)
	if cc == nil {
		return nil, false
	}
	if b, ok := cc.Value.(*ssa.Builtin); ok && b.Name() == name {
		return cc, true
	}
	return nil, false
}

// recvArg returns the receiver value of a method call (first arg for static
// method calls, cc.Value for invokes).
func recvArg(cc *ssa.CallCommon) ssa.Value {
	if cc.IsInvoke() {
		return cc.Value
	}
	if len(cc.Args) > 0 {
		return cc.Args[0]
	}
	return nil
}

// allInstrs iterates all instructions of fn.
func allInstrs(fn *ssa.Function, f func(ssa.Instruction)) {
	for _, b := range fn.Blocks {
		for _, ins := range b.Instrs {
			f(ins)
		}
	}
}

// withAnon returns fn and all function literals nested in it.
func withAnon(fn *ssa.Function) []*ssa.Function {
	out := []*ssa.Function{fn}
	for _, a := range fn.AnonFuncs {
		out = append(out, withAnon(a)...)
	}
	return out
}

// constInt returns the integer value of a constant SSA value.
func constInt(v ssa.Value) (int64, bool) {
	c, ok := strip(v).(*ssa.Const)
	if !ok || c.Value == nil {
		return 0, false
	}
	if !c.IsNil() {
		if b, ok := c.Type().Underlying().(*types.Basic); ok && b.Info()&types.IsInteger != 0 {
			return c.Int64(), true
		}
	}
	return 0, false
}

func isNilConst(v ssa.Value) bool {
	c, ok := strip(v).(*ssa.Const)
	return ok && c.IsNil()
}

// ifOf returns the If terminating block b, if any.
func ifOf(b *ssa.BasicBlock) *ssa.If {
	if len(b.Instrs) == 0 {
		return nil
	}
	i, _ := b.Instrs[len(b.Instrs)-1].(*ssa.If)
	return i
}

// retValue resolves result i of a return: with deferred calls go/ssa spills
// results to a local and reloads it after rundefers; the value stored last in
// the return's block is the one returned.
func retValue(ret *ssa.Return, i int) ssa.Value {
	v := ret.Results[i]
	u, ok := v.(*ssa.UnOp)
	if !ok || u.Op != token.MUL {
		return v
	}
	a, ok := u.X.(*ssa.Alloc)
	if !ok {
		return v
	}
	b := ret.Block()
	for k := len(b.Instrs) - 1; k >= 0; k-- {
		if st, ok := b.Instrs[k].(*ssa.Store); ok && st.Addr == a {
			return st.Val
		}
	}
	// stored in a dominating block: unique store overall?
	var only ssa.Value
	n := 0
	for _, r := range *a.Referrers() {
		if st, ok := r.(*ssa.Store); ok && st.Addr == a {
			only = st.Val
			n++
		}
	}
	if n == 1 {
		return only
	}
	return v
}

func stripNoPhi(v ssa.Value) ssa.Value {
	for {
		switch x := v.(type) {
		case *ssa.ChangeType:
			v = x.X
		case *ssa.MakeInterface:
			v = x.X
		case *ssa.ChangeInterface:
			v = x.X
		default:
			return v
		}
	}
}
