// C10: truncated or corrupted streams are never read as different valid data
// (structural part): framing reads, end-of-member drain, BAM length prefix.
package main

import (
	"fmt"
	"go/token"

	"golang.org/x/tools/go/ssa"
)

func isGlobalLoad(v ssa.Value, pkg, name string) bool {
	u, ok := v.(*ssa.UnOp)
	if !ok || u.Op != token.MUL {
		return false
	}
	g, ok := u.X.(*ssa.Global)
	return ok && g.Name() == name && g.Pkg != nil && g.Pkg.Pkg.Path() == pkg
}

// ruleReadFull (PATH-READFULL): the member body is fetched by io.ReadFull of
// exactly the announced remainder and its error is returned.
func ruleReadFull(c *Ctx, r *Rep, tier string) {
	rule := "PATH-READFULL"
	rl := c.Func("bgzf", "(*buffer).readLimited")
	rm := c.Func("bgzf", "(*decompressor).readMember")
	ems := c.Func("bgzf", "expectedMemberSize")
	fData := c.Field("bgzf", "buffer", "data")
	r.Instance(rule, 1)
	why := ""
	var rf *ssa.Call
	n := 0
	allInstrs(rl, func(ins ssa.Instruction) {
		if call, ok := ins.(*ssa.Call); ok && calleeFullName(&call.Call) == "io.ReadFull" {
			rf = call
			n++
		}
	})
	if n != 1 {
		why += fmt.Sprintf(" %d io.ReadFull calls in readLimited, want one;", n)
	} else {
		sl, ok := strip(rf.Call.Args[1]).(*ssa.Slice)
		if !ok || sl.Low != nil || sl.High != ssa.Value(rl.Params[1]) {
			why += " the read is not into data[:n] with n the requested size;"
		} else if fa, isFa := sl.X.(*ssa.FieldAddr); !isFa || fieldVarOfAddr(fa) != fData {
			why += " the read is not into the member buffer;"
		}
		// error returned on every path
		allInstrs(rl, func(ins ssa.Instruction) {
			if ret, ok := ins.(*ssa.Return); ok && instrDominates(rf, ret) {
				if !dependsOn(retValue(ret, 0), rf, 0) {
					why += " readLimited does not return the ReadFull error;"
				}
			}
		})
	}
	r.Check(why == "", rule, "bgzf.(*buffer).readLimited#readfull", c.Pos(rl.Pos()), "io.ReadFull(src, data[:n]) and its error returned", why)

	// readMember: need = expectedMemberSize(header) − bytes already consumed; tail call of readLimited(need)
	r.Instance(rule, 1)
	why = ""
	var rlCall, emsCall *ssa.Call
	allInstrs(rm, func(ins ssa.Instruction) {
		if call, ok := ins.(*ssa.Call); ok {
			switch staticCallee(&call.Call) {
			case rl:
				rlCall = call
			case ems:
				emsCall = call
			}
		}
	})
	if rlCall == nil || emsCall == nil {
		why += " readLimited / expectedMemberSize calls not found;"
	} else {
		need := rlCall.Call.Args[1]
		bo, ok := need.(*ssa.BinOp)
		if !ok || bo.Op != token.SUB {
			why += " the size requested is not (member size − consumed);"
		} else {
			// X: the block size stored from expectedMemberSize
			fBS := c.Field("bgzf", "decompressor", "blockSize")
			if f, _ := loadedField(bo.X); f != fBS && !dependsOn(bo.X, emsCall, 0) {
				why += " the minuend is not the member size announced by BSIZE;"
			}
			stored := false
			allInstrs(rm, func(ins ssa.Instruction) {
				if st, ok := ins.(*ssa.Store); ok {
					if fa, isFa := st.Addr.(*ssa.FieldAddr); isFa && fieldVarOfAddr(fa) == fBS && st.Val == ssa.Value(emsCall) {
						stored = true
					}
				}
			})
			if !stored {
				why += " blockSize is not the result of expectedMemberSize;"
			}
			// Y: offset() − mark
			sub, isSub := stripConv(bo.Y).(*ssa.BinOp)
			if !isSub || sub.Op != token.SUB {
				why += " the subtrahend is not (current offset − offset at the start of the member);"
			}
		}
		// returned, with io.EOF (stream ends right after the header) converted
		okRet := false
		allInstrs(rm, func(ins ssa.Instruction) {
			if ret, ok := ins.(*ssa.Return); ok && dependsOn(retValue(ret, 0), rlCall, 0) {
				okRet = true
			}
		})
		if !okRet {
			why += " the error of the body read is not returned;"
		}
		eofTested := false
		for _, f := range []*ssa.Function{rm, rl} {
			allInstrs(f, func(ins ssa.Instruction) {
				if bo, ok := ins.(*ssa.BinOp); ok && (bo.Op == token.EQL || bo.Op == token.NEQ) {
					x, y := bo.X, bo.Y
					if isGlobalLoad(x, "io", "EOF") {
						x, y = y, x // written the other way round
					}
					if isGlobalLoad(y, "io", "EOF") && (x == ssa.Value(rlCall) || (rf != nil && dependsOn(x, rf, 0))) {
						eofTested = true
					}
				}
			})
		}
		if !eofTested {
			why += " the io.EOF that io.ReadFull returns when the stream ends exactly after a member header is passed on unchanged: a file cut there reads as complete;"
		}
	}
	r.Check(why == "", rule, "bgzf.(*decompressor).readMember#need", c.Pos(rm.Pos()), "body read = readLimited(BSIZE+1 − header bytes consumed), error returned", why)
}

// ruleNeed (PATH-NEED): readMember classifies the remainder of the member:
// ≤ 0 → an error that is not io.EOF, missing BC → ErrNoBlockSize; no value a
// conforming member can have (1..MaxBlockSize) is rejected.
func ruleNeed(c *Ctx, r *Rep, tier string) {
	rule := "PATH-NEED"
	rm := c.Func("bgzf", "(*decompressor).readMember")
	rl := c.Func("bgzf", "(*buffer).readLimited")
	r.Instance(rule, 1)
	var need ssa.Value
	allInstrs(rm, func(ins ssa.Instruction) {
		if call, ok := ins.(*ssa.Call); ok && staticCallee(&call.Call) == rl {
			need = call.Call.Args[1]
		}
	})
	if need == nil {
		r.Fail(rule, "bgzf.(*decompressor).readMember#classify", c.Pos(rm.Pos()), "size of the body read not found: undecided")
		return
	}
	why := ""
	rejZero, rejNeg := false, false
	for _, b := range rm.Blocks {
		i := ifOf(b)
		if i == nil {
			continue
		}
		bo, ok := i.Cond.(*ssa.BinOp)
		if !ok || bo.X != need {
			continue
		}
		k, isK := constInt(bo.Y)
		if !isK {
			why += fmt.Sprintf(" the remainder is compared with a non-constant at %s;", c.Pos(i.Pos()))
			continue
		}
		// the set of remainders on the edge that returns an error directly
		retOn := func(edge int) (ssa.Value, bool) {
			blk := b.Succs[edge]
			if ret, ok := blk.Instrs[len(blk.Instrs)-1].(*ssa.Return); ok && len(blk.Preds) == 1 {
				return retValue(ret, 0), true
			}
			return nil, false
		}
		type iv struct{ lo, hi int64 } // inclusive; ±inf as large numbers
		const inf = int64(1) << 40
		var tr, fa iv // values of need on the true / false edge
		switch bo.Op {
		case token.EQL:
			tr, fa = iv{k, k}, iv{-inf, inf}
		case token.LSS:
			tr, fa = iv{-inf, k - 1}, iv{k, inf}
		case token.LEQ:
			tr, fa = iv{-inf, k}, iv{k + 1, inf}
		case token.GTR:
			tr, fa = iv{k + 1, inf}, iv{-inf, k}
		case token.GEQ:
			tr, fa = iv{k, inf}, iv{-inf, k - 1}
		default:
			why += fmt.Sprintf(" unsupported test of the remainder at %s;", c.Pos(i.Pos()))
			continue
		}
		for edge, set := range []iv{tr, fa} {
			v, isRet := retOn(edge)
			if !isRet {
				continue
			}
			if bo.Op == token.EQL && edge == 1 {
				continue
			}
			// rejected values must not include any size a conforming member can need
			if set.lo <= specMaxBlockSize && set.hi >= 1 {
				why += fmt.Sprintf(" the test `need %s %d` at %s rejects remainders in [%d,%d]∩[1,%d]: members a conforming writer produces are refused;", bo.Op, k, c.Pos(i.Pos()), set.lo, set.hi, specMaxBlockSize)
			}
			if set.hi <= 0 || set.lo <= 0 {
				if isNilConst(v) || isGlobalLoad(v, "io", "EOF") {
					why += fmt.Sprintf(" a remainder ≤ 0 (BSIZE not larger than the header already read) is answered with %v at %s: a corrupted BSIZE reads as a clean end of data;", v, c.Pos(i.Pos()))
				}
				for x := set.lo; x <= set.hi && x <= 0; x++ {
					if x < -2 {
						x = -2
						rejNeg = true
						continue
					}
					if x == 0 {
						rejZero = true
					} else {
						rejNeg = true
					}
				}
			}
		}
	}
	if !rejZero {
		why += " need == 0 (BSIZE covering only the header) is not rejected: a zero-length body read would follow;"
	}
	if !rejNeg {
		why += " need < 0 (BSIZE smaller than the header already read) is not rejected;"
	}
	// missing block size
	ems := c.Func("bgzf", "expectedMemberSize")
	okNo := false
	for _, b := range rm.Blocks {
		i := ifOf(b)
		if i == nil {
			continue
		}
		bo, ok := i.Cond.(*ssa.BinOp)
		if !ok || bo.Op != token.LSS {
			continue
		}
		if k, isK := constInt(bo.Y); !isK || k != 0 {
			continue
		}
		isBS := false
		if f, _ := loadedField(bo.X); f != nil && f.Name() == "blockSize" {
			isBS = true
		}
		if call, isCall := bo.X.(*ssa.Call); isCall && staticCallee(&call.Call) == ems {
			isBS = true
		}
		if !isBS {
			continue
		}
		blk := b.Succs[0]
		if ret, ok := blk.Instrs[len(blk.Instrs)-1].(*ssa.Return); ok && isGlobalLoad(retValue(ret, 0), repoMod+"/bgzf", "ErrNoBlockSize") {
			okNo = true
		}
	}
	if !okNo {
		why += " a member without the BC subfield is not rejected with ErrNoBlockSize;"
	}
	r.Check(why == "", rule, "bgzf.(*decompressor).readMember#classify", c.Pos(rm.Pos()), "need ≤ 0 → an error other than io.EOF; no BC → ErrNoBlockSize; every size 1..MaxBlockSize accepted", why)
}

// ruleEOFDrain (PATH-EOFDRAIN): readToEOF returns a nil error only after it has
// seen io.EOF from the gzip reader (so compress/gzip has verified CRC32 and
// ISIZE), and rejects payloads larger than the buffer.
func ruleEOFDrain(c *Ctx, r *Rep, tier string) {
	rule := "PATH-EOFDRAIN"
	fn := c.Func("bgzf", "readToEOF")
	r.Instance(rule, 1)
	w := NewWalker(c)
	w.Inline = 0
	w.MaxVisits = 2
	w.Edge = func(from *ssa.BasicBlock, succ int) (string, bool) {
		i := ifOf(from)
		if i == nil {
			return "", false
		}
		bo, ok := i.Cond.(*ssa.BinOp)
		if !ok || (bo.Op != token.EQL && bo.Op != token.NEQ) {
			return "", false
		}
		if !isGlobalLoad(bo.Y, "io", "EOF") && !isGlobalLoad(bo.X, "io", "EOF") {
			return "", false
		}
		k := 0
		if bo.Op == token.NEQ {
			k = 1
		}
		if succ == k {
			return "saw-eof", true
		}
		return "", false
	}
	w.Effect = func(ins ssa.Instruction) (string, bool) {
		if call, ok := ins.(*ssa.Call); ok && call.Call.IsInvoke() && call.Call.Method.Name() == "Read" {
			return "read", true
		}
		return "", false
	}
	why := ""
	n := 0
	for _, e := range w.Walk(fn, entryLoc(fn)) {
		if _, isRet := e.At.(*ssa.Return); !isRet || len(e.Ret) != 2 {
			continue
		}
		n++
		if e.Counts["read"] == 0 {
			// no Read at all: only possible for an empty buffer; the single call
			// site passes the whole [MaxBlockSize]byte array (checked below)
			continue
		}
		if isNilConst(e.Ret[1]) && e.Counts["saw-eof"] == 0 {
			why = fmt.Sprintf(" a path (%s) returns a nil error without the reader having reported io.EOF: a member whose payload is cut short, or longer than the buffer, would be accepted without its CRC32/ISIZE having been checked;", traceStr(e.Trace))
		}
	}
	if n == 0 || w.overflow {
		why += " path enumeration failed;"
	}
	// callers return its error
	rf := c.Func("bgzf", "(*block).readFrom")
	var call *ssa.Call
	allInstrs(rf, func(ins ssa.Instruction) {
		if cl, ok := ins.(*ssa.Call); ok && staticCallee(&cl.Call) == fn {
			call = cl
		}
	})
	if call == nil {
		why += " block.readFrom does not use readToEOF;"
	} else {
		// the buffer handed over is the whole data array (length MaxBlockSize > 0)
		if sl, ok := call.Call.Args[1].(*ssa.Slice); !ok || sl.Low != nil || sl.High != nil || arrayLenOfField(c, "bgzf", "block", "data") != specMaxBlockSize {
			why += " readToEOF is not given the whole [MaxBlockSize]byte payload buffer;"
		}
		okErr := false
		allInstrs(rf, func(ins ssa.Instruction) {
			if ret, ok := ins.(*ssa.Return); ok && dependsOn(retValue(ret, 0), call, 0) {
				okErr = true
			}
		})
		if !okErr {
			why += " block.readFrom drops readToEOF's error;"
		}
	}
	r.Check(why == "", rule, "bgzf.readToEOF#eof-before-nil", c.Pos(fn.Pos()), fmt.Sprintf("all %d returning paths: nil error only after io.EOF was observed", n), why)
}

// ruleBamLen (PATH-BAMLEN): the BAM record reader returns both ReadFull errors;
// an io.EOF while reading the body (the length prefix promised more) is not
// passed on as a clean end.
func ruleBamLen(c *Ctx, r *Rep, tier string) {
	rule := "PATH-BAMLEN"
	fn := c.Func("bam", "newBuffer")
	r.Instance(rule, 1)
	var reads []*ssa.Call
	allInstrs(fn, func(ins ssa.Instruction) {
		if call, ok := ins.(*ssa.Call); ok && calleeFullName(&call.Call) == "io.ReadFull" {
			reads = append(reads, call)
		}
	})
	why := ""
	if len(reads) != 2 {
		r.Fail(rule, "bam.newBuffer#length-prefix", c.Pos(fn.Pos()), fmt.Sprintf("%d io.ReadFull calls, expected two (length prefix, body): undecided", len(reads)))
		return
	}
	if reads[0].Pos() > reads[1].Pos() {
		reads[0], reads[1] = reads[1], reads[0]
	}
	errOf := func(call *ssa.Call) ssa.Value {
		for _, ref := range *call.Referrers() {
			if e, ok := ref.(*ssa.Extract); ok && e.Index == 1 {
				return e
			}
		}
		return nil
	}
	for i, call := range reads {
		ev := errOf(call)
		if ev == nil {
			why += fmt.Sprintf(" the error of ReadFull #%d is dropped;", i+1)
			continue
		}
		// tested against nil, and the non-nil edge returns an error
		tested := false
		for _, b := range fn.Blocks {
			ifi := ifOf(b)
			if ifi == nil {
				continue
			}
			bo, ok := ifi.Cond.(*ssa.BinOp)
			if !ok || bo.X != ev || !isNilConst(bo.Y) {
				continue
			}
			k := 0
			if bo.Op == token.EQL {
				k = 1
			}
			tested = true
			// on the error edge a success return must not be reachable
			if _, reach := pathTo(Loc{b.Succs[k], -1}, func(x ssa.Instruction) bool {
				ret, ok := x.(*ssa.Return)
				return ok && isNilConst(retValue(ret, 1))
			}, nil, nil); reach {
				why += fmt.Sprintf(" after ReadFull #%d failed a buffer can still be returned without error;", i+1)
			}
			if i == 1 {
				// body: io.EOF must not be passed through unchanged
				passes := false
				eofTested := false
				for _, b2 := range fn.Blocks {
					if i2 := ifOf(b2); i2 != nil {
						if bo2, ok := i2.Cond.(*ssa.BinOp); ok && bo2.X == ev && isGlobalLoad(bo2.Y, "io", "EOF") {
							eofTested = true
						}
					}
				}
				pathTo(Loc{b.Succs[k], -1}, func(x ssa.Instruction) bool {
					if ret, ok := x.(*ssa.Return); ok && retValue(ret, 1) == ev {
						passes = true
					}
					return false
				}, nil, nil)
				if passes && !eofTested {
					why += " an io.EOF from the body read (stream ends right after a length prefix) is returned unchanged: bam.Reader.Read reports a clean end of data in the middle of a record;"
				}
			}
		}
		if !tested {
			why += fmt.Sprintf(" the error of ReadFull #%d is never tested;", i+1)
		}
	}
	r.Check(why == "", rule, "bam.newBuffer#length-prefix", c.Pos(fn.Pos()), "both reads' errors returned; io.EOF inside a record converted to an unexpected-EOF error", why)
}

func init() {
	bamLatch := []latchCfg{{pkg: "bam", fn: "(*Reader).Read", typ: "buffer", fld: "err"}}
	register(&PropDef{
		ID: "C10", Title: "Truncated or corrupted streams are never read as different valid data", Level: "other",
		Rules: []RuleDef{
			{Name: "PATH-READFULL", What: "the member body is fetched by io.ReadFull of exactly BSIZE+1 minus the header bytes consumed, and the read's error is returned", Floor: 2, Run: ruleReadFull},
			{Name: "PATH-NEED", What: "readMember: remainder 0 → io.EOF, negative → ErrCorrupt, no BC subfield → ErrNoBlockSize; no size a conforming member can have is rejected", Floor: 1, Run: ruleNeed},
			{Name: "PATH-EOFDRAIN", What: "readToEOF returns nil only after io.EOF from the gzip reader (CRC32/ISIZE verified by compress/gzip); its error is returned by block.readFrom", Floor: 1, Run: ruleEOFDrain},
			{Name: "GZ-MULTISTREAM", What: "no function of package bgzf switches the gzip reader's multistream mode off (who-may-call, expected 0; canary keeps the rule alive)", Floor: 40, Run: ruleMultistream("bgzf"),
				Canary: func(cc *Ctx, r *Rep) { ruleMultistream("gzc")(cc, r, "quick") }, WantFail: []string{"gzc.Bad#multistream"}, WantPassMin: 1},
			{Name: "PATH-BAMLEN", What: "bam.newBuffer returns the errors of both reads; io.EOF inside a record is not a clean end", Floor: 1, Run: ruleBamLen},
			{Name: "READ-FILLS", What: "Reader.Read comes back short, or with io.EOF, only where the recorded error says so: a member that merely looks like the end (its header equal to the marker's after one altered byte) does not end the stream before it was inflated and checked (shared with C01, C02; here since sixteenth-round seed C10-r)", Floor: 2, Run: ruleReadFills},
			{Name: "ERR-CLEAR", What: "Reader.Read and ReadByte set Reader.err to nil only where it last took the error of the current block's own Read/ReadByte (the io.EOF of a used-up block): a failure of nextBlock – a damaged or cut member – is never cleared, so it is reported and stays (added after sixteenth-round seed C10-q)", Floor: 2, Run: ruleErrClear},
			{Name: "MARKER-ONCE", What: "only Writer.Close emits the EOF marker constant: a prefix cut at a block boundary before it has HasEOF false (shared with C08)", Floor: 1, Run: ruleMarkerOnce},
			{Name: "EOF-MID-HEADER", What: "sam.(*Header).DecodeBinary: the io.EOF of a read after the magic number is never returned unchanged – a BAM stream cut at a block boundary inside its header is not a clean end", Floor: 4, Run: ruleEOFMidHeader},
			{Name: "MEMBER-ACCEPT", What: "bgzf nextBlockAt starts the decompression of every member readMember read without error: no return in between (shared with C01; added after eighth-round seed C01-j)", Floor: 1, Run: ruleMemberAccept},
			{Name: "ITER-ERR", What: "bam.Iterator's error is assigned by Next only (and when the Iterator is made): Close reports what stopped the iteration (added after eighth-round seed C10-j: Close overwrote it with SetChunk(nil)'s nil)", Floor: 2, Run: ruleIterErr},
			{Name: "ERR-MERGER", What: "bam.Merger: every source's read error is tested, returned or kept, and Read returns a kept error before anything else – a damaged source is not an exhausted one (shared with C18; under C10 since eighth-round seed C10-i)", Floor: 4, Run: ruleErrMerger},
			{Name: "LEN-EXACT", What: "bam.newBuffer hands the decoder a buffer of exactly block_size bytes and the count read is compared with it: a body cut short (also at a BGZF block boundary, where the stream ends cleanly) is never returned as a record (shared with C05; under C10 since a fourth-round seed)", Floor: 3, Run: ruleLenExact},
			{Name: "ERR-LATCH", What: "bam.Reader.Read consults the record buffer's sticky error before returning a record", Floor: 1, Run: ruleStickyErr(bamLatch)},
			{Name: "ERR-1", What: "no error returned by a call in bgzf or bam is dropped (exemptions named with their reason)", Floor: 60, Run: ruleNoDroppedError([]string{"bgzf", "bam"}, errExempt)},
			{Name: "PATH-HASEOF", What: "HasEOF reads the last len(magicBlock) bytes and compares them with magicBlock; a stream shorter than the marker is answered false without a read at a negative offset, and io.EOF with a full count from ReadAt is a successful read", Floor: 3, Run: func(c *Ctx, r *Rep, tier string) { ruleHasEOF(c, r, tier); ruleHasEOFEdges(c, r, tier) }},
			{Name: "ERR-EDGE", What: "in bgzf and bam, once an error is known non-nil every path returns it (or a wrap / another error / after an explicit io.EOF classification); no sentinel other than io.EOF is converted into success", Floor: 40, Run: ruleErrEdge([]string{"bgzf", "bam"})},
		},
		Explanation: "The places where a cut or altered stream is detected, decided on every path: the member body is read with io.ReadFull of exactly the size BSIZE announces and a short read is an error (PATH-READFULL, PATH-NEED); a member is accepted only after the gzip reader reported io.EOF, i.e. after compress/gzip verified CRC32 and ISIZE, and oversize payloads are rejected (PATH-EOFDRAIN); the BAM length prefix: both reads' errors are returned, a stream that ends inside a record is not a clean end (PATH-BAMLEN) and a record shorter than its own fields is an error (ERR-LATCH); no I/O error in bgzf/bam is dropped (ERR-1); HasEOF compares exactly the trailing marker, does not ask for a negative offset and takes io.EOF with a full count for a read (PATH-HASEOF); the binary BAM header never passes on the io.EOF of a read after its magic number (EOF-MID-HEADER).",
		NotDecided:  "that a flipped byte is always caught (rests on CRC32 – trusted arithmetic), clean-end-only-at-boundaries as a value statement.",
		Assumptions: []string{"compress/gzip verifies CRC32 and ISIZE before returning io.EOF"},
	})
}

// errExempt: "function#callee" → reason, for ERR-1.
var errExempt = map[string]string{
	"bgzf.NewWriter#github.com/biogo/hts/bgzf.NewWriterLevel":           "the level passed is the constant gzip.DefaultCompression, the only error NewWriterLevel can return is for an invalid level",
	"bam.NewWriterLevel#(*github.com/biogo/hts/bgzf.Writer).Flush":      "Flush's error is latched in the writer and returned by the Wait that follows (PATH-BAMNEW checks that sequence)",
	"bam.NewReader#github.com/biogo/hts/sam.NewHeader":                  "NewHeader(nil, nil) has nothing to validate and cannot fail",
	"bam.(*Iterator).Close#(*github.com/biogo/hts/bam.Reader).SetChunk": "SetChunk(nil) only clears the chunk limit: no seek, no error",
}
