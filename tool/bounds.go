// Engine E4: decoder totality guards. A small lower-bound analysis over SSA
// values (constants, len, conversions, arithmetic, phis) refined by the
// comparisons that dominate the use, used to justify constant indexes, slice
// bounds and make() lengths.
package main

import (
	"fmt"
	"go/constant"
	"go/token"
	"go/types"
	"math"

	"golang.org/x/tools/go/ssa"
)

const negInf = math.MinInt64 / 4

type boundsCtx struct {
	c  *Ctx
	fn *ssa.Function
	// guard cache
	memo map[string]int64
}

func isLenCall(v ssa.Value) (ssa.Value, bool) {
	call, ok := v.(*ssa.Call)
	if !ok {
		return nil, false
	}
	if cc, ok := isBuiltinCall(call, "len"); ok {
		return cc.Args[0], true
	}
	return nil, false
}

// clobbered: between load a and load b of the same address, may the memory
// have been written?
func clobberedBetween(a, b *ssa.UnOp) bool {
	addr := a.X
	isClobber := func(ins ssa.Instruction) bool {
		switch x := ins.(type) {
		case *ssa.Store:
			return sameAddr(x.Addr, addr)
		case *ssa.Call:
			for _, arg := range x.Call.Args {
				if sameAddr(arg, addr) {
					return true
				}
			}
			// a call may modify the field through another pointer: only callees
			// that (transitively) assign that field clobber it
			if fa, isField := addr.(*ssa.FieldAddr); isField {
				if _, isB := x.Call.Value.(*ssa.Builtin); !isB && storeSummary != nil {
					fv := fieldVarOfAddr(fa)
					for _, g := range storeSummary.c.resolveCallees(&x.Call) {
						if storeSummary.mayStore(g)[fv] {
							return true
						}
					}
				}
			}
		}
		return false
	}
	// the fact established at a is about a's last execution before b: only a
	// clobbering instruction that can run after a (without b in between) and
	// from which b is reached without running a again matters
	isA := func(x ssa.Instruction) bool { return x == ssa.Instruction(a) }
	isB := func(x ssa.Instruction) bool { return x == ssa.Instruction(b) }
	clob := false
	allInstrs(a.Parent(), func(ins ssa.Instruction) {
		if clob || !isClobber(ins) {
			return
		}
		is := func(x ssa.Instruction) bool { return x == ins }
		if _, there := pathTo(locOf(a), is, isB, nil); !there {
			return
		}
		if _, back := pathTo(locOf(ins), isB, isA, nil); back {
			clob = true
		}
	})
	return clob
}

func sameAddr(a, b ssa.Value) bool {
	if a == b {
		return true
	}
	fa, ok1 := a.(*ssa.FieldAddr)
	fb, ok2 := b.(*ssa.FieldAddr)
	if ok1 && ok2 && fa.Field == fb.Field {
		return sameAddr(fa.X, fb.X) || sameExpr(fa.X, fb.X, 0)
	}
	return false
}

// sameExpr: structural equality of pure expressions.
func sameExpr(a, b ssa.Value, depth int) bool {
	if a == b {
		return true
	}
	if depth > 6 || a == nil || b == nil {
		return false
	}
	switch x := a.(type) {
	case *ssa.Const:
		y, ok := b.(*ssa.Const)
		return ok && x.Value != nil && y.Value != nil && constant.Compare(x.Value, token.EQL, y.Value) && types.Identical(x.Type(), y.Type())
	case *ssa.Call:
		y, ok := b.(*ssa.Call)
		if !ok {
			return false
		}
		if ax, isLen := isLenCall(x); isLen {
			if ay, isLen2 := isLenCall(y); isLen2 {
				return sameExpr(ax, ay, depth+1)
			}
		}
		return false
	case *ssa.BinOp:
		y, ok := b.(*ssa.BinOp)
		return ok && x.Op == y.Op && sameExpr(x.X, y.X, depth+1) && sameExpr(x.Y, y.Y, depth+1)
	case *ssa.Convert:
		y, ok := b.(*ssa.Convert)
		return ok && types.Identical(x.Type(), y.Type()) && sameExpr(x.X, y.X, depth+1)
	case *ssa.ChangeType:
		y, ok := b.(*ssa.ChangeType)
		return ok && sameExpr(x.X, y.X, depth+1)
	case *ssa.UnOp:
		y, ok := b.(*ssa.UnOp)
		if !ok || x.Op != y.Op {
			return false
		}
		if x.Op == token.MUL {
			if !sameAddr(x.X, y.X) {
				return false
			}
			// loads of the same location: equal if not clobbered in between (either order)
			if instrDominates(x, y) {
				return !clobberedBetween(x, y)
			}
			if instrDominates(y, x) {
				return !clobberedBetween(y, x)
			}
			return false
		}
		return sameExpr(x.X, y.X, depth+1)
	case *ssa.Extract:
		y, ok := b.(*ssa.Extract)
		return ok && x.Index == y.Index && x.Tuple == y.Tuple
	case *ssa.Slice:
		y, ok := b.(*ssa.Slice)
		if !ok {
			return false
		}
		eq := func(p, q ssa.Value) bool {
			return (p == nil && q == nil) || (p != nil && q != nil && sameExpr(p, q, depth+1))
		}
		return sameExpr(x.X, y.X, depth+1) && eq(x.Low, y.Low) && eq(x.High, y.High)
	case *ssa.FieldAddr:
		return sameAddr(a, b)
	}
	return false
}

// guardLB: the best lower bound for expression e at block `at` implied by the
// comparisons with constants that dominate it. isLen: e stands for len(e).
func (bc *boundsCtx) guardLB(e ssa.Value, isLen bool, at *ssa.BasicBlock, useIns ssa.Instruction) (int64, bool) {
	best := int64(negInf)
	found := false
	fn := bc.fn
	for _, b := range fn.Blocks {
		i := ifOf(b)
		if i == nil || !b.Dominates(at) {
			continue
		}
		bo, ok := i.Cond.(*ssa.BinOp)
		if !ok {
			continue
		}
		x, y, op := bo.X, bo.Y, bo.Op
		// relational form: i < len(e) (or len(e) > i) with i ≥ k  ⇒  len(e) ≥ k+1
		if isLen {
			var idx ssa.Value
			if arg, isL := isLenCall(y); isL && op == token.LSS && sameExpr(arg, e, 0) {
				idx = x
			} else if arg, isL := isLenCall(x); isL && op == token.GTR && sameExpr(arg, e, 0) {
				idx = y
			}
			if idx != nil && b.Succs[0] != b.Succs[1] && dominatedByEdge(fn, b, 0, at) {
				if _, isC := idx.(*ssa.Const); !isC {
					if l := bc.lowerBound0(idx, b, 3); l >= 0 && l+1 > best {
						best, found = l+1, true
					}
				}
			}
		}
		// e compared with a length (which is ≥ 0):  e > len(_) ⇒ e ≥ 1;  e ≥ len(_), e == len(_) ⇒ e ≥ 0
		if !isLen && sameExpr(x, e, 0) {
			if _, isL := isLenCall(y); isL && b.Succs[0] != b.Succs[1] && dominatedByEdge(fn, b, 0, at) {
				switch op {
				case token.GTR:
					if 1 > best {
						best, found = 1, true
					}
				case token.GEQ, token.EQL:
					if 0 > best {
						best, found = 0, true
					}
				}
			}
		}
		cx, xIsC := constInt(x)
		cy, yIsC := constInt(y)
		if xIsC && !yIsC {
			// c op e  →  e op' c
			x, cy, yIsC = y, cx, true
			switch op {
			case token.LSS:
				op = token.GTR
			case token.GTR:
				op = token.LSS
			case token.LEQ:
				op = token.GEQ
			case token.GEQ:
				op = token.LEQ
			}
		}
		if !yIsC {
			continue
		}
		match := false
		if isLen {
			if arg, isL := isLenCall(x); isL && sameExpr(arg, e, 0) {
				match = true
			}
		} else if sameExpr(x, e, 0) {
			match = true
		}
		if !match {
			continue
		}
		// which edge dominates `at`?
		for k := 0; k < 2; k++ {
			if b.Succs[0] == b.Succs[1] {
				continue
			}
			dom := dominatedByEdge(fn, b, k, at)
			if !dom && b == at {
				continue
			}
			if !dom {
				continue
			}
			taken := k == 0 // condition true
			var lb int64 = negInf
			switch op {
			case token.LSS: // e < c
				if !taken {
					lb = cy
				}
			case token.LEQ:
				if !taken {
					lb = cy + 1
				}
			case token.GTR:
				if taken {
					lb = cy + 1
				}
			case token.GEQ:
				if taken {
					lb = cy
				}
			case token.EQL:
				if taken {
					lb = cy
				}
			case token.NEQ:
				if !taken {
					lb = cy
				}
			}
			if lb > best {
				best, found = lb, true
			}
		}
	}
	return best, found
}

// lowerBound of an integer value at the block of its use.
func (bc *boundsCtx) lowerBound(v ssa.Value, at *ssa.BasicBlock, depth int) int64 {
	lb := bc.lowerBound0(v, at, depth)
	if g, ok := bc.guardLB(v, false, at, nil); ok && g > lb {
		lb = g
	}
	// x == lb excluded on a dominating edge  →  lb + 1
	if lb > negInf && bc.excludesVal(v, false, at, lb) {
		lb++
	}
	return lb
}

func (bc *boundsCtx) excludesZero(e ssa.Value, isLen bool, at *ssa.BasicBlock) bool {
	return bc.excludesVal(e, isLen, at, 0)
}

func (bc *boundsCtx) excludesVal(e ssa.Value, isLen bool, at *ssa.BasicBlock, val int64) bool {
	fn := bc.fn
	for _, b := range fn.Blocks {
		i := ifOf(b)
		if i == nil || !b.Dominates(at) {
			continue
		}
		bo, ok := i.Cond.(*ssa.BinOp)
		if !ok || (bo.Op != token.EQL && bo.Op != token.NEQ) {
			continue
		}
		k, isK := constInt(bo.Y)
		if !isK || k != val {
			continue
		}
		match := false
		if isLen {
			if arg, isL := isLenCall(bo.X); isL && sameExpr(arg, e, 0) {
				match = true
			}
		} else {
			match = sameExpr(bo.X, e, 0)
		}
		if !match {
			continue
		}
		edge := 1 // e == 0 false edge
		if bo.Op == token.NEQ {
			edge = 0
		}
		if b.Succs[0] != b.Succs[1] && dominatedByEdge(fn, b, edge, at) {
			return true
		}
	}
	return false
}

func (bc *boundsCtx) lowerBound0(v ssa.Value, at *ssa.BasicBlock, depth int) int64 {
	if depth > 8 {
		return negInf
	}
	switch x := v.(type) {
	case *ssa.Const:
		if k, ok := constInt(x); ok {
			return k
		}
	case *ssa.Call:
		if arg, ok := isLenCall(x); ok {
			return bc.lenLB(arg, at, depth+1)
		}
		if _, ok := isBuiltinCall(x, "cap"); ok {
			return 0
		}
		switch calleeFullName(&x.Call) {
		case "encoding/hex.DecodedLen", "encoding/hex.EncodedLen", "bytes.Count", "strings.Count":
			return 0
		case "bytes.IndexByte", "bytes.Index", "strings.IndexByte", "strings.Index", "bytes.IndexAny", "strings.IndexAny", "bytes.LastIndexByte":
			return -1 // library contract
		}
		if g := staticCallee(&x.Call); g != nil && g.Blocks != nil && depth < 4 && g.Signature.Results().Len() == 1 {
			// minimum over the callee's returns of values that are parameters → caller's args
			best := int64(math.MaxInt64)
			okAll := true
			allInstrs(g, func(ins ssa.Instruction) {
				ret, ok := ins.(*ssa.Return)
				if !ok {
					return
				}
				rv := ret.Results[0]
				var lb int64 = negInf
				if pi := paramIndex(g, rv); pi >= 0 && pi < len(x.Call.Args) {
					lb = bc.lowerBound(x.Call.Args[pi], at, depth+1)
				} else if k, isK := constInt(rv); isK {
					lb = k
				} else {
					okAll = false
				}
				if lb < best {
					best = lb
				}
			})
			if okAll && best != math.MaxInt64 {
				return best
			}
		}
	case *ssa.Convert:
		from, ok := x.X.Type().Underlying().(*types.Basic)
		to, ok2 := x.Type().Underlying().(*types.Basic)
		if ok && ok2 && from.Info()&types.IsInteger != 0 && to.Info()&types.IsInteger != 0 {
			fw, fs, _ := basicWidth(from)
			tw, ts, _ := basicWidth(to)
			if !fs && (tw > fw || !ts) {
				return 0 // zero extension of an unsigned value / unsigned target
			}
			if !ts {
				return 0
			}
			if fs && tw >= fw {
				return bc.lowerBound(x.X, at, depth+1)
			}
			if !fs && tw == fw && ts {
				return negInf // reinterpretation uintN → intN
			}
		}
	case *ssa.BinOp:
		switch x.Op {
		case token.ADD:
			a, b := bc.lowerBound(x.X, at, depth+1), bc.lowerBound(x.Y, at, depth+1)
			if a > negInf && b > negInf {
				return a + b
			}
		case token.SUB:
			if k, ok := constInt(x.Y); ok {
				if a := bc.lowerBound(x.X, at, depth+1); a > negInf {
					return a - k
				}
			}
		case token.MUL:
			a, b := bc.lowerBound(x.X, at, depth+1), bc.lowerBound(x.Y, at, depth+1)
			if a >= 0 && b >= 0 {
				return a * b
			}
		case token.QUO, token.SHR:
			if a := bc.lowerBound(x.X, at, depth+1); a >= 0 {
				if x.Op == token.SHR || bc.lowerBound(x.Y, at, depth+1) > 0 {
					return 0
				}
			}
		case token.REM:
			if a := bc.lowerBound(x.X, at, depth+1); a >= 0 {
				return 0
			}
		case token.AND:
			if k, ok := constInt(x.Y); ok && k >= 0 {
				return 0
			}
			if k, ok := constInt(x.X); ok && k >= 0 {
				return 0
			}
		case token.SHL, token.OR:
			a := bc.lowerBound(x.X, at, depth+1)
			if a >= 0 && (x.Op == token.SHL || bc.lowerBound(x.Y, at, depth+1) >= 0) {
				return 0 // ignoring overflow
			}
		}
	case *ssa.Phi:
		best := int64(math.MaxInt64)
		for i, e := range x.Edges {
			if e == v {
				continue
			}
			pred := x.Block().Preds[i]
			lb := bc.lowerBound(e, pred, depth+2)
			// refinement on the incoming edge itself
			if pi := ifOf(pred); pi != nil && pred.Succs[0] != pred.Succs[1] {
				if bo, ok := pi.Cond.(*ssa.BinOp); ok {
					if c, isC := constInt(bo.Y); isC && sameExpr(bo.X, e, 0) {
						taken := pred.Succs[0] == x.Block()
						el := int64(negInf)
						switch bo.Op {
						case token.LSS:
							if !taken {
								el = c
							}
						case token.LEQ:
							if !taken {
								el = c + 1
							}
						case token.GTR:
							if taken {
								el = c + 1
							}
						case token.GEQ:
							if taken {
								el = c
							}
						case token.EQL:
							if taken {
								el = c
							}
						}
						if el > lb {
							lb = el
						}
					}
				}
			}
			// a loop-carried increment keeps the bound of the initial value
			if bo, ok := e.(*ssa.BinOp); ok && bo.Op == token.ADD && bo.X == v {
				if k, isK := constInt(bo.Y); isK && k >= 0 {
					continue
				}
			}
			if lb < best {
				best = lb
			}
		}
		if best != math.MaxInt64 {
			return best
		}
	case *ssa.ChangeType:
		return bc.lowerBound(x.X, at, depth+1)
	case *ssa.Parameter:
		// an unexported function's parameter: the minimum over all call sites
		fn := x.Parent()
		if fn != nil && fn.Parent() == nil && fn.Object() != nil && !fn.Object().Exported() && depth < 5 {
			pi := -1
			for i, p := range fn.Params {
				if p == x {
					pi = i
				}
			}
			best := int64(math.MaxInt64)
			for _, g := range boundsScope(bc.c) {
				gbc := &boundsCtx{c: bc.c, fn: g}
				allInstrs(g, func(ins ssa.Instruction) {
					cc := callCommon(ins)
					if cc == nil || staticCallee(cc) != fn || cc.IsInvoke() || pi >= len(cc.Args) {
						return
					}
					if g == fn {
						return // recursive call: bound carried by the other sites
					}
					if l := gbc.lowerBound(cc.Args[pi], ins.Block(), depth+2); l < best {
						best = l
					}
				})
			}
			if best != math.MaxInt64 && best > negInf {
				return best
			}
		}
	}
	if b, ok := v.Type().Underlying().(*types.Basic); ok && b.Info()&types.IsUnsigned != 0 {
		return 0
	}
	return negInf
}

// lenLB: lower bound of len(s) at block `at`.
func (bc *boundsCtx) lenLB(s ssa.Value, at *ssa.BasicBlock, depth int) int64 {
	lb := bc.lenLB0(s, at, depth)
	if g, ok := bc.guardLB(s, true, at, nil); ok && g > lb {
		lb = g
	}
	if lb == 0 && bc.excludesZero(s, true, at) {
		lb = 1
	}
	return lb
}

func (bc *boundsCtx) lenLB0(s ssa.Value, at *ssa.BasicBlock, depth int) int64 {
	if depth > 8 {
		return 0
	}
	switch x := s.(type) {
	case *ssa.Const:
		if str, ok := constStringOf(x); ok {
			return int64(len(str))
		}
	case *ssa.Slice:
		lo := int64(0)
		if x.Low != nil {
			k, ok := constInt(x.Low)
			if !ok {
				// s[i:] with variable i: len ≥ 0 only
				if x.High != nil {
					return 0
				}
				return 0
			}
			lo = k
		}
		if x.High != nil {
			if k, ok := constInt(x.High); ok {
				return k - lo
			}
			if h := bc.lowerBound(x.High, at, depth+1); h > negInf && h-lo >= 0 {
				return h - lo
			}
			return 0
		}
		base := bc.containerLen(x.X, at, depth+1)
		if base-lo > 0 {
			return base - lo
		}
		return 0
	case *ssa.MakeSlice:
		if l := bc.lowerBound(x.Len, at, depth+1); l > 0 {
			return l
		}
	case *ssa.Convert: // []byte(string) / string([]byte)
		return bc.lenLB(x.X, at, depth+1)
	case *ssa.ChangeType:
		return bc.lenLB(x.X, at, depth+1)
	case *ssa.Call:
		switch calleeFullName(&x.Call) {
		case "bytes.Split", "strings.Split", "bytes.SplitN", "strings.SplitN":
			return 1 // library contract: at least one element for a non-empty separator
		}
	case *ssa.Extract:
		// library contract: (*bufio.Reader).Peek(k) returns k bytes when its error is nil
		if call, ok := x.Tuple.(*ssa.Call); ok && x.Index == 0 && calleeFullName(&call.Call) == "(*bufio.Reader).Peek" {
			if k, isK := constInt(call.Call.Args[1]); isK && errNilDominates(bc.fn, call, 1, at) {
				return k
			}
		}
		// (*bufio.Reader).ReadBytes(d) with a nil error returns data ending in d
		if call, ok := x.Tuple.(*ssa.Call); ok && x.Index == 0 {
			switch calleeFullName(&call.Call) {
			case "(*bufio.Reader).ReadBytes", "(*bufio.Reader).ReadSlice", "(*bufio.Reader).ReadString":
				if errNilDominates(bc.fn, call, 1, at) {
					return 1
				}
			}
		}
	case *ssa.Phi:
		best := int64(math.MaxInt64)
		for i, e := range x.Edges {
			if e == s {
				continue
			}
			if l := bc.lenLB(e, x.Block().Preds[i], depth+2); l < best {
				best = l
			}
		}
		if best != math.MaxInt64 {
			return best
		}
	}
	return 0
}

// containerLen: length of the thing being sliced (slice, string, or pointer to array).
func (bc *boundsCtx) containerLen(x ssa.Value, at *ssa.BasicBlock, depth int) int64 {
	if pt, ok := x.Type().Underlying().(*types.Pointer); ok {
		if a, ok := pt.Elem().Underlying().(*types.Array); ok {
			return a.Len()
		}
	}
	return bc.lenLB(x, at, depth)
}

// ---- rules -------------------------------------------------------------------------------

// boundsScope: functions of the module's library packages (not the paper examples).
func boundsScope(c *Ctx) []*ssa.Function {
	var out []*ssa.Function
	for _, f := range c.SrcFuncs() {
		p := c.PkgOf(f)
		if p == nil {
			continue
		}
		rel := p.PkgPath[len(c.Mod):]
		if len(rel) >= 6 && rel[:6] == "/paper" {
			continue
		}
		out = append(out, f)
	}
	return out
}

func ruleIdxConst(trusted map[string]string) func(c *Ctx, r *Rep, tier string) {
	return func(c *Ctx, r *Rep, tier string) {
		rule := "IDX-CONST"
		initStoreSummary(c)
		for _, fn := range boundsScope(c) {
			bc := &boundsCtx{c: c, fn: fn}
			allInstrs(fn, func(ins ssa.Instruction) {
				var cont ssa.Value
				var need int64 = -1 // required minimal length
				what := ""
				switch x := ins.(type) {
				case *ssa.IndexAddr:
					cont = x.X
					if k, ok := constInt(x.Index); ok {
						need, what = k+1, fmt.Sprintf("[%d]", k)
					} else if bo, ok := x.Index.(*ssa.BinOp); ok && bo.Op == token.SUB {
						if arg, isL := isLenCall(bo.X); isL && sameExpr(arg, x.X, 0) {
							if k, ok := constInt(bo.Y); ok {
								need, what = k, fmt.Sprintf("[len-%d]", k)
							}
						} else if isL {
							// len(other)-k used to index this container: the index is
							// negative unless the other sequence has k elements (the
							// upper side is not decided here)
							if k, ok := constInt(bo.Y); ok && k > 0 {
								cont, need, what = arg, k, fmt.Sprintf("[len(%s)-%d]", symKey(arg), k)
							}
						}
					}
				case *ssa.Index:
					cont = x.X
					if k, ok := constInt(x.Index); ok {
						need, what = k+1, fmt.Sprintf("[%d]", k)
					}
				case *ssa.Lookup:
					if b, ok := x.X.Type().Underlying().(*types.Basic); ok && b.Info()&types.IsString != 0 {
						cont = x.X
						if k, ok := constInt(x.Index); ok {
							need, what = k+1, fmt.Sprintf("[%d]", k)
						}
					}
				case *ssa.Slice:
					cont = x.X
					var hi, lo int64 = -1, -1
					if x.High != nil {
						if k, ok := constInt(x.High); ok {
							hi = k
						}
					}
					if x.Low != nil {
						if k, ok := constInt(x.Low); ok {
							lo = k
						}
					}
					switch {
					case hi >= 0:
						need, what = hi, fmt.Sprintf("[:%d]", hi)
					case lo > 0 && x.High == nil:
						need, what = lo, fmt.Sprintf("[%d:]", lo)
					}
					if x.High != nil && hi < 0 {
						if bo, ok := x.High.(*ssa.BinOp); ok && bo.Op == token.SUB {
							if arg, isL := isLenCall(bo.X); isL && sameExpr(arg, x.X, 0) {
								if k, ok := constInt(bo.Y); ok && k > lo {
									need, what = k, fmt.Sprintf("[:len-%d]", k)
								}
							}
						}
					}
				}
				if cont == nil || need <= 0 {
					return
				}
				// arrays (and pointers to arrays) with a constant in range are checked by the compiler
				switch t := cont.Type().Underlying().(type) {
				case *types.Array:
					return
				case *types.Pointer:
					if a, ok := t.Elem().Underlying().(*types.Array); ok {
						if need <= a.Len() {
							return
						}
					}
				case *types.Map:
					return
				}
				if k, ok := cont.(*ssa.Const); ok {
					if s, isS := constStringOf(k); isS && int64(len(s)) >= need {
						return
					}
				}
				r.Instance(rule, 1)
				key := fmt.Sprintf("%s#%s", c.FnName(fn), what)
				pos := c.Pos(ins.Pos())
				have := bc.containerLen(cont, ins.Block(), 0)
				if have >= need {
					r.Pass(rule, key, pos, fmt.Sprintf("len ≥ %d established (construction or dominating comparison)", have))
					return
				}
				if why, ok := trusted["IDX-CONST|"+c.FnName(fn)]; ok {
					r.Trusted(rule, 1)
					r.Pass(rule, key, pos, "assumed invariant: "+why)
					return
				}
				r.Fail(rule, key, pos, fmt.Sprintf("%s needs len ≥ %d but only len ≥ %d is established on every path to it (no dominating length test, no construction fact): input shorter than that makes the decoder panic", what, need, have))
			})
		}
	}
}

func ruleMakeSign(c *Ctx, r *Rep, tier string) {
	rule := "MAKE-SIGN"
	initStoreSummary(c)
	for _, fn := range boundsScope(c) {
		bc := &boundsCtx{c: c, fn: fn}
		allInstrs(fn, func(ins ssa.Instruction) {
			mk, ok := ins.(*ssa.MakeSlice)
			if !ok {
				return
			}
			for vi, v := range []ssa.Value{mk.Len, mk.Cap} {
				if _, isC := v.(*ssa.Const); isC {
					continue
				}
				if vi == 1 && mk.Cap == mk.Len {
					continue
				}
				r.Instance(rule, 1)
				key := c.FnName(fn) + "#make"
				lb := bc.lowerBound(v, mk.Block(), 0)
				if lb >= 0 {
					r.Pass(rule, key, c.Pos(mk.Pos()), "length ≥ 0 on every path")
					continue
				}
				if why, ok := idxTrusted["MAKE-SIGN|"+c.FnName(fn)]; ok {
					r.Trusted(rule, 1)
					r.Pass(rule, key, c.Pos(mk.Pos()), "assumed invariant: "+why)
					continue
				}
				// parameter: look at the call sites
				if pi := paramIndex(fn, stripConv(v)); pi >= 0 && fn.Object() != nil && !fn.Object().Exported() {
					allOK, n := true, 0
					for _, g := range boundsScope(c) {
						gbc := &boundsCtx{c: c, fn: g}
						allInstrs(g, func(x ssa.Instruction) {
							if call, ok := x.(*ssa.Call); ok && staticCallee(&call.Call) == fn && pi < len(call.Call.Args) {
								n++
								if gbc.lowerBound(call.Call.Args[pi], call.Block(), 0) < 0 {
									allOK = false
								}
							}
						})
					}
					if allOK && n > 0 {
						r.Pass(rule, key, c.Pos(mk.Pos()), fmt.Sprintf("parameter; ≥ 0 at all %d call sites", n))
						continue
					}
				}
				r.Fail(rule, key, c.Pos(mk.Pos()), "make with a length that may be negative (a signed count taken from the input, not guarded by a sign test on every path): a negative count makes the decoder panic")
			}
		})
	}
}

func stripConv(v ssa.Value) ssa.Value {
	for {
		switch x := v.(type) {
		case *ssa.Convert:
			v = x.X
		case *ssa.ChangeType:
			v = x.X
		default:
			return v
		}
	}
}
