// C14: cache implementations honour the Cache contract (structural part):
// lock discipline, hand-over on Get, capacity and refusal on Put.
package main

import (
	"go/types"
	"sort"

	"golang.org/x/tools/go/ssa"
)

var hts_cacheCfg = cacheCfg{implPkg: "bgzf/cache", ifacePkg: "bgzf", ifaceName: "Cache"}

// guardedTable: which mutex guards which fields (every access site was read;
// frozen). type → mutex field → guarded fields.
var guardedTable = map[string]map[string]map[string][]string{
	"bgzf/cache": {
		"LRU":           {"mu": {"root", "table", "cap"}},
		"FIFO":          {"mu": {"root", "table", "cap"}},
		"Random":        {"mu": {"table", "cap"}},
		"StatsRecorder": {"mu": {"stats"}},
	},
	"bgzf": {
		"Reader": {"mu": {"cache"}},
		"Writer": {"m": {"err"}},
	},
}

func buildLockCfg(c *Ctx, pkgs ...string) lockCfg {
	cfg := lockCfg{pkgs: pkgs, guarded: map[*types.Var][]*types.Var{}, exempt: map[string]string{}}
	for _, p := range pkgs {
		for typ, ms := range guardedTable[p] {
			for m, fs := range ms {
				mv := c.Field(p, typ, m)
				for _, f := range fs {
					cfg.guarded[mv] = append(cfg.guarded[mv], c.Field(p, typ, f))
				}
			}
		}
	}
	cfg.exempt["bgzf.(*Writer).Close#err"] = "Close reads/writes err after wg.Wait(): the only other writer (the emitting goroutine) has finished"
	return cfg
}

// cacheOps: the exported operations of the cache implementations.
func cacheOps(c *Ctx, impls []cacheImpl) []*ssa.Function {
	var out []*ssa.Function
	for _, ci := range impls {
		n := ci.named.Obj().Name()
		for _, m := range []string{"Get", "Put", "Peek", "Len", "Cap", "Resize", "Drop", "Stats", "Reset"} {
			if f := c.FuncOpt("bgzf/cache", "(*"+n+")."+m); f != nil && f.Blocks != nil && f.Synthetic == "" {
				out = append(out, f)
			}
		}
	}
	sort.Slice(out, func(i, j int) bool { return out[i].Pos() < out[j].Pos() })
	return out
}

func init() {
	var la *lockAnalysis
	var laCtx *Ctx
	get := func(c *Ctx) *lockAnalysis {
		if la == nil || laCtx != c {
			la = newLockAnalysis(c, []string{"bgzf/cache"})
			laCtx = c
		}
		return la
	}
	register(&PropDef{
		ID: "C14", Title: "cache implementations honour the Cache contract", Level: "other",
		Rules: []RuleDef{
			{Name: "LOCK-1", What: "no call made with a mutex held reaches an acquisition of the same mutex on the same object (sync mutexes are not re-entrant): Resize/Drop/… always return", Floor: 2,
				Run:    func(c *Ctx, r *Rep, tier string) { get(c).ruleNoReacquire(r, "LOCK-1") },
				Canary: func(cc *Ctx, r *Rep) { newLockAnalysis(cc, []string{"lockc"}).ruleNoReacquire(r, "LOCK-1") }, WantFail: []string{"lockc.(*Bad).Drop#call:lockc.(*Bad).drop", "lockc.(*Bad).drop#call:lockc.(*Bad).LockedLen"}, WantPassMin: 1},
			{Name: "LOCK-2", What: "every access to a guarded field happens with the guarding mutex held (W for writes) on all paths", Floor: 60,
				Run: func(c *Ctx, r *Rep, tier string) { get(c).ruleGuarded(r, "LOCK-2", buildLockCfg(c, "bgzf/cache")) },
				Canary: func(cc *Ctx, r *Rep) {
					cfg := lockCfg{guarded: map[*types.Var][]*types.Var{
						cc.Field("lockc", "Bad", "mu"):  {cc.Field("lockc", "Bad", "table"), cc.Field("lockc", "Bad", "n")},
						cc.Field("lockc", "Good", "mu"): {cc.Field("lockc", "Good", "table"), cc.Field("lockc", "Good", "n")},
					}}
					newLockAnalysis(cc, []string{"lockc"}).ruleGuarded(r, "LOCK-2", cfg)
				}, WantFail: []string{"lockc.(*Bad).Len#table:read", "lockc.(*Bad).Set#table:write", "lockc.(*Bad).Early#n:read"}, WantPassMin: 4},
			{Name: "LOCK-6", What: "values obtained from guarded fields (table entries, nodes, their blocks) are dereferenced only while the mutex is held", Floor: 40,
				Run: func(c *Ctx, r *Rep, tier string) { get(c).ruleDerived(r, "LOCK-6", buildLockCfg(c, "bgzf/cache")) },
				Canary: func(cc *Ctx, r *Rep) {
					cfg := lockCfg{guarded: map[*types.Var][]*types.Var{
						cc.Field("lockc", "Bad", "mu"):  {cc.Field("lockc", "Bad", "table"), cc.Field("lockc", "Bad", "n"), cc.Field("lockc", "Bad", "nodes")},
						cc.Field("lockc", "Good", "mu"): {cc.Field("lockc", "Good", "table"), cc.Field("lockc", "Good", "n")},
					}}
					newLockAnalysis(cc, []string{"lockc"}).ruleDerived(r, "LOCK-6", cfg)
				}, WantFail: []string{"lockc.(*Bad).PeekLate#derived:field read through", "lockc.(*Bad).Len#derived:call with"}, WantPassMin: 2},
			{Name: "LOCK-3", What: "every acquisition is released (directly or by defer) on every path to a return", Floor: 25,
				Run:    func(c *Ctx, r *Rep, tier string) { get(c).ruleReleaseOnExit(r, "LOCK-3") },
				Canary: func(cc *Ctx, r *Rep) { newLockAnalysis(cc, []string{"lockc"}).ruleReleaseOnExit(r, "LOCK-3") }, WantFail: []string{"lockc.(*Bad).Leak#mu.Lock"}, WantPassMin: 4},
			{Name: "LOCK-5", What: "each cache operation takes its mutex in exactly one critical section (structural sufficient condition for atomicity, with LOCK-2)", Floor: 25,
				Run: func(c *Ctx, r *Rep, tier string) {
					get(c).ruleSingleSection(r, "LOCK-5", cacheOps(c, discoverCaches(c, hts_cacheCfg)))
				},
				Canary: func(cc *Ctx, r *Rep) {
					newLockAnalysis(cc, []string{"lockc"}).ruleSingleSection(r, "LOCK-5", []*ssa.Function{cc.Func("lockc", "(*Bad).Twice"), cc.Func("lockc", "(*Good).Len")})
				}, WantFail: []string{"lockc.(*Bad).Twice#critical-section"}, WantPassMin: 1},
			{Name: "OWN-2", What: "Get hands ownership over: a block returned from the table has its entry deleted on every path (sibling cross-check over all Cache implementations)", Floor: 4,
				Run: func(c *Ctx, r *Rep, tier string) { ruleGetHandsOver(c, r, "OWN-2", discoverCaches(c, hts_cacheCfg)) },
				Canary: func(cc *Ctx, r *Rep) {
					ruleGetHandsOver(cc, r, "OWN-2", discoverCaches(cc, cacheCfg{"cachec", "cachec", "Cache"}))
				}, WantFail: []string{"Sticky.Get#hand-over"}, WantPassMin: 2},
			{Name: "CACHE-PUT-CAP", What: "Put inserts only with room left (len(table) compared with the capacity) or after an eviction", Floor: 4,
				Run: func(c *Ctx, r *Rep, tier string) {
					rulePutCapacity(c, r, "CACHE-PUT-CAP", "CACHE-PUT-REFUSE", discoverCaches(c, hts_cacheCfg))
				},
				Canary: func(cc *Ctx, r *Rep) {
					rulePutCapacity(cc, r, "CACHE-PUT-CAP", "CACHE-PUT-REFUSE", discoverCaches(cc, cacheCfg{"cachec", "cachec", "Cache"}))
				}, WantFail: []string{"Over.Put#insert-bounded", "Over.Put#refuse-unused-when-full", "Greedy.Put#refuse-unused-when-full"}, WantPassMin: 3},
			{Name: "CACHE-PUT-REFUSE", What: "with the table full, an unused block is handed back as (b,false) without eviction or insertion", Floor: 3,
				Run: func(c *Ctx, r *Rep, tier string) {}},
			{Name: "EVICT-MATCH", What: "the block Put reports as evicted is the block whose entry that Put removed (same map iteration / the b of the removed node) (added after a blind second seed round)", Floor: 4, Run: ruleEvictMatch},
			{Name: "DROP-COUNT", What: "drop(n): every removal is executed only while the remaining count is ≥ 1 (guard edge or loop invariant) and is counted (added after seed C14-b had been declared out of reach)", Floor: 4, Run: ruleDropCount},
			{Name: "GET-LOADS-FIRST", What: "the block a cache's Get returns is read from its node before any store to the node's block field, also one inside a helper (remove): Peek and Get agree on what the cache holds (added after sixteenth-round seed C14-r)", Floor: 3, Run: ruleGetLoadsFirst},
			{Name: "ATOMIC-COMPOSE", What: "a function of the package that works on a shared cache through the Cache interface performs at most one operation on it per path – Free makes room inside the cache's own critical section; only a foreign implementation, which offers no lock to hold, is driven through Cap/Len/Drop (added after the third defect hunt: Free was three operations)", Floor: 7, Run: ruleAtomicCompose},
			{Name: "FREE-COUNT", What: "each cache's free(n), inside its critical section, hands drop the missing slots n − (cap − len(table)) and answers cap − len(table) ≥ n with the length read after the eviction (\"Free … leave[s] the stated … free slots\")", Floor: 6, Run: ruleFreeCount},
			{Name: "RESIZE-COUNT", What: "each cache's Resize hands drop the excess len(table) − n (added after eighth-round seed C14-j: cap − n drops blocks that are not in excess)", Floor: 3, Run: ruleResizeCount},
		},
		Explanation: "LOCK-1/3 decide, on every path of every function of bgzf/cache, that no operation re-acquires a held mutex (Resize, Drop, Free's callees return) and that every acquisition is released; LOCK-2 that each access to table/root/cap/stats is inside the mutex (write lock for mutation), which with LOCK-5 (one critical section per operation) is the structural sufficient condition for each operation taking effect atomically under any schedule; OWN-2 that every implementation's Get removes what it returns (a Get that leaves the mapping lets Get/Peek answer a base whose buffer the reader has recycled); CACHE-PUT-CAP/REFUSE that Put cannot exceed the capacity and refuses unused blocks when full; ATOMIC-COMPOSE that Free – a function of the package, not a method – performs one operation on a provided cache (it dispatches to the cache's own critical section; three calls only for a foreign implementation) and FREE-COUNT that this critical section evicts the missing slots and answers from the table as it is afterwards; DROP-COUNT/RESIZE-COUNT the counts Drop and Resize act on.",
		NotDecided:  "eviction policy (which block is chosen), linearizability as a property of histories (LOCK-5/ATOMIC-COMPOSE give one critical section per operation, the structural sufficient condition), Free on a foreign Cache implementation (three calls, inherent: the interface offers no lock).",
		Assumptions: []string{"guarded-field table in c14.go (read from the code, frozen)", "a mutex is identified by (base pointer, field); locks reached through other aliases are not tracked"},
	})
}
