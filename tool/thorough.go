// Thorough tier extras: mutant self-test of the rules. The outcome is evidence
// about the checker (which rule kills which seeded change), never part of the
// verdict on /repo.
package main

import (
	"bytes"
	"fmt"
	"os"
	"os/exec"
	"path/filepath"
	"sort"
	"strings"
	"sync"
)

type mutantResult struct {
	Patch    string `json:"patch"`
	Outcome  string `json:"outcome"` // killed | missed | skipped
	Expected string `json:"expected,omitempty"`
	Reported string `json:"reported,omitempty"`
}

// copyTree copies the .go files, go.mod and go.sum of src to dst (no VCS data,
// no test data): what the analyser needs to load a variant.
func copyTree(src, dst string) error {
	return filepath.Walk(src, func(p string, fi os.FileInfo, err error) error {
		if err != nil {
			return err
		}
		rel, _ := filepath.Rel(src, p)
		if fi.IsDir() {
			if fi.Name() == ".git" || fi.Name() == "testdata" {
				return filepath.SkipDir
			}
			return os.MkdirAll(filepath.Join(dst, rel), 0o755)
		}
		n := fi.Name()
		if !(strings.HasSuffix(n, ".go") && !strings.HasSuffix(n, "_test.go")) && n != "go.mod" && n != "go.sum" {
			return nil
		}
		b, err := os.ReadFile(p)
		if err != nil {
			return err
		}
		return os.WriteFile(filepath.Join(dst, rel), b, 0o644)
	})
}

// thoroughExtras runs the mutant corpus of the property (mutants/<id>/*.patch
// and seeded/*/patch.diff whose meta names the property).
func thoroughExtras(root string, p *PropDef, o runOpts) map[string]any {
	var patches []string
	m1, _ := filepath.Glob(filepath.Join(root, "mutants", p.ID, "*.patch"))
	patches = append(patches, m1...)
	m2, _ := filepath.Glob(filepath.Join(root, "seeded", p.ID+"-*", "patch.diff"))
	patches = append(patches, m2...)
	sort.Strings(patches)
	if len(patches) == 0 {
		return map[string]any{"mutants_run": 0}
	}
	exe, err := os.Executable()
	if err != nil {
		return map[string]any{"mutants_error": err.Error()}
	}
	results := make([]mutantResult, len(patches))
	sem := make(chan struct{}, 4)
	var wg sync.WaitGroup
	for i, pf := range patches {
		wg.Add(1)
		go func(i int, pf string) {
			defer wg.Done()
			sem <- struct{}{}
			defer func() { <-sem }()
			results[i] = runMutant(exe, root, o.repo, p.ID, pf)
		}(i, pf)
	}
	wg.Wait()
	killed, missed, skipped, silent, falseAlarm := 0, 0, 0, 0, 0
	for _, r := range results {
		switch r.Outcome {
		case "killed":
			killed++
		case "missed":
			missed++
		case "silent":
			silent++
		case "false-alarm":
			falseAlarm++
		default:
			skipped++
		}
	}
	ren := renameInvariance(exe, root, o.repo, p.ID)
	fmt.Printf("   rename invariance (every local, parameter and receiver renamed): %s\n", ren)
	mir := variantInvariance(exe, root, o.repo, p.ID, func(src, dst string) (int, error) { return mirrorComparisons(src, dst) }, "comparisons mirrored")
	fmt.Printf("   mirror invariance (a < b written b > a wherever neither side is a constant or a call): %s\n", mir)
	com := variantInvariance(exe, root, o.repo, p.ID, func(src, dst string) (int, error) { return commuteArithmetic(src, dst) }, "operations commuted")
	fmt.Printf("   commute invariance (operands of integer + * | & ^ exchanged wherever neither contains a call): %s\n", com)
	inv := variantInvariance(exe, root, o.repo, p.ID, func(src, dst string) (int, error) { return invertIfElse(src, dst) }, "if/else statements inverted")
	fmt.Printf("   invert invariance (if c {A} else {B} written if !c {B} else {A}): %s\n", inv)
	regSummary, regResults := fixRegression(exe, root, o.repo, p.ID)
	fmt.Printf("   regression self-test (the tree before each recorded repair, from /repo's history): %s\n", regSummary)
	for _, rr := range regResults {
		if rr.Outcome != "redetected" {
			fmt.Printf("     %s: %s~1 (rules named: %s) %s\n", rr.Outcome, rr.Commit, rr.Rules, rr.Reported)
		}
	}
	fmt.Printf("   mutant self-test: %d patches: %d killed, %d missed, %d skipped; behaviour-preserving variants: %d silent, %d false alarms (not part of the verdict)\n", len(patches), killed, missed, skipped, silent, falseAlarm)
	for _, r := range results {
		if r.Outcome != "killed" && r.Outcome != "silent" {
			fmt.Printf("     %s: %s %s\n", r.Outcome, r.Patch, r.Reported)
		}
	}
	return map[string]any{"mutants_run": len(patches), "mutants_killed": killed, "mutants_missed": missed, "mutants_skipped": skipped,
		"benign_variants_silent": silent, "benign_variants_false_alarm": falseAlarm, "mutants": results, "rename_invariance": ren, "mirror_invariance": mir, "commute_invariance": com, "invert_invariance": inv, "fix_regression": regSummary, "fix_regression_results": regResults}
}

func runMutant(exe, root, repo, prop, patch string) mutantResult {
	rel, _ := filepath.Rel(root, patch)
	res := mutantResult{Patch: rel}
	dir, err := os.MkdirTemp("", "htsverif-mut-")
	if err != nil {
		res.Outcome = "skipped"
		res.Reported = err.Error()
		return res
	}
	defer os.RemoveAll(dir)
	if err := copyTree(repo, dir); err != nil {
		res.Outcome = "skipped"
		res.Reported = err.Error()
		return res
	}
	cmd := exec.Command("patch", "-p1", "-s", "--no-backup-if-mismatch", "-i", patch)
	cmd.Dir = dir
	if out, err := cmd.CombinedOutput(); err != nil {
		res.Outcome = "skipped"
		res.Reported = "patch does not apply: " + firstLine(string(out))
		return res
	}
	an := exec.Command(exe, "analyse-variant", prop, dir)
	an.Env = append(os.Environ(), "VERIF_ROOT="+root)
	var buf bytes.Buffer
	an.Stdout = &buf
	an.Stderr = &buf
	err = an.Run()
	out := buf.String()
	var rep []string
	for _, ln := range strings.Split(out, "\n") {
		if strings.HasPrefix(ln, "NEWFAIL ") {
			rep = append(rep, strings.TrimPrefix(ln, "NEWFAIL "))
		}
	}
	res.Reported = strings.Join(rep, "; ")
	if pb, e := os.ReadFile(patch); e == nil {
		for _, ln := range strings.Split(string(pb), "\n") {
			if strings.HasPrefix(ln, "# expect:") {
				res.Expected = strings.TrimSpace(strings.TrimPrefix(ln, "# expect:"))
			}
		}
	}
	if res.Expected == "NONE" {
		// behaviour-preserving variant: the rules must stay silent
		switch {
		case err == nil:
			res.Outcome = "silent"
		case len(rep) > 0:
			res.Outcome = "false-alarm"
		default:
			res.Outcome = "skipped"
			res.Reported = "analysis error: " + firstLine(out)
		}
		return res
	}
	if err != nil && len(rep) > 0 {
		res.Outcome = "killed"
	} else if err == nil {
		res.Outcome = "missed"
	} else {
		res.Outcome = "skipped"
		res.Reported = "analysis error: " + firstLine(out)
	}
	return res
}

func firstLine(s string) string {
	s = strings.TrimSpace(s)
	if i := strings.IndexByte(s, '\n'); i >= 0 {
		return s[:i]
	}
	return s
}

// cmdAnalyseVariant analyses a patched copy of the tree for one property and
// prints the failed obligations that are not known findings. Exit 1 if any.
func cmdAnalyseVariant(args []string) int {
	if len(args) != 2 {
		usage()
	}
	p := registry[args[0]]
	if p == nil {
		return 2
	}
	root := verifRoot()
	c, err := Load(args[1], repoMod, p.Deep)
	if err != nil {
		fmt.Println("LOADERR", err)
		return 3
	}
	r := runRules(p, c, "quick")
	known, _, _ := loadKnown(filepath.Join(root, "known_findings.txt"))
	n := 0
	for _, ob := range r.Obls {
		if ob.OK {
			continue
		}
		isKnown := false
		for _, k := range known {
			if k.Prop == p.ID && k.Rule == ob.Rule && k.Key == ob.Key {
				isKnown = true
			}
		}
		if !isKnown {
			n++
			fmt.Printf("NEWFAIL %s %s @%s\n", ob.Rule, ob.Key, ob.Pos)
		}
	}
	if n > 0 {
		return 1
	}
	return 0
}

// renameInvariance analyses a copy of the tree in which every function-level
// variable has another name; the rules must report nothing new on it.
func renameInvariance(exe, root, repo, prop string) string {
	return variantInvariance(exe, root, repo, prop, func(src, dst string) (int, error) { return renameLocals(src, dst, "Q") }, "identifiers renamed")
}

// variantInvariance: rewrite a copy of the tree with a behaviour-preserving
// transformation and analyse it; nothing new may be reported.
func variantInvariance(exe, root, repo, prop string, rewrite func(src, dst string) (int, error), what string) string {
	dir, err := os.MkdirTemp("", "htsverif-inv-")
	if err != nil {
		return "skipped: " + err.Error()
	}
	defer os.RemoveAll(dir)
	if err := copyTree(repo, dir); err != nil {
		return "skipped: " + err.Error()
	}
	n, err := rewrite(repo, dir)
	if err != nil {
		return "skipped: " + firstLine(err.Error())
	}
	an := exec.Command(exe, "analyse-variant", prop, dir)
	an.Env = append(os.Environ(), "VERIF_ROOT="+root)
	var buf bytes.Buffer
	an.Stdout = &buf
	an.Stderr = &buf
	err = an.Run()
	var rep []string
	for _, ln := range strings.Split(buf.String(), "\n") {
		if strings.HasPrefix(ln, "NEWFAIL ") {
			rep = append(rep, strings.TrimPrefix(ln, "NEWFAIL "))
		}
	}
	switch {
	case err == nil:
		return fmt.Sprintf("silent (%d %s, same verdict)", n, what)
	case len(rep) > 0:
		return "FALSE ALARM on the rewritten copy: " + strings.Join(rep, "; ")
	}
	return "skipped: analysis error: " + firstLine(buf.String())
}
