// Rules written after the ninth seed round.
//
//	FLUSH-CUTS      (C08, C12) bgzf.Writer.Flush returns "nothing to do" only for
//	                an empty block: whether a block is cut does not depend on how
//	                far the emitter has got, so the bytes do not depend on wc.
//	FIELD-NEVER-SET (C08, C09) an error field that some function reads is assigned
//	                a non-nil value somewhere: a latch that nothing sets any more
//	                (the error moved elsewhere, one reader was left behind) reads
//	                as "no error" for ever.
//	INTERVAL-LIMIT  (C04, C15) a bound on the linear index's length in
//	                readIntervals admits all 2^29/16384 tiles.
//	SORTED-SETTER   (C04, C15) an index's sorted flag is set to true only in a
//	                function that sorts the bins by number (itself or through its
//	                callees) – Chunks' binary search relies on it.
//	BIN-ARG-END     (C16, C04) csi.Add hands reg2bin the exclusive end of the
//	                record: End(), not the last base.
//	LEN-SPAN        (C16) Record.Len is End() − Start().
package main

import (
	"fmt"
	"go/constant"
	"go/token"
	"go/types"
	"strings"

	"golang.org/x/tools/go/ssa"
)

// ---- FLUSH-CUTS -----------------------------------------------------------------------

func ruleFlushCuts(c *Ctx, r *Rep, tier string) {
	rule := "FLUSH-CUTS"
	fn := c.Func("bgzf", "(*Writer).Flush")
	nextF := c.Field("bgzf", "compressor", "next")
	n := 0
	allInstrs(fn, func(ins ssa.Instruction) {
		ret, ok := ins.(*ssa.Return)
		if !ok || len(ret.Results) != 1 || !isNilConst(retValue(ret, 0)) {
			return
		}
		n++
		r.Instance(rule, 1)
		key := fmt.Sprintf("bgzf.(*Writer).Flush#nothing-to-do~%d", n)
		shown := false
		for _, b := range fn.Blocks {
			iff := ifOf(b)
			if iff == nil || b.Succs[0] == b.Succs[1] {
				continue
			}
			bo, ok := iff.Cond.(*ssa.BinOp)
			if !ok {
				continue
			}
			if f, _ := loadedField(bo.X); f != nextF {
				continue
			}
			k, isK := constInt(bo.Y)
			if !isK {
				continue
			}
			edge := -1
			switch {
			case bo.Op == token.EQL && k == 0, bo.Op == token.LEQ && k == 0, bo.Op == token.LSS && k == 1:
				edge = 0
			case bo.Op == token.NEQ && k == 0, bo.Op == token.GTR && k == 0, bo.Op == token.GEQ && k == 1:
				edge = 1
			}
			if edge >= 0 && dominatedByEdge(fn, b, edge, ret.Block()) {
				shown = true
			}
		}
		r.Check(shown, rule, key, c.Pos(ret.Pos()), "only when the active block is empty", fmt.Sprintf("Flush answers nil at %s without having cut the block, and not because the block is empty: whether data written before a Flush starts a member of its own then depends on something else – the length of the queue, say, which depends on the number of compressors and on the destination's speed – and the same write script gives different bytes for different wc", c.Pos(ret.Pos())))
	})
	if n == 0 {
		r.Instance(rule, 1)
		r.Fail(rule, "bgzf.(*Writer).Flush#nothing-to-do", c.Pos(fn.Pos()), "no `return nil` found in Flush (one confirmed by reading, for the empty block): the rule's anchor moved")
	}
}

// ---- FIELD-NEVER-SET ------------------------------------------------------------------

func ruleFieldNeverSet(pkgs []string) func(c *Ctx, r *Rep, tier string) {
	return func(c *Ctx, r *Rep, tier string) {
		rule := "FIELD-NEVER-SET"
		errT := types.Universe.Lookup("error").Type()
		type info struct {
			reads, sets int
			readAt      string
			owner       string
		}
		fields := map[*types.Var]*info{}
		get := func(v *types.Var, owner string) *info {
			if fields[v] == nil {
				fields[v] = &info{owner: owner}
			}
			return fields[v]
		}
		for _, pkg := range pkgs {
			for _, fn := range c.FuncsIn(pkg) {
				for _, f := range withAnon(fn) {
					f := f
					allInstrs(f, func(ins ssa.Instruction) {
						switch x := ins.(type) {
						case *ssa.UnOp:
							if x.Op != token.MUL {
								return
							}
							fa, ok := x.X.(*ssa.FieldAddr)
							if !ok {
								return
							}
							fv := fieldVarOfAddr(fa)
							if fv == nil || !types.Identical(fv.Type(), errT) {
								return
							}
							in := get(fv, ownerName(fa))
							in.reads++
							if in.readAt == "" {
								in.readAt = c.Pos(x.Pos())
							}
						case *ssa.Store:
							fa, ok := x.Addr.(*ssa.FieldAddr)
							if !ok {
								return
							}
							fv := fieldVarOfAddr(fa)
							if fv == nil || !types.Identical(fv.Type(), errT) {
								return
							}
							in := get(fv, ownerName(fa))
							if !isNilConst(x.Val) {
								in.sets++
							}
						}
					})
				}
			}
		}
		n := 0
		var keys []string
		byKey := map[string]*info{}
		for fv, in := range fields {
			if in.reads == 0 {
				continue
			}
			k := in.owner + "." + fv.Name()
			keys = append(keys, k)
			byKey[k] = in
		}
		sortStrings(keys)
		for _, k := range keys {
			in := byKey[k]
			n++
			r.Instance(rule, 1)
			r.Check(in.sets > 0, rule, k+"#set-somewhere", in.readAt, fmt.Sprintf("read %d times, assigned a value %d times", in.reads, in.sets), fmt.Sprintf("the error field %s is read (%s) and no function assigns it anything but nil: whoever reads it sees \"no error\" for ever – when the error was moved to another place and this reader was left behind, a failed write no longer stops Close from appending the EOF marker and answering nil", k, in.readAt))
		}
		if n < 3 {
			r.Instance(rule, 1)
			r.Fail(rule, "error-fields", "-", fmt.Sprintf("only %d error fields that are read found in %v (at least 3 confirmed by reading): the rule's anchor moved", n, pkgs))
		}
	}
}

func ownerName(fa *ssa.FieldAddr) string {
	t := fa.X.Type()
	if p, ok := t.Underlying().(*types.Pointer); ok {
		t = p.Elem()
	}
	if n, ok := t.(*types.Named); ok {
		pk := ""
		if n.Obj().Pkg() != nil {
			parts := strings.Split(n.Obj().Pkg().Path(), "/")
			pk = parts[len(parts)-1] + "."
		}
		return pk + n.Obj().Name()
	}
	return t.String()
}

func sortStrings(s []string) {
	for i := 1; i < len(s); i++ {
		for j := i; j > 0 && s[j] < s[j-1]; j-- {
			s[j], s[j-1] = s[j-1], s[j]
		}
	}
}

// ---- LATCH-ONE ------------------------------------------------------------------------
//
// The error bgzf.Writer.Close looks at before it appends the EOF marker is the
// one setErr records: the field Close tests against nil is a field setErr
// stores its argument in (or Close asks Error()).
func ruleLatchOne(c *Ctx, r *Rep, tier string) {
	rule := "LATCH-ONE"
	closeFn := c.Func("bgzf", "(*Writer).Close")
	setErr := c.Func("bgzf", "(*Writer).setErr")
	errorFn := c.Func("bgzf", "(*Writer).Error")
	errT := types.Universe.Lookup("error").Type()
	r.Instance(rule, 1)
	key := "bgzf.(*Writer).Close#marker-guard"
	// fields setErr stores its argument in
	recorded := map[*types.Var]bool{}
	allInstrs(setErr, func(ins ssa.Instruction) {
		st, ok := ins.(*ssa.Store)
		if !ok || len(setErr.Params) < 2 || st.Val != ssa.Value(setErr.Params[1]) {
			return
		}
		if fa, ok := st.Addr.(*ssa.FieldAddr); ok && origin(fa.X) == ssa.Value(setErr.Params[0]) {
			recorded[fieldVarOfAddr(fa)] = true
		}
	})
	// the marker write: the last write to the underlying writer in Close
	var marker ssa.Instruction
	allInstrs(closeFn, func(ins ssa.Instruction) {
		call, ok := ins.(*ssa.Call)
		if ok && call.Call.IsInvoke() && call.Call.Method.Name() == "Write" {
			marker = ins
		}
	})
	why := ""
	switch {
	case marker == nil:
		why = "no write of the EOF marker found in Close: the rule's anchor moved (undecided)"
	default:
		guarded := false
		for _, b := range closeFn.Blocks {
			ce, ok := classifyErrIf(b, func(v ssa.Value) bool { return types.Identical(v.Type(), errT) })
			if !ok || !ce.isNil || b.Succs[0] == b.Succs[1] || !dominatedByEdge(closeFn, b, ce.yes, marker.Block()) {
				continue
			}
			bo := ifOf(b).Cond.(*ssa.BinOp)
			v := bo.X
			if isNilConst(v) {
				v = bo.Y
			}
			if f, _ := loadedField(v); f != nil {
				if recorded[f] {
					guarded = true
				} else if why == "" {
					why = fmt.Sprintf("Close writes the EOF marker when the field %s is nil (%s), and setErr – where the compressors and the emitter record a failed write – does not store into that field: after a lost block Close appends the marker and answers nil, and HasEOF says the stream is complete", f.Name(), c.Pos(bo.Pos()))
				}
			}
			if call, ok := v.(*ssa.Call); ok && staticCallee(&call.Call) == errorFn {
				guarded = true
			}
		}
		if guarded {
			why = ""
		} else if why == "" {
			why = "the write of the EOF marker in Close is not behind a test of the writer's error state: a stream with a lost block is marked complete"
		}
	}
	r.Check(why == "", rule, key, c.Pos(closeFn.Pos()), "the marker is written only when the state setErr records is nil", why)
}

// ---- INTERVAL-LIMIT -------------------------------------------------------------------

func ruleIntervalLimit(c *Ctx, r *Rep, tier string) {
	rule := "INTERVAL-LIMIT"
	fn := c.Func("internal", "readIntervals")
	r.Instance(rule, 1)
	key := "internal.readIntervals#tile-count"
	bits, _ := constant.Int64Val(pkgConst(c, "internal", "indexWordBits"))
	tw, _ := constant.Int64Val(pkgConst(c, "internal", "TileWidth"))
	if bits == 0 || tw == 0 {
		r.Fail(rule, key, c.Pos(fn.Pos()), "indexWordBits / TileWidth not found (undecided)")
		return
	}
	tiles := (int64(1) << uint(bits)) / tw
	// the count: what the make of the result is sized with
	var count ssa.Value
	allInstrs(fn, func(ins ssa.Instruction) {
		if mk, ok := ins.(*ssa.MakeSlice); ok && count == nil {
			count = stripConv(mk.Len)
		}
	})
	if count == nil {
		r.Fail(rule, key, c.Pos(fn.Pos()), "no make of the linear index found in readIntervals (undecided)")
		return
	}
	why, seen := "", 0
	for _, b := range fn.Blocks {
		iff := ifOf(b)
		if iff == nil {
			continue
		}
		bo, ok := iff.Cond.(*ssa.BinOp)
		if !ok || !(stripConv(bo.X) == count || sameExpr(stripConv(bo.X), count, 0)) {
			continue
		}
		k, isK := constInt(bo.Y)
		if !isK {
			continue
		}
		// the largest count that is let through
		max := int64(-1)
		switch bo.Op {
		case token.GTR:
			max = k
		case token.GEQ:
			max = k - 1
		case token.LEQ, token.LSS:
			if bo.Op == token.LSS {
				k--
			}
			max = k
		}
		if max < 0 || k <= 0 {
			continue // the sign test
		}
		seen++
		if max < tiles {
			why = fmt.Sprintf("the reader lets at most %d tiles through (test at %s); a reference that reaches the last 16 KiB below 2^%d has %d, and Add builds – and the writer writes – a linear index of that length: the index is written and then refused (invalid interval count)", max, c.Pos(iff.Pos()), bits, tiles)
		}
	}
	how := "no upper bound on the count"
	if seen > 0 {
		how = fmt.Sprintf("the bound admits all %d tiles", tiles)
	}
	r.Check(why == "", rule, key, c.Pos(fn.Pos()), how, why)
}

// ---- SORTED-SETTER --------------------------------------------------------------------

func ruleSortedSetter(c *Ctx, r *Rep, tier string) {
	rule := "SORTED-SETTER"
	n := 0
	for _, site := range [][3]string{{"internal", "Index", "IsSorted"}, {"csi", "Index", "isSorted"}} {
		flag := c.Field(site[0], site[1], site[2])
		// does f sort bins by number, itself or through module callees?
		memo := map[*ssa.Function]int{}
		var sortsBins func(f *ssa.Function, depth int) bool
		sortsBins = func(f *ssa.Function, depth int) bool {
			if f == nil || len(f.Blocks) == 0 || depth > 3 {
				return false
			}
			if v, ok := memo[f]; ok {
				return v == 1
			}
			memo[f] = 0
			found := false
			for _, g := range withAnon(f) {
				allInstrs(g, func(ins ssa.Instruction) {
					cc := callCommon(ins)
					if cc == nil || found {
						return
					}
					if calleeFullName(cc) == "sort.Sort" && len(cc.Args) == 1 {
						if mi, ok := cc.Args[0].(*ssa.MakeInterface); ok && strings.Contains(strings.ToLower(mi.X.Type().String()), "bybinnumber") {
							found = true
							return
						}
					}
					if h := staticCallee(cc); h != nil && h.Pkg != nil && modulePrefix(h) == modulePrefix(f) && sortsBins(h, depth+1) {
						found = true
					}
				})
			}
			if found {
				memo[f] = 1
			}
			return found
		}
		for _, pkg := range []string{"internal", "csi", "bam", "tabix"} {
			for _, fn := range c.FuncsIn(pkg) {
				for _, f := range withAnon(fn) {
					f := f
					allInstrs(f, func(ins ssa.Instruction) {
						st, ok := ins.(*ssa.Store)
						if !ok {
							return
						}
						fa, ok := st.Addr.(*ssa.FieldAddr)
						if !ok || fieldVarOfAddr(fa) != flag {
							return
						}
						k, isK := st.Val.(*ssa.Const)
						if !isK || k.Value == nil || k.Value.String() != "true" {
							return
						}
						n++
						r.Instance(rule, 1)
						key := fmt.Sprintf("%s#sets-%s", c.FnName(f), site[2])
						r.Check(sortsBins(rootFn(f), 0), rule, key, c.Pos(st.Pos()), "in a function that sorts the bins by number", fmt.Sprintf("%s marks the index sorted at %s and does not sort the bins by number (neither itself nor through what it calls): Chunks skips sort() on the strength of the flag and runs a binary search over bins that are still in first-seen order – records drop out of the answer", c.FnName(f), c.Pos(st.Pos())))
					})
				}
			}
		}
	}
	if n < 4 {
		r.Instance(rule, 1)
		r.Fail(rule, "index#sorted-flag-stores", "-", fmt.Sprintf("only %d stores of true to a sorted flag found (4 confirmed by reading: two sort methods, two readers): the rule's anchor moved", n))
	}
}

// ---- BIN-ARG-END ----------------------------------------------------------------------

func ruleBinArgEnd(c *Ctx, r *Rep, tier string) {
	rule := "BIN-ARG-END"
	fn := c.Func("csi", "(*Index).Add")
	r2b := c.Func("csi", "reg2bin")
	r.Instance(rule, 1)
	key := "csi.(*Index).Add#exclusive-end"
	var call *ssa.Call
	allInstrs(fn, func(ins ssa.Instruction) {
		if cl, ok := ins.(*ssa.Call); ok && staticCallee(&cl.Call) == r2b {
			call = cl
		}
	})
	if call == nil || len(call.Call.Args) < 2 {
		r.Fail(rule, key, c.Pos(fn.Pos()), "no call of reg2bin in csi Add: the rule's anchor moved (undecided)")
		return
	}
	// net offset from End() on every way: 0 wanted
	var offs func(v ssa.Value, depth int) (fromEnd bool, off int64, ok bool)
	offs = func(v ssa.Value, depth int) (bool, int64, bool) {
		if depth > 6 {
			return false, 0, false
		}
		switch x := v.(type) {
		case *ssa.Convert:
			return offs(x.X, depth+1)
		case *ssa.Call:
			if x.Call.IsInvoke() && x.Call.Method.Name() == "End" {
				return true, 0, true
			}
			return false, 0, true
		case *ssa.BinOp:
			if k, isK := constInt(x.Y); isK && (x.Op == token.ADD || x.Op == token.SUB) {
				e, o, ok := offs(x.X, depth+1)
				if x.Op == token.SUB {
					k = -k
				}
				return e, o + k, ok
			}
		case *ssa.Phi:
			anyEnd, off, first := false, int64(0), true
			for _, ed := range x.Edges {
				e, o, ok := offs(ed, depth+1)
				if !ok {
					return false, 0, false
				}
				if e {
					if !first && o != off {
						return true, 0, false
					}
					anyEnd, off, first = true, o, false
				}
			}
			return anyEnd, off, true
		}
		return false, 0, true
	}
	isEnd, off, ok := offs(call.Call.Args[1], 0)
	why := ""
	switch {
	case !ok:
		why = "the end handed to reg2bin is not End() at a fixed offset on every path (undecided)"
	case !isEnd:
		why = fmt.Sprintf("the end handed to reg2bin (%s) does not come from the record's End()", symKey(call.Call.Args[1]))
	case off != 0:
		why = fmt.Sprintf("reg2bin takes an exclusive end and is handed End()%+d: the record is filed as if it were a base shorter, so one whose last base is the first of a smallest-level bin lands in a bin that reg2bins does not list for a query on that base", off)
	}
	r.Check(why == "", rule, key, c.Pos(call.Pos()), "reg2bin(Start(), End(), …)", why)

	// an alignment that consumes no reference is one base long (reg2bin(pos,
	// pos+1)): the end has an alternative Start()+1 for End() ≤ Start()
	r.Instance(rule, 1)
	var startOff func(v ssa.Value, depth int) (found bool, off int64)
	startOff = func(v ssa.Value, depth int) (bool, int64) {
		if depth > 6 {
			return false, 0
		}
		switch x := v.(type) {
		case *ssa.Convert:
			return startOff(x.X, depth+1)
		case *ssa.Call:
			if x.Call.IsInvoke() && x.Call.Method.Name() == "Start" {
				return true, 0
			}
		case *ssa.BinOp:
			if k, isK := constInt(x.Y); isK && (x.Op == token.ADD || x.Op == token.SUB) {
				f, o := startOff(x.X, depth+1)
				if x.Op == token.SUB {
					k = -k
				}
				return f, o + k
			}
		case *ssa.Phi:
			for _, ed := range x.Edges {
				if f, o := startOff(ed, depth+1); f {
					return true, o
				}
			}
		}
		return false, 0
	}
	hasStart, so := startOff(call.Call.Args[1], 0)
	why = ""
	switch {
	case !hasStart:
		why = "the end handed to reg2bin is End() whatever it is: for a mapped record whose CIGAR consumes no reference End() is Start(), the interval is empty, and reg2bin files the record one level too high at every tile boundary (Pos 16384, 5S: bin 585 where the specification – reg2bin(pos, pos+1) – says 4682)"
	case so != 1:
		why = fmt.Sprintf("for a record without extent the end handed to reg2bin is Start()%+d, want Start()+1", so)
	}
	r.Check(why == "", rule, "csi.(*Index).Add#length-one", c.Pos(call.Pos()), "end = max(End(), Start()+1)", why)
}

// ---- LEN-SPAN -------------------------------------------------------------------------

func ruleLenSpan(c *Ctx, r *Rep, tier string) {
	rule := "LEN-SPAN"
	fn := c.Func("sam", "(*Record).Len")
	r.Instance(rule, 1)
	why := ""
	n := 0
	allInstrs(fn, func(ins ssa.Instruction) {
		ret, ok := ins.(*ssa.Return)
		if !ok || len(ret.Results) != 1 {
			return
		}
		n++
		k := symKey(retValue(ret, 0))
		if k != "($0.End()-$0.Start())" {
			why = fmt.Sprintf("Len returns %s, not End() − Start(): the two agree for the nine standard operations, but End moves back on the B extension and takes the rightmost position reached, which a sum of reference-consuming lengths does not (10M3B11M: 18, not 21)", k)
		}
	})
	if n == 0 {
		why = "no return in Record.Len (undecided)"
	}
	r.Check(why == "", rule, "sam.(*Record).Len#span", c.Pos(fn.Pos()), "End() − Start()", why)
}
