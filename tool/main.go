// htsverif – static checks of the biogo/hts properties C01…C20.
//
//	htsverif check <Cnn> [--tier quick|thorough]
//	htsverif replay <violation.json>
//	htsverif list
package main

import (
	"encoding/json"
	"fmt"
	"os"
	"path/filepath"
	"runtime/debug"
	"sort"
	"strconv"
	"strings"
	"time"
)

type RuleDef struct {
	Name string
	What string
	// Floor: minimum number of matched instances confirmed by hand on the pinned tree.
	Floor int
	Run   func(c *Ctx, r *Rep, tier string)
	// Canary runs the same engine code with an anchor configuration that points
	// at the canary module; WantFail lists exactly the keys that must be reported.
	Canary       func(cc *Ctx, r *Rep)
	WantFail     []string
	WantPassMin  int
	ThoroughOnly bool
}

type PropDef struct {
	ID          string
	Title       string
	Level       string
	Deep        bool // needs dependency syntax / whole-program call graph
	Rules       []RuleDef
	Explanation string
	NotDecided  string
	Assumptions []string
}

var registry = map[string]*PropDef{}

func register(p *PropDef) { registry[p.ID] = p }

func verifRoot() string {
	if v := os.Getenv("VERIF_ROOT"); v != "" {
		return v
	}
	if exe, err := os.Executable(); err == nil {
		d := filepath.Dir(filepath.Dir(exe))
		if _, err := os.Stat(filepath.Join(d, "properties.jsonl")); err == nil {
			return d
		}
	}
	return "/verif"
}

func repoDir() string {
	if v := os.Getenv("HTS_REPO"); v != "" {
		return v
	}
	return "/repo"
}

func main() {
	if len(os.Args) < 2 {
		usage()
	}
	switch os.Args[1] {
	case "check":
		os.Exit(cmdCheck(os.Args[2:]))
	case "replay":
		os.Exit(cmdReplay(os.Args[2:]))
	case "list":
		cmdList()
	case "manifest":
		cmdManifest()
	case "analyse-variant":
		os.Exit(cmdAnalyseVariant(os.Args[2:]))
	case "effects":
		os.Exit(cmdEffects(os.Args[2:]))
	case "rename-locals":
		os.Exit(cmdRenameLocals(os.Args[2:]))
	case "mirror-comparisons":
		os.Exit(cmdMirror(os.Args[2:]))
	case "commute-arithmetic":
		os.Exit(cmdCommute(os.Args[2:]))
	case "invert-if-else":
		os.Exit(cmdInvert(os.Args[2:]))
	case "fix-regression":
		// fix-regression <Cnn>…: the regression self-test of the thorough tier on its own
		exe, _ := os.Executable()
		repo := os.Getenv("HTS_REPO")
		if repo == "" {
			repo = "/repo"
		}
		bad := 0
		for _, id := range os.Args[2:] {
			sum, res := fixRegression(exe, verifRoot(), repo, id)
			fmt.Printf("%s: %s\n", id, sum)
			for _, r := range res {
				if r.Outcome != "redetected" {
					bad++
					fmt.Printf("  %s: %s~1 (rules named: %s) %s\n", r.Outcome, r.Commit, r.Rules, r.Reported)
				}
			}
		}
		if bad > 0 {
			os.Exit(1)
		}
	default:
		usage()
	}
}

func usage() {
	fmt.Fprintln(os.Stderr, "usage: htsverif check <Cnn> [--tier quick|thorough] | replay <file> | list")
	os.Exit(2)
}

func cmdList() {
	var ids []string
	for id := range registry {
		ids = append(ids, id)
	}
	sort.Strings(ids)
	for _, id := range ids {
		p := registry[id]
		fmt.Printf("%s  level=%s  %s\n", id, p.Level, p.Title)
		for _, r := range p.Rules {
			fmt.Printf("    %-22s floor=%-3d %s\n", r.Name, r.Floor, r.What)
		}
	}
}

type runOpts struct {
	prop     string
	tier     string
	repo     string
	noCanary bool
	quiet    bool
	evidence bool
}

func parseCheckArgs(args []string) runOpts {
	o := runOpts{tier: os.Getenv("VERIF_TIER"), repo: repoDir(), evidence: true}
	for i := 0; i < len(args); i++ {
		switch a := args[i]; {
		case a == "--tier" && i+1 < len(args):
			o.tier = args[i+1]
			i++
		case strings.HasPrefix(a, "--tier="):
			o.tier = strings.TrimPrefix(a, "--tier=")
		case a == "--repo" && i+1 < len(args):
			o.repo = args[i+1]
			i++
		case a == "--no-canary":
			o.noCanary = true
		case a == "--no-evidence":
			o.evidence = false
		case a == "--quiet":
			o.quiet = true
		case strings.HasPrefix(a, "-"):
			usage()
		default:
			o.prop = a
		}
	}
	if o.tier == "" {
		o.tier = "quick"
	}
	if o.tier != "quick" && o.tier != "thorough" {
		usage()
	}
	if registry[o.prop] == nil {
		fmt.Fprintf(os.Stderr, "unknown property %q\n", o.prop)
		os.Exit(2)
	}
	return o
}

// runRules runs all rules of a property on a loaded program.
func runRules(p *PropDef, c *Ctx, tier string) *Rep {
	r := NewRep(p.ID)
	for _, rd := range p.Rules {
		if rd.ThoroughOnly && tier != "thorough" {
			continue
		}
		r.Rule(rd.Name, rd.What, rd.Floor)
		safeRun(r, rd.Name, func() { rd.Run(c, r, tier) })
	}
	// instance floors
	for _, rd := range p.Rules {
		if rd.ThoroughOnly && tier != "thorough" {
			continue
		}
		s := r.stat(rd.Name)
		if s.Instances < s.Floor {
			r.Fail(rd.Name, "FLOOR", "-", fmt.Sprintf("rule matched %d instances, fewer than the %d confirmed by hand: the rule no longer sees the code it was written for (undecided)", s.Instances, s.Floor))
		}
	}
	return r
}

func safeRun(r *Rep, rule string, f func()) {
	defer func() {
		if e := recover(); e != nil {
			if ae, ok := e.(anchorErr); ok {
				r.Fail(rule, "UNDECIDED:anchor", "-", ae.Error()+" – the rule cannot be decided on this tree")
				return
			}
			r.Fail(rule, "UNDECIDED:panic", "-", fmt.Sprintf("analysis panicked: %v\n%s", e, debug.Stack()))
		}
	}()
	f()
}

func cmdCheck(args []string) int {
	o := parseCheckArgs(args)
	p := registry[o.prop]
	root := verifRoot()
	seed, _ := strconv.Atoi(os.Getenv("VERIF_SEED"))

	type loadRes struct {
		c   *Ctx
		err error
	}
	canCh := make(chan loadRes, 1)
	needCanary := false
	for _, rd := range p.Rules {
		if rd.Canary != nil {
			needCanary = true
		}
	}
	if needCanary && !o.noCanary {
		go func() {
			c, err := Load(filepath.Join(root, "tool", "testdata", "canary"), "canary", false)
			canCh <- loadRes{c, err}
		}()
	}
	c, err := Load(o.repo, repoMod, p.Deep)
	if err == nil && len(c.Pkgs) < minRepoPackages {
		err = fmt.Errorf("only %d packages of %s loaded, %d expected", len(c.Pkgs), repoMod, minRepoPackages)
	}
	if err != nil {
		// Nothing can be decided about a tree that does not load.
		fmt.Printf("UNDECIDED property=%s: %v\n", p.ID, err)
		rp := writeReplay(root, p.ID, 0, Obl{Rule: "LOAD", Key: "UNDECIDED:load", Detail: err.Error()})
		fmt.Printf("VIOLATION property=%s replay=%s\n", p.ID, rp)
		writeEvidence(root, p, o, seed, nil, nil, 1, []string{"load failed: " + err.Error()}, nil)
		return 1
	}
	r := runRules(p, c, o.tier)

	// canaries
	if needCanary && !o.noCanary {
		lr := <-canCh
		if lr.err != nil {
			r.Fail("CANARY", "UNDECIDED:canary-load", "-", lr.err.Error())
		} else {
			for _, rd := range p.Rules {
				if rd.Canary == nil || (rd.ThoroughOnly && o.tier != "thorough") {
					continue
				}
				cr := runCanary(rd, lr.c)
				r.Canaries = append(r.Canaries, cr)
				if !cr.OK {
					r.Fail(rd.Name, "CANARY", "-", "rule self-test failed: "+cr.Detail)
				}
			}
		}
	}

	// known findings
	known, fixed, err := loadKnown(filepath.Join(root, "known_findings.txt"))
	if err != nil {
		r.Fail("KNOWN", "UNDECIDED:known-findings", "-", err.Error())
	}
	_ = fixed
	var knownHit []string
	nviol := 0
	var viol []Obl
	for i := range r.Obls {
		ob := &r.Obls[i]
		if ob.OK {
			continue
		}
		for _, k := range known {
			if k.Prop == p.ID && k.Rule == ob.Rule && k.Key == ob.Key {
				ob.Known = true
				knownHit = append(knownHit, fmt.Sprintf("%s %s :: %s", ob.Rule, ob.Key, k.What))
				fmt.Printf("KNOWN-FINDING: property=%s rule=%s key=%s at %s :: %s\n", p.ID, ob.Rule, ob.Key, ob.Pos, k.What)
			}
		}
		if !ob.Known {
			viol = append(viol, *ob)
		}
	}
	// clean old replay files of this property
	old, _ := filepath.Glob(filepath.Join(root, "evidence", "replay", p.ID+"-*.json"))
	for _, f := range old {
		os.Remove(f)
	}
	for i, ob := range viol {
		nviol++
		fmt.Printf("FAIL %s %s at %s\n     %s\n", ob.Rule, ob.Key, ob.Pos, strings.ReplaceAll(ob.Detail, "\n", "\n     "))
		rp := writeReplay(root, p.ID, i, ob)
		fmt.Printf("VIOLATION property=%s replay=%s\n", p.ID, rp)
	}

	var extra map[string]any
	if o.tier == "thorough" {
		extra = thoroughExtras(root, p, o)
	}
	if !o.quiet {
		printSummary(p, r, c, o)
	}
	if o.evidence {
		if err := writeEvidence(root, p, o, seed, c, r, nviol, knownHit, extra); err != nil {
			fmt.Fprintln(os.Stderr, "evidence:", err)
			return 2
		}
	}
	if nviol > 0 {
		return 1
	}
	return 0
}

func runCanary(rd RuleDef, cc *Ctx) CanaryResult {
	cr := CanaryResult{Rule: rd.Name}
	rr := NewRep("canary")
	safeRun(rr, rd.Name, func() { rd.Canary(cc, rr) })
	got := map[string]bool{}
	for _, ob := range rr.Obls {
		if ob.OK {
			cr.GoodPass++
		} else {
			got[ob.Key] = true
			cr.Bad = append(cr.Bad, ob.Key)
		}
	}
	sort.Strings(cr.Bad)
	want := map[string]bool{}
	for _, k := range rd.WantFail {
		want[k] = true
	}
	var problems []string
	for k := range want {
		if !got[k] {
			problems = append(problems, "bad instance not reported: "+k)
		}
	}
	for k := range got {
		if !want[k] {
			problems = append(problems, "conforming instance reported: "+k)
		}
	}
	if cr.GoodPass < rd.WantPassMin {
		problems = append(problems, fmt.Sprintf("only %d conforming instances passed, want >= %d", cr.GoodPass, rd.WantPassMin))
	}
	sort.Strings(problems)
	cr.OK = len(problems) == 0
	cr.Detail = strings.Join(problems, "; ")
	return cr
}

func writeReplay(root, prop string, k int, ob Obl) string {
	path := filepath.Join(root, "evidence", "replay", fmt.Sprintf("%s-%d.json", prop, k))
	writeJSON(path, map[string]any{"property": prop, "rule": ob.Rule, "key": ob.Key, "pos": ob.Pos, "detail": ob.Detail})
	return path
}

func printSummary(p *PropDef, r *Rep, c *Ctx, o runOpts) {
	fmt.Printf("== %s (%s tier) on %s: %d packages, %d functions\n", p.ID, o.tier, c.Dir, len(c.Pkgs), len(c.SrcFuncs()))
	for _, name := range r.order {
		s := r.stats[name]
		fmt.Printf("   %-24s instances=%-4d floor=%-4d obligations=%-4d failed=%d\n", s.Rule, s.Instances, s.Floor, s.Obls, s.Failed)
	}
	for _, cr := range r.Canaries {
		st := "alive"
		if !cr.OK {
			st = "BROKEN: " + cr.Detail
		}
		fmt.Printf("   canary %-17s reported=%d passed=%d %s\n", cr.Rule, len(cr.Bad), cr.GoodPass, st)
	}
	for _, n := range r.Notes {
		fmt.Println("   note:", n)
	}
}

func writeEvidence(root string, p *PropDef, o runOpts, seed int, c *Ctx, r *Rep, nviol int, knownHit []string, extra map[string]any) error {
	cov := map[string]any{}
	expl := p.Explanation
	if p.NotDecided != "" {
		expl += " NOT DECIDED: " + p.NotDecided
	}
	cov["explanation"] = expl
	cov["checker_cmd"] = fmt.Sprintf("bin/htsverif check %s --tier %s", p.ID, o.tier)
	cov["trusted_base"] = []string{
		"Go type checker and golang.org/x/tools v0.29.0 go/ssa construction",
		"VTA/CHA call-graph construction for reachability rules",
		"spec constants and library contracts in tool/tables.go",
	}
	if c != nil && r != nil {
		var pk []string
		for _, q := range c.Pkgs {
			pk = append(pk, q.PkgPath)
		}
		cov["packages"] = pk
		cov["functions_analyzed"] = len(c.SrcFuncs())
		var stats []*RuleStat
		for _, n := range r.order {
			stats = append(stats, r.stats[n])
		}
		cov["rules"] = stats
		disc := 0
		var samples []Obl
		var failed []Obl
		perRule := map[string]int{}
		for _, ob := range r.Obls {
			if ob.OK {
				disc++
				if perRule[ob.Rule] < 6 {
					samples = append(samples, ob)
					perRule[ob.Rule]++
				}
			} else {
				failed = append(failed, ob)
			}
		}
		cov["obligations"] = len(r.Obls)
		cov["discharged"] = disc
		cov["samples"] = samples
		cov["failed_obligations"] = failed
		cov["canaries"] = r.Canaries
		cov["notes"] = r.Notes
		cov["exhaustive"] = true
		cov["rule"] = "every construct matched by a rule on the current tree is one obligation, keyed rule+function+construct; all are decided on every run"
	} else {
		cov["samples"] = []string{}
	}
	cov["known_findings"] = knownHit
	for k, v := range extra {
		cov[k] = v
	}
	ev := Evidence{PropertyID: p.ID, Tier: o.tier, Seed: seed, Level: p.Level, Coverage: cov,
		Assumptions: p.Assumptions, WallS: time.Since(startTime).Seconds(), Violations: nviol}
	if ev.Assumptions == nil {
		ev.Assumptions = []string{}
	}
	return writeJSON(filepath.Join(root, "evidence", p.ID+".json"), ev)
}

// cmdReplay re-decides the obligation recorded in a violation file on the
// current tree: exit 1 if it still fails, 0 if it is now discharged.
func cmdReplay(args []string) int {
	if len(args) != 1 {
		usage()
	}
	b, err := os.ReadFile(args[0])
	if err != nil {
		fmt.Fprintln(os.Stderr, err)
		return 2
	}
	var v struct{ Property, Rule, Key, Pos, Detail string }
	if err := json.Unmarshal(b, &v); err != nil {
		fmt.Fprintln(os.Stderr, err)
		return 2
	}
	p := registry[v.Property]
	if p == nil {
		fmt.Fprintln(os.Stderr, "unknown property", v.Property)
		return 2
	}
	c, err := Load(repoDir(), repoMod, p.Deep)
	if err != nil {
		fmt.Printf("still undecided: %v\nVIOLATION property=%s replay=%s\n", err, p.ID, args[0])
		return 1
	}
	r := runRules(p, c, "thorough")
	for _, ob := range r.Obls {
		if ob.Rule == v.Rule && ob.Key == v.Key {
			if ob.OK {
				fmt.Printf("obligation %s %s is discharged on the current tree (%s)\n", ob.Rule, ob.Key, ob.Just)
				return 0
			}
			fmt.Printf("obligation %s %s still fails at %s:\n  %s\nVIOLATION property=%s replay=%s\n", ob.Rule, ob.Key, ob.Pos, ob.Detail, p.ID, args[0])
			return 1
		}
	}
	fmt.Printf("obligation %s %s no longer exists on the current tree\n", v.Rule, v.Key)
	return 0
}
