// OWN-1 / OWN-3: the reader never touches a block after giving it to the
// cache, and accepts a block from the cache only after the ownership test.
package main

import (
	"fmt"
	"go/token"
	"go/types"

	"golang.org/x/tools/go/ssa"
)

type ownCfg struct {
	pkg, reader, current string // the reader type and its "current block" field
	cacheIface           string
	blockIface           string
	using                string // decompressor method that installs a block as decompression target
	decType              string
	// methods of Block that modify it or consume from it
	mutators map[string]bool
}

var htsOwnCfg = ownCfg{pkg: "bgzf", reader: "Reader", current: "current", cacheIface: "Cache", blockIface: "Block", using: "using", decType: "decompressor",
	mutators: map[string]bool{"Read": true, "ReadByte": true, "seek": true, "readFrom": true, "setBase": true, "setHeader": true, "setOwner": true}}

type ownModel struct {
	c    *Ctx
	cfg  ownCfg
	fCur *types.Var
	// wrappers: function → index of the parameter handed to Cache.Put (−1: the
	// receiver's current field), and whether Put's results are returned
	wrap map[*ssa.Function]putSummary
	fns  []*ssa.Function
}

type putSummary struct {
	param   int
	returns bool
}

func (m *ownModel) isCachePut(cc *ssa.CallCommon) bool {
	if !cc.IsInvoke() || cc.Method.Name() != "Put" {
		return false
	}
	n, ok := cc.Value.Type().(*types.Named)
	return ok && n.Obj().Name() == m.cfg.cacheIface
}

func newOwnModel(c *Ctx, cfg ownCfg) *ownModel {
	m := &ownModel{c: c, cfg: cfg, wrap: map[*ssa.Function]putSummary{}}
	m.fCur = c.Field(cfg.pkg, cfg.reader, cfg.current)
	m.fns = c.FuncsIn(cfg.pkg)
	for changed := true; changed; {
		changed = false
		for _, f := range m.fns {
			if _, done := m.wrap[f]; done {
				continue
			}
			allInstrs(f, func(ins ssa.Instruction) {
				call, ok := ins.(*ssa.Call)
				if !ok {
					return
				}
				var arg ssa.Value
				if m.isCachePut(&call.Call) {
					arg = call.Call.Args[0]
				} else if g := staticCallee(&call.Call); g != nil {
					if s, ok := m.wrap[g]; ok && s.param >= 0 && s.param < len(call.Call.Args) {
						arg = call.Call.Args[s.param]
					}
				}
				if arg == nil {
					return
				}
				if i := paramIndex(f, arg); i >= 0 {
					rets := false
					allInstrs(f, func(x ssa.Instruction) {
						if ret, ok := x.(*ssa.Return); ok {
							for k := range ret.Results {
								if dependsOn(retValue(ret, k), call, 0) {
									rets = true
								}
							}
						}
					})
					m.wrap[f] = putSummary{param: i, returns: rets}
					changed = true
				}
			})
		}
	}
	return m
}

// putCalls lists, for a function, the calls that hand a block to the cache:
// (call, block argument, whether the retained result is available).
type putCall struct {
	call     *ssa.Call
	arg      ssa.Value
	retained *ssa.Extract // nil if the retained result is not extracted
	evicted  *ssa.Extract
}

func (m *ownModel) putCalls(f *ssa.Function) []putCall {
	var out []putCall
	allInstrs(f, func(ins ssa.Instruction) {
		call, ok := ins.(*ssa.Call)
		if !ok {
			return
		}
		var arg ssa.Value
		hasResults := false
		if m.isCachePut(&call.Call) {
			arg, hasResults = call.Call.Args[0], true
		} else if g := staticCallee(&call.Call); g != nil {
			if s, ok := m.wrap[g]; ok && s.param < len(call.Call.Args) {
				arg, hasResults = call.Call.Args[s.param], s.returns
			}
		}
		if arg == nil {
			return
		}
		pc := putCall{call: call, arg: arg}
		if hasResults {
			for _, ref := range *call.Referrers() {
				if e, ok := ref.(*ssa.Extract); ok {
					switch e.Index {
					case 0:
						pc.evicted = e
					case 1:
						pc.retained = e
					}
				}
			}
		}
		out = append(out, pc)
	})
	return out
}

func (m *ownModel) isCurrentAddr(v ssa.Value) bool {
	fa, ok := v.(*ssa.FieldAddr)
	return ok && fieldVarOfAddr(fa) == m.fCur
}

func (m *ownModel) isStoreCurrent(ins ssa.Instruction) bool {
	st, ok := ins.(*ssa.Store)
	return ok && m.isCurrentAddr(st.Addr)
}

// blockUse: ins uses block value v in a way that requires owning it.
func (m *ownModel) blockUse(ins ssa.Instruction, v ssa.Value) string {
	same := func(x ssa.Value) bool { return x != nil && strip(x) == v }
	switch x := ins.(type) {
	case *ssa.Store:
		if m.isCurrentAddr(x.Addr) && same(x.Val) {
			return "stored into Reader.current"
		}
	case *ssa.Return:
		for _, r := range x.Results {
			if same(r) {
				return "returned"
			}
		}
	case *ssa.Call:
		cc := &x.Call
		if cc.IsInvoke() && same(cc.Value) && m.cfg.mutators[cc.Method.Name()] {
			return "method " + cc.Method.Name() + " called on it"
		}
		if g := staticCallee(cc); g != nil && g.Name() == m.cfg.using {
			for _, a := range cc.Args[1:] {
				if same(a) {
					return "installed as decompression target (using)"
				}
			}
		}
	}
	return ""
}

// ruleMovedMeansGone (OWN-1).
func (m *ownModel) ruleMovedMeansGone(r *Rep, rule string) {
	c := m.c
	for _, f := range m.fns {
		for _, pc := range m.putCalls(f) {
			r.Instance(rule, 1)
			callee := "Cache.Put"
			if g := staticOrPut(&pc.call.Call); g != nil {
				callee = c.FnName(g)
			}
			key := fmt.Sprintf("%s#put:%s", c.FnName(f), callee)
			pos := c.Pos(pc.call.Pos())
			arg := strip(pc.arg)
			// edges on which the block is known not to have been retained
			notRetained := func(from, to *ssa.BasicBlock) bool {
				if pc.retained == nil {
					return true
				}
				i := ifOf(from)
				if i == nil {
					return true
				}
				cond := i.Cond
				k := 1 // successor when retained is false
				if u, ok := cond.(*ssa.UnOp); ok && u.Op == token.NOT {
					cond, k = u.X, 0
				}
				if cond != ssa.Value(pc.retained) {
					return true
				}
				return from.Succs[k] != to || from.Succs[1-k] == to // block the not-retained edge
			}
			why := ""
			fcur, base := loadedField(pc.arg)
			if fcur == m.fCur {
				// location-based: Reader.current was given away. Until it is
				// re-assigned no load of it may be used, and it must be re-assigned
				// before the function returns.
				_ = base
				use := func(ins ssa.Instruction) bool {
					u, ok := ins.(*ssa.UnOp)
					if !ok || u.Op != token.MUL || !m.isCurrentAddr(u.X) {
						return false
					}
					for _, ref := range *u.Referrers() {
						if m.blockUse(ref, u) != "" {
							return true
						}
					}
					return false
				}
				if bad, reach := pathTo(locOf(pc.call), use, m.isStoreCurrent, notRetained); reach {
					why += fmt.Sprintf(" Reader.current is read and used at %s after the block was handed to the cache and before current was re-assigned;", c.Pos(bad.Pos()))
				}
				if bad, reach := pathTo(locOf(pc.call), isReturn, m.isStoreCurrent, notRetained); reach {
					why += fmt.Sprintf(" the function returns at %s with Reader.current still pointing at a block the cache may have retained;", c.Pos(bad.Pos()))
				}
				// a store of the moved value itself back into current
				// the value stored next must be the evicted result, a cache hit, or nil – not a
				// reload of the moved block (cannot happen without a load, covered above)
			} else {
				use := func(ins ssa.Instruction) bool { return m.blockUse(ins, arg) != "" }
				// where the value is defined again (the next iteration of a loop that
				// makes it: `blk, err := dec.wait()`) it is another block
				var redefined func(ssa.Instruction) bool
				if def, ok := arg.(ssa.Instruction); ok {
					defs := map[ssa.Instruction]bool{def: true}
					if ex, ok := arg.(*ssa.Extract); ok {
						if t, ok := ex.Tuple.(ssa.Instruction); ok {
							defs[t] = true
						}
					}
					redefined = func(x ssa.Instruction) bool { return defs[x] }
				}
				if bad, reach := pathTo(locOf(pc.call), use, redefined, notRetained); reach {
					why += fmt.Sprintf(" the block handed to the cache here is afterwards %s at %s, although the cache may have retained it: the reader and the cache both own the block, and a later cache hit returns a buffer that has been overwritten;", m.blockUse(bad, arg), c.Pos(bad.Pos()))
				}
			}
			r.Check(why == "", rule, key, pos, "after the hand-over the block is not used unless the cache reported it as not retained", why)
		}
	}
}

func staticOrPut(cc *ssa.CallCommon) *ssa.Function {
	if g := staticCallee(cc); g != nil {
		return g
	}
	return nil
}

// ruleOwnershipTest (OWN-3): a block obtained from Cache.Get is returned
// only after ownedBy was tested on it.
func (m *ownModel) ruleOwnershipTest(r *Rep, rule string) {
	c := m.c
	for _, f := range m.fns {
		allInstrs(f, func(ins ssa.Instruction) {
			call, ok := ins.(*ssa.Call)
			if !ok || !call.Call.IsInvoke() || call.Call.Method.Name() != "Get" {
				return
			}
			if n, ok := call.Call.Value.Type().(*types.Named); !ok || n.Obj().Name() != m.cfg.cacheIface {
				return
			}
			r.Instance(rule, 1)
			key := c.FnName(f) + "#cache-get"
			isOwned := func(x ssa.Instruction) bool {
				cl, ok := x.(*ssa.Call)
				return ok && cl.Call.IsInvoke() && cl.Call.Method.Name() == "ownedBy" && strip(cl.Call.Value) == ssa.Value(call)
			}
			// the nil edge of `blk != nil` returns nil, nothing to test
			nonNilOnly := func(from, to *ssa.BasicBlock) bool {
				i := ifOf(from)
				if i == nil {
					return true
				}
				bo, ok := i.Cond.(*ssa.BinOp)
				if !ok || !isNilConst(bo.Y) || strip(bo.X) != ssa.Value(call) {
					return true
				}
				k := 1 // successor when blk == nil
				if bo.Op == token.EQL {
					k = 0
				}
				return from.Succs[k] != to
			}
			retBlk := func(x ssa.Instruction) bool {
				ret, ok := x.(*ssa.Return)
				if !ok {
					return false
				}
				for i := range ret.Results {
					if strip(retValue(ret, i)) == ssa.Value(call) {
						return true
					}
				}
				return false
			}
			why := ""
			if bad, ok := mustPass(locOf(call), retBlk, isOwned, nonNilOnly); !ok {
				why += fmt.Sprintf(" a block obtained from the cache is returned at %s without ownedBy having been tested: a cache shared with another reader hands over foreign data;", c.Pos(bad.Pos()))
			}
			// ownedBy == false must not return the block
			allInstrs(f, func(x ssa.Instruction) {
				if !isOwned(x) {
					return
				}
				for _, b := range f.Blocks {
					i := ifOf(b)
					if i == nil {
						continue
					}
					cond := i.Cond
					k := 1
					if u, ok := cond.(*ssa.UnOp); ok && u.Op == token.NOT {
						cond, k = u.X, 0
					}
					if cond != x.(ssa.Value) {
						continue
					}
					// the not-owned edge must not reach a return of the block
					if _, reach := pathTo(Loc{b.Succs[k], -1}, retBlk, nil, nil); reach && b.Succs[k] != b.Succs[1-k] {
						why += " the block is returned although ownedBy reported a foreign owner;"
					}
				}
			})
			r.Check(why == "", rule, key, c.Pos(call.Pos()), "non-nil Get result returned only after ownedBy(reader) held", why)
			// a cached block was left at an arbitrary in-block position by its last
			// user: it is rewound before it is handed to the reader
			isRewind := func(x ssa.Instruction) bool {
				cl, ok := x.(*ssa.Call)
				if !ok || !cl.Call.IsInvoke() || cl.Call.Method.Name() != "seek" || strip(cl.Call.Value) != ssa.Value(call) {
					return false
				}
				k, isK := constInt(cl.Call.Args[0])
				return isK && k == 0
			}
			r.Instance(rule, 1)
			if bad, ok := mustPass(locOf(call), retBlk, isRewind, nonNilOnly); !ok {
				r.Fail(rule, c.FnName(f)+"#cache-get-rewind", c.Pos(bad.Pos()), "a block obtained from the cache can be returned without seek(0): it keeps the in-block position its previous use left (a seek into it without a read), so sequential reading resumes mid-block")
			} else {
				r.Pass(rule, c.FnName(f)+"#cache-get-rewind", c.Pos(call.Pos()), "seek(0) on every path that returns the cached block")
			}
		})
	}
}
