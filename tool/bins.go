// C04 / C16: the UCSC binning scheme – bin assignment and bin enumeration use
// the same (first bin, shift) pair per level, equal to the specification's;
// CSI's pairs are obtained by interpreting the level recurrences.
package main

import (
	"fmt"
	"go/constant"
	"go/token"
	"regexp"
	"sort"
	"strings"

	"golang.org/x/tools/go/ssa"
)

type binPair struct{ off, shift int64 }

func specBAIPairs() []binPair { // level 1..5
	var out []binPair
	p := int64(1)
	for l := 1; l <= 5; l++ {
		p *= 8
		out = append(out, binPair{(p - 1) / 7, int64(29 - 3*l)})
	}
	return out
}

func pairsStr(ps []binPair) string {
	s := ""
	for _, p := range ps {
		s += fmt.Sprintf("(%d,>>%d) ", p.off, p.shift)
	}
	return s
}

func ruleBinPairsBAI(c *Ctx, r *Rep, tier string) {
	rule := "BIN-PAIRS"
	spec := specBAIPairs()
	// ---- BinFor: if-chain of `beg>>K == (end-1)>>K` → return C + uint32(beg>>K)
	fn := c.Func("internal", "BinFor")
	beg, end := ssa.Value(fn.Params[0]), ssa.Value(fn.Params[1])
	r.Instance(rule, 1)
	shrOf := func(v ssa.Value, base func(ssa.Value) bool) (int64, bool) {
		bo, ok := stripConv(v).(*ssa.BinOp)
		if !ok || bo.Op != token.SHR || !base(bo.X) {
			return 0, false
		}
		return constInt(bo.Y)
	}
	isBeg := func(v ssa.Value) bool { return v == beg }
	isEndMinus1 := func(v ssa.Value) bool {
		bo, ok := v.(*ssa.BinOp)
		if !ok || bo.Op != token.SUB || bo.X != end {
			return false
		}
		k, isK := constInt(bo.Y)
		return isK && k == 1
	}
	var got []binPair
	why := ""
	// follow the chain from the entry over false edges
	b := fn.Blocks[0]
	for n := 0; n < 12 && b != nil; n++ {
		i := ifOf(b)
		if i == nil {
			// default return
			if ret, ok := b.Instrs[len(b.Instrs)-1].(*ssa.Return); ok {
				if k, isK := constInt(ret.Results[0]); !isK || k != 0 {
					why += " the fall-through does not return bin 0;"
				}
			}
			break
		}
		bo, ok := i.Cond.(*ssa.BinOp)
		if !ok || bo.Op != token.EQL {
			why += " unexpected test in BinFor;"
			break
		}
		k1, ok1 := shrOf(bo.X, isBeg)
		k2, ok2 := shrOf(bo.Y, isEndMinus1)
		if !ok1 || !ok2 {
			// an equality reads the same from either side
			k1, ok1 = shrOf(bo.Y, isBeg)
			k2, ok2 = shrOf(bo.X, isEndMinus1)
		}
		if !ok1 || !ok2 || k1 != k2 {
			why += fmt.Sprintf(" a level test does not compare beg>>k with (end-1)>>k for the same k (%d vs %d);", k1, k2)
			break
		}
		ret, isRet := b.Succs[0].Instrs[len(b.Succs[0].Instrs)-1].(*ssa.Return)
		if !isRet {
			why += " a level test does not return directly;"
			break
		}
		add, isAdd := ret.Results[0].(*ssa.BinOp)
		if !isAdd || add.Op != token.ADD {
			why += " a level does not return first-bin + offset;"
			break
		}
		off, okc := constInt(add.X)
		ks, oks := shrOf(add.Y, isBeg)
		if !okc {
			off, okc = constInt(add.Y)
			ks, oks = shrOf(add.X, isBeg)
		}
		if !okc || !oks || ks != k1 {
			why += fmt.Sprintf(" the level tested with >>%d returns an offset computed with >>%d;", k1, ks)
			break
		}
		got = append(got, binPair{off, k1})
		b = b.Succs[1]
	}
	// finest level first
	want := append([]binPair(nil), spec...)
	sort.Slice(want, func(i, j int) bool { return want[i].shift < want[j].shift })
	if why == "" && pairsStr(got) != pairsStr(want) {
		why = fmt.Sprintf(" levels tested: %s; specification (finest first): %s", pairsStr(got), pairsStr(want))
	}
	r.Check(why == "", rule, "internal.BinFor#levels", c.Pos(fn.Pos()), "finest to coarsest: "+pairsStr(got)+"then bin 0; end-1 used", "BinFor deviates from the UCSC scheme:"+why)

	// ---- OverlappingBinsFor: table of {offset, shift}, loops offset+beg>>shift … offset+(end-1)>>shift inclusive
	ofn := c.Func("internal", "OverlappingBinsFor")
	r.Instance(rule, 1)
	why = ""
	// the literal table: stores of constants into a local array of 2-field structs
	cells := map[int64]map[int]int64{}
	allInstrs(ofn, func(ins ssa.Instruction) {
		st, ok := ins.(*ssa.Store)
		if !ok {
			return
		}
		fa, ok := st.Addr.(*ssa.FieldAddr)
		if !ok {
			return
		}
		ia, ok := fa.X.(*ssa.IndexAddr)
		if !ok {
			return
		}
		idx, ok1 := constInt(ia.Index)
		v, ok2 := constInt(st.Val)
		if !ok1 || !ok2 {
			return
		}
		if cells[idx] == nil {
			cells[idx] = map[int]int64{}
		}
		cells[idx][fa.Field] = v
	})
	var tab []binPair
	for i := int64(0); i < int64(len(cells)); i++ {
		tab = append(tab, binPair{cells[i][0], cells[i][1]})
	}
	if pairsStr(tab) != pairsStr(spec) {
		why += fmt.Sprintf(" level table %s, specification %s;", pairsStr(tab), pairsStr(spec))
	}
	// list starts with bin 0; inner loop is inclusive (<=) and uses end-1
	hasLEQ, usesEndM1, startsZero := false, false, false
	allInstrs(ofn, func(ins ssa.Instruction) {
		switch x := ins.(type) {
		case *ssa.BinOp:
			if x.Op == token.LEQ {
				hasLEQ = true
			}
			if x.Op == token.SUB && clampOf(x.X, ofn.Params[1], ofn.Params[0], 0) {
				if k, ok := constInt(x.Y); ok && k == 1 {
					usesEndM1 = true
				}
			}
		case *ssa.Store:
			if ia, ok := x.Addr.(*ssa.IndexAddr); ok {
				if i0, ok0 := constInt(ia.Index); ok0 && i0 == 0 {
					if k, isK := constInt(x.Val); isK && k == 0 {
						if _, isField := ia.X.(*ssa.Alloc); isField {
							startsZero = true
						}
					}
				}
			}
		}
	})
	// the walk itself: for every table row E, k runs from E.offset + beg>>E.shift
	// to E.offset + (end-1)>>E.shift inclusive, in steps of one, and every k is
	// appended (keys with the row's element written E)
	{
		elemRE := regexp.MustCompile(`&?local:slicelit\[:\]\[[^\]]*\]`)
		norm := func(k string) string { return elemRE.ReplaceAllString(k, "E") }
		okInit, okStep, okCond, okAppend := false, false, false, false
		var kPhi *ssa.Phi
		allInstrs(ofn, func(ins ssa.Instruction) {
			if p, ok := ins.(*ssa.Phi); ok {
				for _, e := range p.Edges {
					if x, ok := walkBound(e, norm); ok && clampOf(x, ofn.Params[0], nil, 0) {
						kPhi, okInit = p, true
					}
				}
			}
		})
		if kPhi != nil {
			for _, e := range kPhi.Edges {
				if bo, ok := e.(*ssa.BinOp); ok && bo.Op == token.ADD && bo.X == ssa.Value(kPhi) {
					if k, isK := constInt(bo.Y); isK && k == 1 {
						okStep = true
					}
				}
			}
			allInstrs(ofn, func(ins ssa.Instruction) {
				switch x := ins.(type) {
				case *ssa.If:
					if bo, ok := x.Cond.(*ssa.BinOp); ok && bo.Op == token.LEQ && bo.X == ssa.Value(kPhi) {
						if xv, ok := walkBound(bo.Y, norm); ok {
							if sub, isSub := xv.(*ssa.BinOp); isSub && sub.Op == token.SUB && clampOf(sub.X, ofn.Params[1], ofn.Params[0], 0) {
								if k, isK := constInt(sub.Y); isK && k == 1 {
									okCond = true
								}
							}
						}
					}
				case *ssa.Call:
					if cc, ok := isBuiltinCall(x, "append"); ok && len(cc.Args) == 2 && strings.Contains(symKey(cc.Args[1]), symKey(kPhi)) {
						okAppend = true
					}
				}
			})
		}
		switch {
		case !okInit:
			why += " no loop variable starting at row.offset + beg>>row.shift;"
		case !okStep:
			why += " the bin variable does not advance by one;"
		case !okCond:
			why += " the loop does not run while k <= row.offset + (end-1)>>row.shift (same row, end-1, inclusive);"
		case !okAppend:
			why += " the bins walked are not appended to the list;"
		}
	}
	if !hasLEQ {
		why += " the bin loop is not inclusive of the last bin (k <= …);"
	}
	if !usesEndM1 {
		why += " end is not decremented (half-open interval);"
	}
	if !startsZero {
		why += " the list does not start with bin 0;"
	}
	r.Check(why == "", rule, "internal.OverlappingBinsFor#levels", c.Pos(ofn.Pos()), "bin 0 plus, per level, "+pairsStr(tab)+"inclusive, end-1", "OverlappingBinsFor deviates from the UCSC scheme:"+why)

	// ---- constants (the bin of a read without position, 4680, is BIN-UNPLACED #no-position)
	r.Instance(rule, 2)
	tw, _ := constant.Int64Val(pkgConst(c, "internal", "TileWidth"))
	r.Check(tw == 1<<14, rule, "internal.TileWidth", "internal/index.go", "16 KiB = 1 << finest-level shift", fmt.Sprintf("TileWidth = %d, must be 1<<14", tw))
	sd, _ := constant.Int64Val(pkgConst(c, "internal", "StatsDummyBin"))
	r.Check(sd == 37450, rule, "internal.StatsDummyBin", "internal/index.go", "37450", fmt.Sprintf("StatsDummyBin = %d, specification 37450", sd))
}

// walkBound: v is E.offset + (X >> E.shift) (either order, through
// conversions), E the row of the level table; X is returned.
func walkBound(v ssa.Value, norm func(string) string) (ssa.Value, bool) {
	bo, ok := stripConv(v).(*ssa.BinOp)
	if !ok || bo.Op != token.ADD {
		return nil, false
	}
	for _, pair := range [][2]ssa.Value{{bo.X, bo.Y}, {bo.Y, bo.X}} {
		if norm(symKey(pair[0])) != "E.offset" {
			continue
		}
		sh, ok := stripConv(pair[1]).(*ssa.BinOp)
		if ok && sh.Op == token.SHR && norm(symKey(sh.Y)) == "E.shift" {
			return sh.X, true
		}
	}
	return nil, false
}

// clampOf: v is the parameter p, possibly after clamps – a φ whose edges are p
// (clamped again), constants or, when other is given, clamps of that parameter
// ("if end < beg { end = beg }").
func clampOf(v ssa.Value, p, other *ssa.Parameter, depth int) bool {
	if v == ssa.Value(p) {
		return true
	}
	if args, isMin := minArgs(v); isMin && depth <= 5 {
		// min(end, limit): a clamp from above
		for _, a := range args {
			if clampOf(a, p, other, depth+1) {
				return true
			}
		}
		return false
	}
	ph, ok := v.(*ssa.Phi)
	if !ok || depth > 5 {
		return false
	}
	fromP := false
	for _, e := range ph.Edges {
		switch {
		case clampOf(e, p, other, depth+1):
			fromP = true
		case other != nil && clampOf(e, other, nil, depth+1):
		default:
			if _, isK := e.(*ssa.Const); !isK {
				return false
			}
		}
	}
	return fromP
}

// csiPairs interprets fn (reg2bin / reg2bins) for one geometry and records
// the (first bin, shift) in force each time beg is shifted.
func csiPairs(fn *ssa.Function, minShift, depth uint64, begV, endV uint64) ([]binPair, string) {
	beg := ssa.Value(fn.Params[0])
	var pairs []binPair
	var shrs []*ssa.BinOp
	// beg itself, or beg after a clamp (a φ of beg and constants)
	isBeg := func(v ssa.Value) bool {
		if v == beg {
			return true
		}
		p, ok := v.(*ssa.Phi)
		if !ok {
			return false
		}
		for _, e := range p.Edges {
			if _, isK := e.(*ssa.Const); !isK && e != beg {
				return false
			}
		}
		return true
	}
	allInstrs(fn, func(ins ssa.Instruction) {
		if bo, ok := ins.(*ssa.BinOp); ok && bo.Op == token.SHR && isBeg(bo.X) {
			shrs = append(shrs, bo)
		}
	})
	if len(shrs) != 1 {
		return nil, fmt.Sprintf("%d shifts of beg found, expected one", len(shrs))
	}
	shr := shrs[0]
	// the first-bin value: the other operand of the ADD that uses convert(beg>>s)
	var tVal ssa.Value
	var find func(v ssa.Value, d int)
	find = func(v ssa.Value, d int) {
		if d > 4 || tVal != nil {
			return
		}
		for _, ref := range *v.Referrers() {
			switch x := ref.(type) {
			case *ssa.Convert:
				find(x, d+1)
			case *ssa.BinOp:
				if x.Op == token.ADD {
					if x.X == v {
						tVal = x.Y
					} else {
						tVal = x.X
					}
				}
			}
		}
	}
	find(shr, 0)
	if tVal == nil {
		return nil, "first-bin + (beg >> s) not found"
	}
	// neither t nor s may depend on beg / end
	if dependsOn(tVal, beg, 0) || dependsOn(shr.Y, beg, 0) || dependsOn(tVal, fn.Params[1], 0) || dependsOn(shr.Y, fn.Params[1], 0) {
		return nil, "the level recurrences depend on beg/end: pairs cannot be tabulated"
	}
	globalHook = func(f *frame, s *istate, ins ssa.Instruction) {
		if ins != ssa.Instruction(shr) {
			return
		}
		ip := &interp{}
		tv, ok1 := ip.get(f, s, tVal).(bv)
		sv, ok2 := ip.get(f, s, shr.Y).(bv)
		if !ok1 || !ok2 {
			pairs = append(pairs, binPair{-1, -1})
			return
		}
		t, okt := tv.concrete()
		sh, oks := sv.concrete()
		if !okt || !oks {
			pairs = append(pairs, binPair{-1, -1})
			return
		}
		pairs = append(pairs, binPair{int64(t), int64(sh)})
	}
	defer func() { globalHook = nil }()
	args := []absVal{konst(begV, 64, true), konst(endV, 64, true), konst(minShift, 32, false), konst(depth, 32, false)}
	_, ev, undec := execFn(fn, args, nil, 0)
	if undec != "" {
		return nil, "cannot interpret: " + undec
	}
	for _, e := range ev {
		if e != "" {
			return pairs, ""
		}
	}
	return pairs, ""
}

func ruleBinPairsCSI(c *Ctx, r *Rep, tier string) {
	rule := "BIN-PAIRS-CSI"
	r2b := c.Func("csi", "reg2bin")
	r2bs := c.Func("csi", "reg2bins")
	geoms := [][2]uint64{{14, 5}, {14, 1}, {14, 2}, {12, 6}, {16, 4}, {14, 8}, {0, 3}}
	for _, g := range geoms {
		minShift, depth := g[0], g[1]
		// specification: level l = 0..depth: first bin (8^l−1)/7, shift minShift+3(depth−l)
		var spec []binPair
		p := int64(1)
		for l := int64(0); l <= int64(depth); l++ {
			spec = append(spec, binPair{(p - 1) / 7, int64(minShift) + 3*(int64(depth)-l)})
			p *= 8
		}
		// reg2bin walks from the finest level up to level 1: use a region spanning
		// everything so that no level matches
		full := uint64(1) << (minShift + 3*depth)
		got, err := csiPairs(r2b, minShift, depth, 0, full)
		r.Instance(rule, 1)
		key := fmt.Sprintf("csi.reg2bin#minShift%d/depth%d", minShift, depth)
		var want []binPair
		for l := int(depth); l >= 1; l-- {
			want = append(want, spec[l])
		}
		why := err
		if why == "" && pairsStr(got) != pairsStr(want) {
			why = fmt.Sprintf("levels visited %s, specification (finest first) %s", pairsStr(got), pairsStr(want))
		}
		r.Check(why == "", rule, key, c.Pos(r2b.Pos()), pairsStr(got), "reg2bin files records under bins that the scheme does not define for their level: "+why)

		got2, err2 := csiPairs(r2bs, minShift, depth, 0, 1)
		r.Instance(rule, 1)
		key2 := fmt.Sprintf("csi.reg2bins#minShift%d/depth%d", minShift, depth)
		why = err2
		if why == "" && pairsStr(got2) != pairsStr(spec) {
			why = fmt.Sprintf("levels enumerated %s, specification %s", pairsStr(got2), pairsStr(spec))
		}
		// agreement of the two functions (the condition for "the bin of one interval is
		// enumerated for every overlapping one")
		if why == "" {
			set := map[binPair]bool{}
			for _, p := range got2 {
				set[p] = true
			}
			for _, p := range got {
				if !set[p] {
					why += fmt.Sprintf(" reg2bin uses %s which reg2bins never enumerates;", pairsStr([]binPair{p}))
				}
			}
		}
		r.Check(why == "", rule, key2, c.Pos(r2bs.Pos()), pairsStr(got2), "reg2bins / reg2bin disagree with the scheme: "+why)
	}
}

// ruleArgAgree (ARG-AGREE): the geometry handed to the bin function by Add is
// the geometry handed to the bin enumeration by Chunks.
func ruleArgAgree(c *Ctx, r *Rep, tier string) {
	rule := "ARG-AGREE"
	r.Instance(rule, 1)
	add := c.Func("csi", "(*Index).Add")
	chk := c.Func("csi", "(*Index).Chunks")
	r2b := c.Func("csi", "reg2bin")
	r2bs := c.Func("csi", "reg2bins")
	argsOf := func(fn, callee *ssa.Function) []string {
		var out []string
		allInstrs(fn, func(ins ssa.Instruction) {
			if call, ok := ins.(*ssa.Call); ok && staticCallee(&call.Call) == callee {
				for _, a := range call.Call.Args[2:] {
					f, _ := loadedField(a)
					if f != nil {
						out = append(out, f.Name())
					} else {
						out = append(out, "?")
					}
				}
			}
		})
		return out
	}
	a, b := argsOf(add, r2b), argsOf(chk, r2bs)
	ok := len(a) == 2 && len(b) == 2 && a[0] == b[0] && a[1] == b[1] && a[0] != "?" && a[0] != a[1]
	r.Check(ok, rule, "csi.(*Index).Add/Chunks#geometry", c.Pos(add.Pos()), fmt.Sprintf("both pass (%v)", a), fmt.Sprintf("Add files with geometry %v, Chunks enumerates with %v", a, b))
	// BAI / tabix: Add files under internal.BinFor of the record's own interval
	r.Instance(rule, 2)
	bf := c.Func("internal", "BinFor")
	bin := c.Func("sam", "(*Record).Bin")
	usesBinFor := false
	allInstrs(bin, func(ins ssa.Instruction) {
		if call, ok := ins.(*ssa.Call); ok && staticCallee(&call.Call) == bf {
			// BinFor(r.Pos, r.End())
			// (what exactly the end is – End(), or one past Pos for an empty
			// interval – is BIN-UNPLACED's #length-one; here: it comes from End())
			f, _ := loadedField(call.Call.Args[0])
			var fromEnd func(v ssa.Value, d int) bool
			fromEnd = func(v ssa.Value, d int) bool {
				if d > 6 {
					return false
				}
				switch x := v.(type) {
				case *ssa.Call:
					g := staticCallee(&x.Call)
					return g != nil && g.Name() == "End"
				case *ssa.Phi:
					for _, e := range x.Edges {
						if fromEnd(e, d+1) {
							return true
						}
					}
				case *ssa.Convert:
					return fromEnd(x.X, d+1)
				case *ssa.BinOp:
					return fromEnd(x.X, d+1) || fromEnd(x.Y, d+1)
				}
				return false
			}
			if f != nil && f.Name() == "Pos" && fromEnd(call.Call.Args[1], 0) {
				usesBinFor = true
			}
		}
	})
	r.Check(usesBinFor, rule, "sam.(*Record).Bin#binfor", c.Pos(bin.Pos()), "BinFor(Pos, End())", "Record.Bin is not BinFor(Pos, End())")
	tadd := c.Func("tabix", "(*Index).Add")
	okT := false
	allInstrs(tadd, func(ins ssa.Instruction) {
		if call, ok := ins.(*ssa.Call); ok && staticCallee(&call.Call) == bf {
			s, ok1 := call.Call.Args[0].(*ssa.Call)
			e, ok2 := call.Call.Args[1].(*ssa.Call)
			if ok1 && ok2 && s.Call.IsInvoke() && e.Call.IsInvoke() && s.Call.Method.Name() == "Start" && e.Call.Method.Name() == "End" {
				okT = true
			}
		}
	})
	r.Check(okT, rule, "tabix.(*Index).Add#binfor", c.Pos(tadd.Pos()), "BinFor(Start(), End())", "tabix Add does not file under BinFor(Start(), End())")
}

// ruleCoupledTabix (COUPLED-TABIX): a reference name appended to refNames is
// entered in nameMap on the same path.
func ruleCoupledTabix(c *Ctx, r *Rep, tier string) {
	rule := "COUPLED-TABIX"
	fn := c.Func("tabix", "(*Index).Add")
	fNames := c.Field("tabix", "Index", "refNames")
	fMap := c.Field("tabix", "Index", "nameMap")
	r.Instance(rule, 1)
	var appendStore ssa.Instruction
	allInstrs(fn, func(ins ssa.Instruction) {
		if st, ok := ins.(*ssa.Store); ok {
			if fa, isFa := st.Addr.(*ssa.FieldAddr); isFa && fieldVarOfAddr(fa) == fNames {
				appendStore = ins
			}
		}
	})
	if appendStore == nil {
		r.Fail(rule, "tabix.(*Index).Add#names", c.Pos(fn.Pos()), "no append to refNames found: undecided")
		return
	}
	isMapIns := func(ins ssa.Instruction) bool {
		mu, ok := ins.(*ssa.MapUpdate)
		return ok && loadsField(mu.Map, fMap)
	}
	_, ok1 := mustPass(locOf(appendStore), isReturn, isMapIns, nil)
	// or before it on the same path
	_, ok2 := mustPass(entryLoc(fn), func(x ssa.Instruction) bool { return x == appendStore }, isMapIns, nil)
	r.Check(ok1 || ok2, rule, "tabix.(*Index).Add#names", c.Pos(appendStore.Pos()), "refNames append ⇔ nameMap insert", "a new reference name is appended to refNames but not entered in nameMap: the next record of the same reference gets a new id and Chunks(name, …) answers \"no reference\"")
}

// ruleSortedPre (SORTED-PRE): every application of a merge strategy is to a
// slice that was sorted (sort.Sort / IsSorted-guarded) by begin offset.
func ruleSortedPre(c *Ctx, r *Rep, tier string) {
	rule := "SORTED-PRE"
	// returnsSorted: functions all of whose successful returns pass a sort of the returned slice
	returnsSorted := func(g *ssa.Function) bool {
		if g == nil || g.Blocks == nil {
			return false
		}
		isSort := func(ins ssa.Instruction) bool {
			if call, ok := ins.(*ssa.Call); ok {
				switch calleeFullName(&call.Call) {
				case "sort.Sort", "sort.IsSorted", "sort.Stable":
					return true
				}
			}
			return false
		}
		succ := func(ins ssa.Instruction) bool {
			ret, ok := ins.(*ssa.Return)
			return ok && len(ret.Results) > 0 && !isNilConst(retValue(ret, 0))
		}
		_, ok := mustPass(entryLoc(g), succ, isSort, nil)
		return ok
	}
	for _, pkg := range []string{"internal", "bam", "csi", "tabix"} {
		for _, fn := range c.FuncsIn(pkg) {
			allInstrs(fn, func(ins ssa.Instruction) {
				call, ok := ins.(*ssa.Call)
				if !ok || len(call.Call.Args) != 1 {
					return
				}
				// a call of a value of type index.MergeStrategy, or of index.Adjacent etc.
				isStrategy := false
				// a dynamic call of a value of type func([]bgzf.Chunk) []bgzf.Chunk
				if sig := call.Call.Signature(); staticCallee(&call.Call) == nil && !call.Call.IsInvoke() &&
					sig.Params().Len() == 1 && sig.Results().Len() == 1 &&
					sig.Params().At(0).Type().String() == "[]"+repoMod+"/bgzf.Chunk" &&
					sig.Results().At(0).Type().String() == "[]"+repoMod+"/bgzf.Chunk" {
					isStrategy = true
				}
				if g := staticCallee(&call.Call); g != nil && g.Pkg != nil && g.Pkg.Pkg.Path() == repoMod+"/bgzf/index" {
					switch g.Name() {
					case "Adjacent", "Squash", "Identity":
						isStrategy = true
					}
				}
				if !isStrategy {
					return
				}
				r.Instance(rule, 1)
				key := c.FnName(fn) + "#strategy"
				arg := call.Call.Args[0]
				why := ""
				// (a) result of a callee that returns sorted
				if e, isE := arg.(*ssa.Extract); isE {
					if cl, isCall := e.Tuple.(*ssa.Call); isCall && returnsSorted(staticCallee(&cl.Call)) {
						r.Pass(rule, key, c.Pos(call.Pos()), "argument is the result of "+c.FnName(staticCallee(&cl.Call))+", which sorts what it returns")
						return
					}
				}
				// (b) dominated by a sort / IsSorted of the same slice
				found := false
				allInstrs(fn, func(x ssa.Instruction) {
					sc, ok := x.(*ssa.Call)
					if !ok {
						return
					}
					switch calleeFullName(&sc.Call) {
					case "sort.Sort", "sort.IsSorted", "sort.Stable":
					default:
						return
					}
					// argument: MakeInterface(ChangeType(slice))
					sv := strip(sc.Call.Args[0])
					if sameExpr(sv, arg, 0) && instrDominates(x, call) {
						found = true
					}
				})
				if !found {
					why = "a merge strategy is applied to a chunk list that is not sorted first on every path (the strategies assume begin-offset order; an unsorted list loses coverage)"
				}
				r.Check(why == "", rule, key, c.Pos(call.Pos()), "sorted by begin offset before the strategy is applied", why)
			})
		}
	}
}
