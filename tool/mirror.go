// Mirror invariance: a second behaviour-preserving rewrite used as a self-test.
// Every comparison whose operands are both free of calls and of constants is
// written the other way round (a < b becomes b > a, a == b becomes b == a).
package main

import (
	"fmt"
	"go/ast"
	"go/format"
	"go/token"
	"os"
	"path/filepath"

	"golang.org/x/tools/go/packages"
)

func mirrorComparisons(src, dst string) (int, error) {
	cfg := &packages.Config{Mode: packages.LoadSyntax, Dir: src, Tests: false, Env: goEnv()}
	pkgs, err := packages.Load(cfg, "./...")
	if err != nil {
		return 0, err
	}
	flip := map[token.Token]token.Token{token.LSS: token.GTR, token.GTR: token.LSS, token.LEQ: token.GEQ, token.GEQ: token.LEQ, token.EQL: token.EQL, token.NEQ: token.NEQ}
	n := 0
	for _, p := range pkgs {
		if len(p.Errors) > 0 {
			return 0, fmt.Errorf("%v", p.Errors)
		}
		plain := func(e ast.Expr) bool {
			if tv, ok := p.TypesInfo.Types[e]; ok && (tv.Value != nil || tv.IsNil()) {
				return false
			}
			ok := true
			ast.Inspect(e, func(nd ast.Node) bool {
				switch nd.(type) {
				case *ast.CallExpr, *ast.UnaryExpr, *ast.FuncLit:
					ok = false
				}
				return ok
			})
			return ok
		}
		for i, f := range p.Syntax {
			ast.Inspect(f, func(nd ast.Node) bool {
				be, ok := nd.(*ast.BinaryExpr)
				if !ok {
					return true
				}
				if op, isCmp := flip[be.Op]; isCmp && plain(be.X) && plain(be.Y) {
					be.X, be.Y, be.Op = be.Y, be.X, op
					n++
				}
				return true
			})
			rel, err := filepath.Rel(src, p.CompiledGoFiles[i])
			if err != nil {
				return n, err
			}
			out := filepath.Join(dst, rel)
			if err := os.MkdirAll(filepath.Dir(out), 0o755); err != nil {
				return n, err
			}
			w, err := os.Create(out)
			if err != nil {
				return n, err
			}
			if err := format.Node(w, p.Fset, f); err != nil {
				w.Close()
				return n, err
			}
			w.Close()
		}
	}
	return n, nil
}

func cmdMirror(args []string) int {
	if len(args) != 2 {
		usage()
	}
	n, err := mirrorComparisons(args[0], args[1])
	if err != nil {
		fmt.Fprintln(os.Stderr, err)
		return 2
	}
	fmt.Printf("mirrored %d comparisons\n", n)
	return 0
}
