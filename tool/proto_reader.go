// Engine E2, reader side: the head token, the decompressor wait group, the
// read-ahead goroutine, Seek's hand-back of decompressors, Close.
package main

import (
	"fmt"
	"go/types"
	"sort"

	"golang.org/x/tools/go/ssa"
)

type readerCfg struct {
	pkg, reader, dec                      string
	head, waiting, working, control, done string // fields of reader
	dwg                                   string // wait group field of decompressor
	seek, closeM, newReader               string
}

var htsReaderCfg = readerCfg{pkg: "bgzf", reader: "Reader", dec: "decompressor",
	head: "head", waiting: "waiting", working: "working", control: "control", done: "done", dwg: "wg",
	seek: "Seek", closeM: "Close", newReader: "NewReader"}

type readerModel struct {
	c     *Ctx
	cfg   readerCfg
	names *protoNames
	fns   []*ssa.Function
	// callers within the package
	callers map[*ssa.Function]int
	goEntry map[*ssa.Function]bool
	bad     map[string]bool
}

func newReaderModel(c *Ctx, cfg readerCfg) *readerModel {
	m := &readerModel{c: c, cfg: cfg, callers: map[*ssa.Function]int{}, goEntry: map[*ssa.Function]bool{}, bad: map[string]bool{}}
	pn := &protoNames{chans: map[*types.Var]string{}, wgs: map[*types.Var]string{}}
	for f, n := range map[string]string{cfg.head: "head", cfg.waiting: "waiting", cfg.working: "working", cfg.control: "control", cfg.done: "done"} {
		pn.chans[c.Field(cfg.pkg, cfg.reader, f)] = n
	}
	pn.wgs[c.Field(cfg.pkg, cfg.dec, cfg.dwg)] = "dwg"
	// a send on head of a freshly made value creates the token
	pn.sendName = func(s *ssa.Send, n string) string {
		if n != "head" {
			return ""
		}
		if f, _ := loadedField(s.X); f == nil {
			return "init:head"
		}
		return ""
	}
	m.names = pn
	m.fns = c.FuncsIn(cfg.pkg)
	inSet := map[*ssa.Function]bool{}
	for _, f := range m.fns {
		inSet[f] = true
	}
	for _, f := range m.fns {
		allInstrs(f, func(ins ssa.Instruction) {
			cc := callCommon(ins)
			if cc == nil {
				return
			}
			g := staticCallee(cc)
			if g == nil || !inSet[g] {
				return
			}
			if _, isGo := ins.(*ssa.Go); isGo {
				m.goEntry[g] = true
				return
			}
			m.callers[g]++
		})
	}
	// a `go` of a literal counts as the literal's dwg.Done if it does exactly one on every path
	goInProg := map[*ssa.Function]bool{}
	pn.extra = func(ins ssa.Instruction) (string, bool) {
		g, ok := ins.(*ssa.Go)
		if !ok {
			return "", false
		}
		callee := staticCallee(&g.Call)
		if callee == nil || callee.Blocks == nil {
			return "", false
		}
		if goInProg[callee] {
			return "", false
		}
		goInProg[callee] = true
		defer delete(goInProg, callee)
		w := NewWalker(c)
		w.Effect = pn.effect
		w.NonNil = m.receivedDec
		n, all := 0, true
		for _, s := range w.Summary(callee) {
			net := s["dwg.Done"] - s["dwg.Add"]
			if net != 0 {
				n++
			}
			if net != 1 {
				all = false
			}
		}
		if n == 0 {
			return "", false
		}
		if !all {
			m.bad[fmt.Sprintf("the goroutine started at %s does not call wg.Done exactly once on every path", c.Pos(ins.Pos()))] = true
			return "go:dwg.Done?", true
		}
		return "dwg.Done", true
	}
	return m
}

func (m *readerModel) walker() *Walker {
	w := NewWalker(m.c)
	w.Effect = m.names.effect
	w.Edge = m.names.edge
	w.CondEdge = m.names.condEdge
	w.NonNil = m.receivedDec
	return w
}

// receivedDec: v was received from waiting/working. Only non-nil decompressors
// are ever sent there (checked by ruleSendsNonNil), so it is not nil.
func (m *readerModel) receivedDec(v ssa.Value) bool {
	switch x := v.(type) {
	case *ssa.UnOp:
		n := m.names.chanName(x.X)
		return x.Op.String() == "<-" && !x.CommaOk && (n == "waiting" || n == "working")
	case *ssa.Extract:
		switch t := x.Tuple.(type) {
		case *ssa.Select:
			if x.Index >= 2 {
				k := 0
				for _, stt := range t.States {
					if stt.Dir == types.RecvOnly {
						if k == x.Index-2 {
							n := m.names.chanName(stt.Chan)
							return n == "waiting" || n == "working"
						}
						k++
					}
				}
			}
		case *ssa.UnOp:
			n := m.names.chanName(t.X)
			return t.Op.String() == "<-" && t.CommaOk && x.Index == 0 && (n == "waiting" || n == "working")
		}
	}
	return false
}

// ruleSendsNonNil: every value sent on waiting/working is a non-nil
// decompressor (a fresh allocation, a received one, or guarded by != nil).
func (m *readerModel) ruleSendsNonNil(r *Rep, rule string) {
	c := m.c
	for _, f := range m.fns {
		allInstrs(f, func(ins ssa.Instruction) {
			s, ok := ins.(*ssa.Send)
			if !ok {
				return
			}
			n := m.names.chanName(s.Chan)
			if n != "waiting" && n != "working" {
				return
			}
			r.Instance(rule, 1)
			key := c.FnName(f) + "#send-" + n
			v := strip(s.X)
			good := ""
			switch {
			case m.receivedDec(v):
				good = "value received from waiting/working"
			case isNonNilValue(v):
				good = "fresh allocation"
			default:
				// guarded by v != nil on a dominating edge
				for _, b := range f.Blocks {
					i := ifOf(b)
					if i == nil {
						continue
					}
					bo, isB := i.Cond.(*ssa.BinOp)
					if !isB || !isNilConst(bo.Y) || strip(bo.X) != v {
						continue
					}
					k := 0
					if bo.Op.String() == "==" {
						k = 1
					}
					if dominatedByEdge(f, b, k, s.Block()) {
						good = "guarded by != nil"
					}
				}
				// a field the same function assigned a fresh allocation
				if fv, _ := loadedField(v); fv != nil && good == "" {
					allInstrs(f, func(x ssa.Instruction) {
						if st, isSt := x.(*ssa.Store); isSt {
							if fa, isFa := st.Addr.(*ssa.FieldAddr); isFa && fieldVarOfAddr(fa) == fv && isNonNilValue(strip(st.Val)) && instrDominates(st, s) {
								good = "field assigned a fresh allocation earlier in the function"
							}
						}
					})
				}
			}
			r.Check(good != "", rule, key, c.Pos(s.Pos()), good, "cannot show that the decompressor sent here is non-nil")
		})
	}
}

func (m *readerModel) isEff(name string) func(ssa.Instruction) bool {
	return func(ins ssa.Instruction) bool {
		n, ok := m.names.effect(ins)
		return ok && n == name
	}
}

func (m *readerModel) isEntry(f *ssa.Function) bool {
	if m.goEntry[f] {
		return true
	}
	if f.Parent() != nil {
		return false
	}
	if o := f.Object(); o != nil && o.Exported() {
		return true
	}
	return m.callers[f] == 0
}

// ruleBalance: acquire/release effects balance on every path of every entry
// point (exported functions, goroutine bodies); helpers may have a constant
// non-zero net effect (pure acquire / pure release), never a varying one.
func (m *readerModel) ruleBalance(r *Rep, rule string, plus, minus string, what string) {
	c := m.c
	w := m.walker()
	for _, f := range m.fns {
		if f.Parent() != nil && !m.goEntry[f] {
			continue // literals are folded into their parents (defer) unless started with go
		}
		sums := w.Summary(f)
		nets := map[int]bool{}
		involved := false
		for _, s := range sums {
			if s[plus] != 0 || s[minus] != 0 {
				involved = true
			}
			nets[s[plus]-s[minus]] = true
		}
		if !involved {
			continue
		}
		r.Instance(rule, 1)
		var ns []int
		for n := range nets {
			ns = append(ns, n)
		}
		sort.Ints(ns)
		key := c.FnName(f) + "#" + what
		switch {
		case m.isEntry(f) && !m.goEntry[f] && !(len(ns) == 1 && ns[0] == 0):
			r.Fail(rule, key, c.Pos(f.Pos()), fmt.Sprintf("%s − %s over the paths of this entry point is %v, want 0 on every path: %s is not balanced, so a later operation blocks for ever", plus, minus, ns, what))
		case len(ns) != 1:
			r.Fail(rule, key, c.Pos(f.Pos()), fmt.Sprintf("%s − %s differs between paths of this helper (%v): on some path the %s is not given back / given back twice", plus, minus, ns, what))
		default:
			r.Pass(rule, key, c.Pos(f.Pos()), fmt.Sprintf("net %s−%s = %d on all %d distinct path summaries", plus, minus, ns[0], len(sums)))
		}
	}
	if w.overflow {
		r.Fail(rule, "UNDECIDED:path-budget", "-", "path enumeration budget exhausted")
	}
	for b := range m.bad {
		r.Fail(rule, "go-literal#done", "-", b)
	}
}

// R3: the read-ahead goroutine.
func (m *readerModel) ruleReadAhead(r *Rep, rule string) {
	c := m.c
	// the literal started with `go` that receives from waiting
	var fn *ssa.Function
	var recv *ssa.UnOp
	for f := range m.goEntry {
		allInstrs(f, func(ins ssa.Instruction) {
			if u, ok := ins.(*ssa.UnOp); ok && m.isEff("recv:waiting")(ins) {
				fn, recv = f, u
			}
		})
	}
	r.Instance(rule, 1)
	if fn == nil {
		r.Fail(rule, "read-ahead#found", "-", "no goroutine receiving from waiting found: undecided")
		return
	}
	w := m.walker()
	w.Stop = func(ins ssa.Instruction) bool { return ins == recv }
	why := map[string]bool{}
	for _, e := range w.Walk(fn, locOf(recv)) {
		_, isRet := e.At.(*ssa.Return)
		closed := e.Counts["closed:waiting"] + e.Counts["closed:control"]
		switch {
		case isRet:
			if closed == 0 {
				why["the goroutine returns without having seen waiting or control closed ("+traceStr(e.Trace)+"): decompressors sent to waiting later are never served"] = true
			}
			if e.Counts["close:done"] != 1 {
				why["a return path does not close done exactly once: Close blocks for ever"] = true
			}
		default: // looped back to the receive
			if e.Counts["open:waiting"] != 1 || e.Counts["send:working"] != 1 {
				why[fmt.Sprintf("a decompressor received from waiting is sent to working %d times before the next receive (%s)", e.Counts["send:working"], traceStr(e.Trace))] = true
			}
		}
	}
	r.Check(len(why) == 0, rule, c.FnName(fn)+"#read-ahead", c.Pos(fn.Pos()), "each decompressor taken from waiting goes to working exactly once; returns only over closed edges; done closed on exit", joinSet(why))
}

// R4: Seek hands back what it takes.
func (m *readerModel) ruleSeek(r *Rep, rule string) {
	c := m.c
	fn := c.Func(m.cfg.pkg, "(*"+m.cfg.reader+")."+m.cfg.seek)
	r.Instance(rule, 1)
	w := m.walker()
	ends := w.Walk(fn, entryLoc(fn))
	why := map[string]bool{}
	n := 0
	for _, e := range ends {
		if _, isRet := e.At.(*ssa.Return); !isRet {
			continue
		}
		n++
		took := e.Counts["recv:waiting"] + e.Counts["recv:working"]
		if e.Counts["send:waiting"] != took {
			why[fmt.Sprintf("a path takes %d decompressor(s) from waiting/working and gives %d back to waiting (%s)", took, e.Counts["send:waiting"], traceStr(e.Trace))] = true
		}
		// a path that took a decompressor has moved the reader: the worker is
		// re-pointed. (A path that took none may re-point it too – a Seek served
		// from the cache – which costs no decompressor; that such a send cannot
		// block is the drain obligation below.)
		if e.Counts["send:control"] < took {
			why[fmt.Sprintf("a path takes %d decompressor(s) and sends %d value(s) on control: the read-ahead goroutine is not re-pointed (%s)", took, e.Counts["send:control"], traceStr(e.Trace))] = true
		}
		if took > 1 {
			why["a path takes more than one decompressor"] = true
		}
	}
	if w.overflow || n == 0 {
		why["path enumeration failed: undecided"] = true
	}
	r.Check(len(why) == 0, rule, c.FnName(fn)+"#hand-back", c.Pos(fn.Pos()), fmt.Sprintf("on all %d feasible paths: decompressors taken = given back to waiting ≤ values sent on control", n), joinSet(why))

	// control has room for one instruction: a send by the reader does not block
	// because the same function has emptied the channel just before (a select
	// with a receive from control and a default), with no other send between.
	for _, f := range m.fns {
		if m.goEntry[f] || rootFn(f).Name() == m.cfg.newReader {
			continue
		}
		f := f
		k := 0
		allInstrs(f, func(ins ssa.Instruction) {
			if !m.isEff("send:control")(ins) {
				return
			}
			if _, isSend := ins.(*ssa.Send); !isSend {
				return // a call summarised as sending: decided in the callee
			}
			k++
			r.Instance(rule, 1)
			key := fmt.Sprintf("%s#control-drained~%d", c.FnName(f), k)
			isDrain := func(x ssa.Instruction) bool {
				sel, ok := x.(*ssa.Select)
				if !ok || sel.Blocking {
					return false
				}
				for _, stt := range sel.States {
					if stt.Dir == types.RecvOnly && m.names.chanName(stt.Chan) == "control" {
						return true
					}
				}
				return false
			}
			_, undrained := pathTo(entryLoc(f), is(ins), isDrain, nil)
			// … and no second send after the drain
			again := false
			allInstrs(f, func(d ssa.Instruction) {
				if isDrain(d) {
					if _, reach := pathTo(locOf(d), is(ins), func(x ssa.Instruction) bool { return x != ins && m.isEff("send:control")(x) }, nil); !reach {
						again = true
					}
				}
			})
			why := ""
			switch {
			case undrained:
				why = "the send on control can be reached without the channel having been emptied in this function: control holds one instruction, and if the worker has not taken the previous one the reader blocks in Seek for ever"
			case again:
				why = "between the emptying of control and this send there is another send: the channel is full again"
			}
			r.Check(why == "", rule, key, c.Pos(ins.Pos()), "control is emptied (select with default) before the send", why)
		})
	}
}

// R5: Close and channel capacities.
func (m *readerModel) ruleClose(r *Rep, rule string) {
	c := m.c
	fn := c.Func(m.cfg.pkg, "(*"+m.cfg.reader+")."+m.cfg.closeM)
	r.Instance(rule, 1)
	w := m.walker()
	why := map[string]bool{}
	some := false
	for _, e := range w.Walk(fn, entryLoc(fn)) {
		k := e.Counts["close:control"]
		if k > 0 || e.Counts["recv:done"] > 0 || e.Counts["close:waiting"] > 0 {
			some = true
			if !(k == 1 && e.Counts["close:waiting"] == 1 && e.Counts["recv:done"] == 1) {
				why[fmt.Sprintf("Close closes control %d×, waiting %d×, receives from done %d× on one path", k, e.Counts["close:waiting"], e.Counts["recv:done"])] = true
			}
		}
	}
	if !some {
		why["Close never closes control/waiting: the read-ahead goroutine leaks"] = true
	}
	// order: both closes before the receive on done
	for _, eff := range []string{"close:control", "close:waiting"} {
		if _, ok := mustPass(entryLoc(fn), m.isEff("recv:done"), m.isEff(eff), nil); !ok {
			why["Close can wait on done before "+eff+": the goroutine never finishes"] = true
		}
	}
	r.Check(len(why) == 0, rule, c.FnName(fn)+"#shutdown", c.Pos(fn.Pos()), "close(control), close(waiting), then <-done", joinSet(why))

	// capacities in NewReader
	nr := c.Func(m.cfg.pkg, m.cfg.newReader)
	r.Instance(rule, 1)
	sizes := map[string]ssa.Value{}
	allInstrs(nr, func(ins ssa.Instruction) {
		mk, ok := ins.(*ssa.MakeChan)
		if !ok {
			return
		}
		for _, ref := range *mk.Referrers() {
			if st, ok := ref.(*ssa.Store); ok {
				if fa, ok := st.Addr.(*ssa.FieldAddr); ok {
					if n := m.names.chans[fieldVarOfAddr(fa)]; n != "" {
						sizes[n] = mk.Size
					}
				}
			}
		}
	})
	cw := ""
	one := func(n string) {
		if k, ok := constInt(sizes[n]); sizes[n] == nil || !ok || k != 1 {
			cw += " " + n + " is not created with capacity 1;"
		}
	}
	one("head")
	one("control")
	if sizes["waiting"] == nil || sizes["working"] == nil || sizes["waiting"] != sizes["working"] {
		cw += " waiting and working are not created with the same capacity expression;"
	} else if _, isConst := sizes["waiting"].(*ssa.Const); isConst {
		cw += " waiting/working capacity is a constant, not the number of decompressors;"
	}
	// exactly one token
	inits := 0
	for _, f := range m.fns {
		allInstrs(f, func(ins ssa.Instruction) {
			if m.isEff("init:head")(ins) {
				inits++
				if _, again := pathTo(locOf(ins), func(x ssa.Instruction) bool { return x == ins }, nil, nil); again {
					inits++
				}
			}
		})
	}
	if inits != 1 {
		cw += fmt.Sprintf(" the head token is created %d times, want once;", inits)
	}
	r.Check(cw == "", rule, c.FnName(nr)+"#capacities", c.Pos(nr.Pos()), "head and control have capacity 1, waiting and working share the decompressor count, one head token", cw)
}
