// C07: header serialisation and identity invariants – structural part.
package main

import (
	"fmt"
	"go/ast"
	"go/token"
	"go/types"
	"regexp"
	"sort"
	"strconv"
	"strings"

	"golang.org/x/tools/go/ssa"
)

// ---- tag table -------------------------------------------------------------------------

// samTagTable: package-level variables of type Tag initialised with a two
// character literal: name -> text.
func samTagTable(c *Ctx) map[string]string {
	out := map[string]string{}
	p := c.ByPath["sam"]
	if p == nil {
		unresolved("package sam")
	}
	for _, f := range p.Syntax {
		for _, d := range f.Decls {
			gd, ok := d.(*ast.GenDecl)
			if !ok || gd.Tok != token.VAR {
				continue
			}
			for _, sp := range gd.Specs {
				vs := sp.(*ast.ValueSpec)
				for i, n := range vs.Names {
					if i >= len(vs.Values) {
						continue
					}
					cl, ok := vs.Values[i].(*ast.CompositeLit)
					if !ok || len(cl.Elts) != 2 {
						continue
					}
					if id, ok := cl.Type.(*ast.Ident); !ok || id.Name != "Tag" {
						continue
					}
					txt := ""
					for _, e := range cl.Elts {
						if bl, ok := e.(*ast.BasicLit); ok && bl.Kind == token.CHAR && len(bl.Value) == 3 {
							txt += bl.Value[1:2]
						}
					}
					if len(txt) == 2 {
						out[n.Name] = txt
					}
				}
			}
		}
	}
	if len(out) < 25 {
		unresolved("sam tag table: %d tags", len(out))
	}
	return out
}

// tagGlobalOf: v is a load of a package-level Tag variable.
func tagGlobalOf(v ssa.Value) *ssa.Global {
	u, ok := v.(*ssa.UnOp)
	if !ok || u.Op != token.MUL {
		return nil
	}
	g, ok := u.X.(*ssa.Global)
	if !ok {
		return nil
	}
	if pt, ok := g.Type().(*types.Pointer); ok {
		if n, ok := pt.Elem().(*types.Named); ok && n.Obj().Name() == "Tag" {
			return g
		}
	}
	return nil
}

type tagArm struct {
	g      *ssa.Global
	ifb    *ssa.BasicBlock
	region map[*ssa.BasicBlock]bool
}

// tagArms: the arms of switches over a Tag in fn (t == someTag tests), and the
// default region of the last test.
func tagArms(fn *ssa.Function) (arms []tagArm, dflt map[*ssa.BasicBlock]bool) {
	var last *ssa.BasicBlock
	for _, b := range fn.Blocks {
		iff := ifOf(b)
		if iff == nil {
			continue
		}
		bo, ok := iff.Cond.(*ssa.BinOp)
		if !ok || bo.Op != token.EQL {
			continue
		}
		g := tagGlobalOf(bo.Y)
		if g == nil {
			g = tagGlobalOf(bo.X)
		}
		if g == nil {
			continue
		}
		reg := map[*ssa.BasicBlock]bool{}
		for _, x := range fn.Blocks {
			if dominatedByEdge(fn, b, 0, x) {
				reg[x] = true
			}
		}
		arms = append(arms, tagArm{g, b, reg})
		// the last test of a chain: its false successor is not a tag test
		isTest := false
		if i2 := ifOf(b.Succs[1]); i2 != nil {
			if b2, ok := i2.Cond.(*ssa.BinOp); ok && b2.Op == token.EQL && (tagGlobalOf(b2.X) != nil || tagGlobalOf(b2.Y) != nil) {
				isTest = true
			}
		}
		if !isTest {
			last = b
		}
	}
	dflt = map[*ssa.BasicBlock]bool{}
	if last != nil {
		for _, x := range fn.Blocks {
			if dominatedByEdge(fn, last, 1, x) {
				dflt[x] = true
			}
		}
	}
	return
}

// fieldsTouched: struct fields of type `of` loaded (or, with stores, assigned)
// in the region; callees in the module are looked into one level for loads.
func fieldsIn(region map[*ssa.BasicBlock]bool, of *types.Named, stores bool) map[string]ssa.Instruction {
	out := map[string]ssa.Instruction{}
	isOf := func(fa *ssa.FieldAddr) bool {
		pt, ok := fa.X.Type().Underlying().(*types.Pointer)
		return ok && types.Identical(pt.Elem(), of)
	}
	var scan func(b *ssa.BasicBlock, depth int)
	scan = func(b *ssa.BasicBlock, depth int) {
		for _, ins := range b.Instrs {
			switch x := ins.(type) {
			case *ssa.Store:
				if fa, ok := x.Addr.(*ssa.FieldAddr); ok && stores && isOf(fa) {
					out[fieldVarOfAddr(fa).Name()] = ins
				}
			case *ssa.UnOp:
				if fa, ok := x.X.(*ssa.FieldAddr); ok && !stores && x.Op == token.MUL && isOf(fa) {
					out[fieldVarOfAddr(fa).Name()] = ins
				}
			case *ssa.Call:
				if g := staticCallee(&x.Call); g != nil && !stores && depth == 0 && len(g.Blocks) > 0 && g.Pkg != nil && g.Pkg.Pkg.Name() == "sam" {
					for _, cb := range g.Blocks {
						scan(cb, 1)
					}
				}
			}
		}
	}
	for b := range region {
		scan(b, 0)
	}
	return out
}

// ---- TAG-VIEWS ---------------------------------------------------------------------------------

var tagVerbRE = regexp.MustCompile(`(?:([A-Za-z][A-Za-z0-9]):)?%[-+# 0-9.]*[a-zA-Z]`)

type writerTag struct {
	tag   string
	field string
	call  *ssa.Call
	// verbatim: the field itself is printed with %s (no formatting call, no
	// other verb): the parser must then store the text as it stands
	verbatim bool
}

// fieldOfPrinted: the struct field a printed argument derives from.
func fieldOfPrinted(v ssa.Value, depth int) string {
	if depth > 5 {
		return ""
	}
	v = strip(v)
	if f, _ := loadedField(v); f != nil {
		return f.Name()
	}
	switch x := v.(type) {
	case *ssa.Convert:
		return fieldOfPrinted(x.X, depth+1)
	case *ssa.Call:
		if len(x.Call.Args) > 0 {
			if f := fieldOfPrinted(x.Call.Args[0], depth+1); f != "" {
				return f
			}
			// a helper method of the item itself (r.dateString()): the one
			// field of the receiver it reads
			if g := staticCallee(&x.Call); g != nil && g.Signature.Recv() != nil && len(g.Blocks) > 0 {
				if _, isParam := x.Call.Args[0].(*ssa.Parameter); isParam {
					fields := map[string]bool{}
					allInstrs(g, func(ins ssa.Instruction) {
						if u, ok := ins.(*ssa.UnOp); ok && u.Op == token.MUL {
							if fa, ok := u.X.(*ssa.FieldAddr); ok && fa.X == ssa.Value(g.Params[0]) {
								fields[fieldVarOfAddr(fa).Name()] = true
							}
						}
					})
					if len(fields) == 1 {
						for f := range fields {
							return f
						}
					}
				}
			}
		}
	case *ssa.UnOp:
		return fieldOfPrinted(x.X, depth+1)
	}
	return ""
}

func condMentions(v ssa.Value, field string, depth int) bool {
	if depth > 5 || v == nil {
		return false
	}
	if f, _ := loadedField(v); f != nil && f.Name() == field {
		return true
	}
	if ins, ok := v.(ssa.Instruction); ok {
		for _, op := range ins.Operands(nil) {
			if *op != nil && condMentions(*op, field, depth+1) {
				return true
			}
		}
	}
	return false
}

// writerTags: the "XX:%v" items of every Fprintf in fn whose format matches sel.
func writerTags(c *Ctx, fn *ssa.Function, sel func(format string) bool) (out []writerTag, other bool, problems []string) {
	allInstrs(fn, func(ins ssa.Instruction) {
		call, ok := ins.(*ssa.Call)
		if !ok {
			return
		}
		g := staticCallee(&call.Call)
		if g == nil || g.Pkg == nil || g.Pkg.Pkg.Path() != "fmt" || g.Name() != "Fprintf" {
			return
		}
		format, ok := constStringOf(call.Call.Args[1])
		if !ok || !sel(format) {
			return
		}
		ms := tagVerbRE.FindAllStringSubmatch(format, -1)
		args := varargElems(call.Call.Args[2])
		if len(ms) != len(args) {
			problems = append(problems, fmt.Sprintf("format %q has %d verbs for %d arguments", format, len(ms), len(args)))
			return
		}
		for i, m := range ms {
			if m[1] == "" {
				other = true // "\t%s:%s": the user-defined tags
				continue
			}
			f := fieldOfPrinted(args[i], 0)
			lf, _ := loadedField(strip(args[i]))
			out = append(out, writerTag{m[1], f, call, lf != nil && m[0][len(m[0])-1] == 's'})
			// an optional item sits under a test of its own field
			if i == 0 && len(ms) == 1 {
				guarded := false
				for _, b := range fn.Blocks {
					if iff := ifOf(b); iff != nil && condMentions(iff.Cond, f, 0) && (dominatedByEdge(fn, b, 0, call.Block()) || dominatedByEdge(fn, b, 1, call.Block())) {
						guarded = true
					}
				}
				if !guarded && !strings.HasPrefix(format, "@") {
					problems = append(problems, fmt.Sprintf("%s:%s is printed at %s without a test of that field", m[1], f, c.Pos(call.Pos())))
				}
			}
		}
	})
	return
}

func isRawFieldText(v ssa.Value) bool {
	cv, ok := strip(v).(*ssa.Convert)
	if !ok {
		return false
	}
	sl, ok := cv.X.(*ssa.Slice)
	if !ok || sl.Low == nil || sl.High != nil {
		return false
	}
	k, ok := constInt(sl.Low)
	return ok && k == 3
}

func ruleTagViews(c *Ctx, r *Rep, tier string) {
	rule := "TAG-VIEWS"
	tags := samTagTable(c)
	kinds := []struct {
		typ, parser, writer, line string
	}{
		{"Reference", "referenceLine", "(*Reference).String", "@SQ"},
		{"ReadGroup", "readGroupLine", "(*ReadGroup).String", "@RG"},
		{"Program", "programLine", "(*Program).String", "@PG"},
		{"Header", "headerLine", "(*Header).MarshalText", "@HD"},
	}
	for _, k := range kinds {
		T := c.Named("sam", k.typ)
		wfn, pfn := c.Func("sam", k.writer), c.Func("sam", k.parser)
		sel := func(format string) bool { return true }
		if k.typ == "Header" {
			sel = func(format string) bool { return strings.HasPrefix(format, "@HD") || format == "\t%s:%s" }
		}
		wts, wOther, probs := writerTags(c, wfn, sel)
		for _, p := range probs {
			r.Instance(rule, 1)
			r.Fail(rule, "sam."+k.writer+"#format", c.Pos(wfn.Pos()), p)
		}
		// a field/tag may be printed by more than one Fprintf (the two @HD formats): de-duplicate
		wmap := map[string]string{}
		wverbatim := map[string]bool{}
		for _, wt := range wts {
			wverbatim[wt.tag] = wt.verbatim
			if old, ok := wmap[wt.tag]; ok && old != wt.field {
				r.Instance(rule, 1)
				r.Fail(rule, "sam."+k.writer+"#"+wt.tag, c.Pos(wt.call.Pos()), fmt.Sprintf("tag %s is printed from field %s and from field %s", wt.tag, old, wt.field))
			}
			wmap[wt.tag] = wt.field
		}
		// parser arms
		arms, dflt := tagArms(pfn)
		parm := map[string]map[string]ssa.Instruction{}
		for _, a := range arms {
			parm[tags[a.g.Name()]] = fieldsIn(a.region, T, true)
		}
		var wtags []string
		for t := range wmap {
			wtags = append(wtags, t)
		}
		sort.Strings(wtags)
		for _, t := range wtags {
			f := wmap[t]
			r.Instance(rule, 1)
			key := fmt.Sprintf("sam.%s/%s#%s:%s", k.typ, k.parser, t, f)
			why := ""
			st, ok := parm[t][f]
			switch {
			case f == "":
				why = "cannot tell which field is printed under " + t
			case parm[t] == nil:
				why = fmt.Sprintf("%s prints %s from %s, but %s has no arm for that tag: the value lands among the user-defined tags (or is lost) and the line is not reproduced", k.writer, t, f, k.parser)
			case !ok:
				var got []string
				for g := range parm[t] {
					got = append(got, g)
				}
				sort.Strings(got)
				why = fmt.Sprintf("%s prints %s from field %s, but the %s arm of %s assigns %v directly (a value passed through an editing method such as Set may be normalised: the line parser has to be the inverse of String)", k.writer, t, f, t, k.parser, got)
			default:
				// string fields take the raw text
				fv := c.Field("sam", k.typ, f)
				if b, isB := fv.Type().Underlying().(*types.Basic); isB && b.Kind() == types.String && wverbatim[t] {
					if s := st.(*ssa.Store); !isRawFieldText(s.Val) {
						why = fmt.Sprintf("field %s does not receive the raw text after %q: %s", f, t+":", symKey(s.Val))
					}
				}
			}
			pos := c.Pos(pfn.Pos())
			if ok {
				pos = c.Pos(st.Pos())
			}
			r.Check(why == "", rule, key, pos, fmt.Sprintf("written from and parsed into field %s", f), why)
		}
		// tags the parser knows but the writer does not
		for t, fs := range parm {
			if _, ok := wmap[t]; ok || len(fs) == 0 {
				continue
			}
			r.Instance(rule, 1)
			r.Fail(rule, fmt.Sprintf("sam.%s/%s#%s:parsed-only", k.typ, k.parser, t), c.Pos(pfn.Pos()), fmt.Sprintf("%s parses tag %s into a field that %s never prints", k.parser, t, k.writer))
		}
		// user-defined tags: kept by the default arm, printed by the "\t%s:%s" loop
		r.Instance(rule, 1)
		_, keeps := fieldsIn(dflt, T, true)["otherTags"]
		r.Check(keeps && wOther, rule, fmt.Sprintf("sam.%s/%s#other-tags", k.typ, k.parser), c.Pos(pfn.Pos()), "unknown tags are appended to otherTags and printed back", fmt.Sprintf("user-defined tags: kept by parser=%v, printed by writer=%v", keeps, wOther))

		// the other views: Get, Set, Tags agree with String on which field a tag means
		for _, view := range []struct {
			m      string
			stores bool
		}{{"Get", false}, {"Set", true}} {
			vfn := c.FuncOpt("sam", "(*"+k.typ+")."+view.m)
			if vfn == nil {
				continue
			}
			varms, _ := tagArms(vfn)
			vm := map[string]map[string]ssa.Instruction{}
			for _, a := range varms {
				vm[tags[a.g.Name()]] = fieldsIn(a.region, T, view.stores)
			}
			for _, t := range wtags {
				f := wmap[t]
				r.Instance(rule, 1)
				key := fmt.Sprintf("sam.(*%s).%s#%s:%s", k.typ, view.m, t, f)
				_, ok := vm[t][f]
				verb := "reads"
				if view.stores {
					verb = "assigns"
				}
				var got []string
				foreign := false
				for g := range vm[t] {
					got = append(got, g)
					for t2, f2 := range wmap {
						if t2 != t && f2 == g && g != f {
							foreign = true
						}
					}
				}
				sort.Strings(got)
				// an arm that touches no tag field at all (Program.Set(ID) only
				// validates) does not contradict String; one that touches the
				// field of another tag does
				if !ok && !foreign && view.stores {
					ok = true
				}
				r.Check(ok, rule, key, c.Pos(vfn.Pos()), fmt.Sprintf("%s(%s) %s field %s", view.m, t, verb, f), fmt.Sprintf("String prints %s from field %s, but %s(%s) %s %v", t, f, view.m, t, verb, got))
			}
		}
		if tfn := c.FuncOpt("sam", "(*"+k.typ+").Tags"); tfn != nil {
			seen := map[string]string{}
			allInstrs(tfn, func(ins ssa.Instruction) {
				call, ok := ins.(*ssa.Call)
				if !ok || call.Call.IsInvoke() || staticCallee(&call.Call) != nil || len(call.Call.Args) != 2 {
					return
				}
				g := tagGlobalOf(call.Call.Args[0])
				if g == nil {
					return
				}
				seen[tags[g.Name()]] = fieldOfPrinted(call.Call.Args[1], 0)
				if seen[tags[g.Name()]] == "" {
					// through an accessor (r.Name()) or a formatting call
					var fs []string
					reg := map[*ssa.BasicBlock]bool{call.Block(): true}
					for f := range fieldsIn(reg, T, false) {
						fs = append(fs, f)
					}
					sort.Strings(fs)
					seen[tags[g.Name()]] = strings.Join(fs, ",")
				}
			})
			for _, t := range wtags {
				f := wmap[t]
				r.Instance(rule, 1)
				got, ok := seen[t]
				good := ok && (got == f || strings.Contains(","+got+",", ","+f+","))
				r.Check(good, rule, fmt.Sprintf("sam.(*%s).Tags#%s:%s", k.typ, t, f), c.Pos(tfn.Pos()), fmt.Sprintf("Tags reports %s from field %s", t, f), fmt.Sprintf("String prints %s from field %s, Tags reports it from %q (present=%v)", t, f, got, ok))
			}
		}
	}
}

// ruleDateZone (DATE-ZONE): every layout a read group's date is printed with
// carries a zone designator, and (with its colons removed, as parseISO8601 does)
// is one of the layouts the parser accepts as non-local. A layout without a
// zone is read back in time.Local: the instant changes for any other zone.
// Added after a blind second-round seed (midnight printed date-only).
var fracRE = regexp.MustCompile(`\.[09]+`)

func ruleDateZone(c *Ctx, r *Rep, tier string) {
	rule := "DATE-ZONE"
	p := c.ByPath["sam"]
	// the parser's table
	type ent struct {
		local  bool
		layout string
	}
	var table []ent
	for _, f := range p.Syntax {
		ast.Inspect(f, func(n ast.Node) bool {
			vs, ok := n.(*ast.ValueSpec)
			if !ok || len(vs.Names) != 1 || vs.Names[0].Name != "iso8601" || len(vs.Values) != 1 {
				return true
			}
			cl, ok := vs.Values[0].(*ast.CompositeLit)
			if !ok {
				return true
			}
			for _, e := range cl.Elts {
				ecl, ok := e.(*ast.CompositeLit)
				if !ok {
					continue
				}
				var en ent
				for _, kv := range ecl.Elts {
					k, ok := kv.(*ast.KeyValueExpr)
					if !ok {
						continue
					}
					tv := p.TypesInfo.Types[k.Value]
					if tv.Value == nil {
						continue
					}
					switch k.Key.(*ast.Ident).Name {
					case "isLocal":
						en.local = tv.Value.String() == "true"
					case "format":
						en.layout, _ = strconv.Unquote(tv.Value.ExactString())
					}
				}
				table = append(table, en)
			}
			return true
		})
	}
	if len(table) < 6 {
		unresolved("sam.iso8601: %d entries", len(table))
	}
	n := 0
	for _, fn := range c.FuncsIn("sam") {
		// ReadGroup's methods, and the helpers they format the date with
		if !(fn.Signature.Recv() != nil && strings.Contains(fn.Signature.Recv().Type().String(), "ReadGroup")) && !calledFromReadGroup(c, fn) {
			continue
		}
		fn := fn
		allInstrs(fn, func(ins ssa.Instruction) {
			call, ok := ins.(*ssa.Call)
			if !ok {
				return
			}
			g := staticCallee(&call.Call)
			if g == nil || g.Name() != "Format" || g.Pkg == nil || g.Pkg.Pkg.Path() != "time" {
				return
			}
			n++
			r.Instance(rule, 1)
			key := fmt.Sprintf("%s#Format~%d", c.FnName(fn), n)
			layout, ok := constStringOf(call.Call.Args[1])
			why := ""
			switch {
			case !ok:
				why = "the layout is not a constant: " + symKey(call.Call.Args[1])
			case !strings.Contains(layout, "-0700") && !strings.Contains(layout, "Z07") && !strings.Contains(layout, "MST"):
				why = fmt.Sprintf("the date is printed with layout %q, which has no zone: it is read back in the local zone and the instant changes", layout)
			default:
				// a fractional-seconds element, however many digits, is one element
				// (time.Parse takes any number of digits for it); with nines it is
				// left out when the fraction is zero, so the layout without it must
				// be accepted as well
				normFrac := func(l string) string { return fracRE.ReplaceAllString(l, ".9") }
				basic := strings.ReplaceAll(layout, ":", "")
				plain := fracRE.ReplaceAllString(basic, "")
				found, foundPlain, tableHasFrac := false, false, false
				for _, e := range table {
					if fracRE.MatchString(e.layout) {
						tableHasFrac = true
					}
					if e.local {
						continue
					}
					if normFrac(e.layout) == normFrac(basic) {
						found = true
					}
					if e.layout == plain {
						foundPlain = true
					}
				}
				switch {
				case !found:
					why = fmt.Sprintf("the parser has no non-local entry for layout %q (colons removed: %q)", layout, basic)
				case plain != basic && !foundPlain:
					why = fmt.Sprintf("layout %q leaves the fraction out when it is zero, and the parser has no non-local entry for %q", layout, plain)
				case tableHasFrac && !fracRE.MatchString(basic):
					why = fmt.Sprintf("the parser accepts dates with fractional seconds, and the date is printed with layout %q, which has none: a read group date with a fraction (2014-08-13T16:02:01.5+00:00) loses it when the header is written, and ReadGroup.Time() differs after a round trip", layout)
				case !strings.Contains(layout, "07:00:00") && !strings.Contains(layout, "070000") && !wholeMinuteOffset(fn, call.Call.Args[0]):
					why = fmt.Sprintf("layout %q writes the zone offset to the minute, the clock fields are computed with all of it: a date in a zone whose offset has seconds (the local mean time entries of the tz database, +00:19:32) is written as another instant – the value formatted is not shown to be in UTC or in a zone with a whole-minute offset", layout)
				}
			}
			r.Check(why == "", rule, key, c.Pos(call.Pos()), fmt.Sprintf("layout %q carries the zone and is accepted as non-local", layout), why)
		})
	}
	if n == 0 {
		r.Instance(rule, 1)
		r.Fail(rule, "sam.ReadGroup#date-formats", "sam/read_group.go", "no time.Format call found in ReadGroup's methods or the functions they call")
	}
}

// ruleMergeKeeps (MERGE-KEEPS): when AddReference folds a compatible duplicate
// into the reference the header already owns, it only ever overwrites a field
// with the duplicate's non-empty value of the same field: nothing the owned
// reference knows is discarded. (DecodeBinary adds the bare references of the
// binary list after the text was parsed; an unconditional reset dropped every
// user-defined @SQ tag of every BAM header read.) And the @CO parser keeps the
// whole remainder of the line. Both reported by a second-round seeding agent as
// defects of the unchanged tree, confirmed and repaired.
func ruleMergeKeeps(c *Ctx, r *Rep, tier string) {
	rule := "MERGE-KEEPS"
	fn := c.Func("sam", "(*Header).AddReference")
	kept := keptTextFields(c, "Reference")
	n := 0
	for _, e := range effectsOf(fn) {
		if e.Kind != "store" || !strings.HasPrefix(e.Addr, "$0.refs[") || !strings.Contains(e.Addr, "].") {
			continue
		}
		// the slot itself is not a field of the owned reference
		F := e.Addr[strings.LastIndex(e.Addr, ".")+1:]
		if kept[F] {
			// a field in which String keeps its own text: resetting it discards
			// nothing the header knows (MEMO-COHERENT demands exactly this store)
			continue
		}
		n++
		r.Instance(rule, 1)
		key := "sam.(*Header).AddReference#merge-" + F
		why := ""
		if e.Val != "$1."+F {
			why = fmt.Sprintf("the owned reference's %s is set to %s, not to the added reference's %s", F, e.Val, F)
		} else {
			guarded := false
			for _, b := range fn.Blocks {
				iff := ifOf(b)
				if iff == nil {
					continue
				}
				bo, ok := iff.Cond.(*ssa.BinOp)
				if !ok || bo.Op != token.NEQ || symKey(bo.X) != "$1."+F {
					continue
				}
				if dominatedByEdge(fn, b, 0, e.Ins.Block()) {
					guarded = true
				}
			}
			if !guarded {
				why = fmt.Sprintf("the owned reference's %s is overwritten even when the added reference has none", F)
			}
		}
		r.Check(why == "", rule, key, c.Pos(e.Ins.Pos()), "overwritten only by the duplicate's non-empty "+F, why+": information the header held (from its text) is lost when the bare reference of the binary list is added")
	}
	if n < 4 {
		r.Instance(rule, 1)
		r.Fail(rule, "sam.(*Header).AddReference#merge-fields", c.Pos(fn.Pos()), fmt.Sprintf("%d merged fields found, want at least 4", n))
	}
	// @CO
	r.Instance(rule, 1)
	{
		cl := c.Func("sam", "commentLine")
		ok := false
		got := ""
		for _, e := range effectsOf(cl) {
			if e.Kind == "store" && e.Addr == "$1.Comments" {
				got = e.Val
				ok = e.Val == "append($1.Comments,[$0[4:]])"
			}
		}
		r.Check(ok, rule, "sam.commentLine#whole-remainder", c.Pos(cl.Pos()), "the comment is l[4:], everything after \"@CO\\t\"", "the comment stored is "+got+", not the remainder of the line: a comment containing a tab is cut")
	}
}

// ---- COUPLED-HEADER -------------------------------------------------------------------------------

type hdrKind struct{ F, seen, name, typ string }

var hdrKinds = []hdrKind{
	{"refs", "seenRefs", "name", "Reference"},
	{"rgs", "seenGroups", "name", "ReadGroup"},
	{"progs", "seenProgs", "uid", "Program"},
}

func itemKey(x string) string { return strings.TrimPrefix(x, "&") }

// hasEffDom: like hasEff, but the effect must be executed on every path to site.
func hasEffDom(effs []eff, site ssa.Instruction, kind, addr string, vals ...string) *eff {
	for i, e := range effs {
		if e.Kind != kind || e.Addr != addr || !instrDominates(e.Ins, site) {
			continue
		}
		for _, v := range vals {
			if e.Val == v {
				return &effs[i]
			}
		}
	}
	return nil
}

func hasEff(effs []eff, kind, addr string, vals ...string) *eff {
	for i, e := range effs {
		if e.Kind != kind || e.Addr != addr {
			continue
		}
		for _, v := range vals {
			if e.Val == v {
				return &effs[i]
			}
		}
	}
	return nil
}

func ruleCoupledHeader(c *Ctx, r *Rep, tier string) {
	rule := "COUPLED-HEADER"
	sites := 0
	slotRE := regexp.MustCompile(`^([A-Za-z0-9_.&:()\[\]$^#]*?)\.(refs|rgs|progs)\[(.*)\]$`)
	for _, fn := range c.FuncsIn("sam") {
		effs := effectsOf(fn)
		name := c.FnName(fn)
		classified := map[ssa.Instruction]bool{}
		need := func(key string, site ssa.Instruction, ok bool, just, why string) {
			r.Instance(rule, 1)
			r.Check(ok, rule, key, c.Pos(site.Pos()), just, why)
		}
		domOK := func(e *eff, site ssa.Instruction) bool { return e != nil && instrDominates(e.Ins, site) }
		for _, e := range effs {
			if e.Kind != "store" {
				continue
			}
			for _, k := range hdrKinds {
				// (A) append of one item, (B) removal of one item, (D) wholesale
				if strings.HasSuffix(e.Addr, "."+k.F) {
					H := strings.TrimSuffix(e.Addr, "."+k.F)
					cont := H + "." + k.F
					switch {
					case strings.HasPrefix(e.Val, "append("+cont+",[") && strings.HasSuffix(e.Val, "])"):
						sites++
						classified[e.Ins] = true
						X := strings.TrimSuffix(strings.TrimPrefix(e.Val, "append("+cont+",["), "])")
						x := itemKey(X)
						idv := "len(" + cont + ")"
						site := fmt.Sprintf("%s#append-%s(%s)", name, k.F, x)
						o := hasEffDom(effs, e.Ins, "store", x+".owner", H, "&"+H)
						need(site+":owner", e.Ins, domOK(o, e.Ins), x+".owner = "+H+" before the append", fmt.Sprintf("%s is appended to %s without %s.owner = %s on every path: the item does not know its header (Remove refuses it, SetName skips the name table)", x, cont, x, H))
						i := hasEffDom(effs, e.Ins, "store", x+".id", idv)
						need(site+":id", e.Ins, domOK(i, e.Ins), x+".id = "+idv+" before the append", fmt.Sprintf("%s is appended to %s without %s.id = %s (its index) on every path", x, cont, x, idv))
						m := hasEffDom(effs, e.Ins, "mapupdate", H+"."+k.seen+"["+x+"."+k.name+"]", idv, x+".id")
						need(site+":name-table", e.Ins, domOK(m, e.Ins) && (m.Val == idv || domOK(i, m.Ins)), H+"."+k.seen+"["+x+"."+k.name+"] = its id", fmt.Sprintf("%s is appended to %s without entering its %s in %s: a second item of that name is accepted (names no longer unique)", x, cont, k.name, H+"."+k.seen))
					case strings.HasPrefix(e.Val, "append("+cont+"[:") && strings.Contains(e.Val, "],"+cont+"[("):
						sites++
						classified[e.Ins] = true
						I := strings.TrimPrefix(e.Val, "append("+cont+"[:")
						I = I[:strings.Index(I, "],"+cont+"[(")]
						x := strings.TrimSuffix(I, ".id")
						site := fmt.Sprintf("%s#remove-%s(%s)", name, k.F, x)
						wantVal := "append(" + cont + "[:" + I + "]," + cont + "[(" + I + "+1):])"
						need(site+":splice", e.Ins, e.Val == wantVal && strings.HasSuffix(I, ".id"), "the item at its own id is spliced out", "the splice is "+e.Val+", want "+wantVal)
						d := hasEff(effs, "delete", H+"."+k.seen, x+"."+k.name)
						need(site+":name-table", e.Ins, d != nil, "delete("+H+"."+k.seen+", "+x+"."+k.name+")", fmt.Sprintf("the removed item's %s stays in %s: it cannot be added again and blocks the name for others", k.name, H+"."+k.seen))
						// the renumbering loop: some element of the container gets id-1,
						// however the loop addresses it (range over the tail, index + id)
						elem := cont + "[" + I + ":][(phi:rangeindex+1)]"
						var ren *eff
						for i2, e2 := range effs {
							if e2.Kind == "store" && strings.HasPrefix(e2.Addr, cont+"[") && strings.HasSuffix(e2.Addr, ".id") && e2.Val == "("+e2.Addr+"-1)" {
								ren = &effs[i2]
								elem = strings.TrimSuffix(e2.Addr, ".id")
							}
						}
						need(site+":renumber", e.Ins, ren != nil && instrDominates(e.Ins, ren.Ins), "every following item's id is decremented", "the items after the removed one keep their ids: id != index")
						if ren != nil {
							mu := hasEff(effs, "mapupdate", H+"."+k.seen+"["+elem+"."+k.name+"]", elem+".id")
							need(site+":renumber-name-table", e.Ins, mu != nil && mu.Ins.Block() == ren.Ins.Block() && instrDominates(ren.Ins, mu.Ins), "… and the name table follows", fmt.Sprintf("ids are renumbered but %s keeps the old ids: the next lookup of a later item's %s indexes %s with a stale id (wrong item, or out of range)", H+"."+k.seen, k.name, cont))
						}
						i := hasEff(effs, "store", x+".id", "-1")
						need(site+":release-id", e.Ins, i != nil && instrDominates(e.Ins, i.Ins) && (ren == nil || !instrDominates(i.Ins, ren.Ins)), x+".id = -1 after the renumbering", "the removed item keeps an id (or loses it before the renumbering loop used it)")
						o := hasEff(effs, "store", x+".owner", "nil")
						need(site+":release-owner", e.Ins, o != nil, x+".owner = nil", "the removed item keeps its owner: no header accepts it again")
						// guard: id within the same container, and the item at that id is the one removed
						g1, g2 := false, false
						allInstrs(fn, func(ins ssa.Instruction) {
							bo, ok := ins.(*ssa.BinOp)
							if !ok {
								return
							}
							kx, ky, op := symKey(bo.X), symKey(bo.Y), bo.Op
							if ky == I && strings.HasPrefix(kx, "len(") {
								// len(list) <= id: the same test read from the other side
								kx, ky = ky, kx
								if op == token.LEQ {
									op = token.GEQ
								}
							}
							if strings.HasSuffix(ky, "["+I+"]") && kx == x {
								kx, ky = ky, kx // item != list[id]
							}
							if kx == I && strings.HasPrefix(ky, "len(") {
								if ky == "len("+cont+")" && (op == token.GEQ) {
									g1 = true
								} else {
									g1 = false
									need(site+":guard-container", ins, false, "", fmt.Sprintf("the bounds test compares %s with %s, but the item is removed from %s (GUARD-CONTAINER)", I, ky, cont))
								}
							}
							if strings.HasSuffix(kx, "["+I+"]") && ky == x && bo.Op == token.NEQ {
								if kx == cont+"["+I+"]" {
									g2 = true
								} else {
									need(site+":guard-identity", ins, false, "", fmt.Sprintf("the identity test looks at %s, but the item is removed from %s", kx, cont))
								}
							}
						})
						need(site+":guard", e.Ins, g1 && g2, "guarded by id < len("+cont+") and "+cont+"[id] == item", "the removal is not guarded by a bounds and identity test on "+cont)
					case strings.HasPrefix(e.Val, "make("):
						classified[e.Ins] = true // Clone: filled slot by slot below
					case !strings.Contains(e.Val, "("):
						// wholesale adoption of a caller's list (NewHeader)
						sites++
						classified[e.Ins] = true
						J := "(phi:rangeindex+1)"
						elem := cont + "[" + J + "]"
						site := fmt.Sprintf("%s#adopt-%s", name, k.F)
						hv := "&" + H
						need(site+":owner", e.Ins, hasEff(effs, "store", elem+".owner", H, hv) != nil, "each adopted item gets owner", "the adopted items keep a nil owner")
						need(site+":id", e.Ins, hasEff(effs, "store", elem+".id", J) != nil, "each adopted item gets its index as id", "the adopted items are not numbered by their index")
						need(site+":name-table", e.Ins, hasEff(effs, "mapupdate", H+"."+k.seen+"["+elem+"."+k.name+"]", elem+".id", J) != nil, "each adopted item's name enters "+k.seen, fmt.Sprintf("the adopted items are not entered in %s: later lines or AddReference calls with the same name create duplicates", k.seen))
					default:
						need(fmt.Sprintf("%s#assign-%s", name, k.F), e.Ins, false, "", "unrecognised assignment of "+cont+": "+e.Val)
					}
					continue
				}
				// (C) slot store
				if m := slotRE.FindStringSubmatch(e.Addr); m != nil && m[2] == k.F {
					H, IDX := m[1], m[3]
					cont := H + "." + k.F
					sites++
					classified[e.Ins] = true
					x := itemKey(e.Val)
					site := fmt.Sprintf("%s#slot-%s", name, k.F)
					if e.Val == "&local:new" {
						// a fresh copy (Clone): content from the source's item at the same index, owner = the new header
						cp := hasEff(effs, "store", "*"+e.Addr, "*$0."+k.F+"["+IDX+"]")
						need(site+":copy", e.Ins, cp != nil, "copy of the source's item at the same index (id equals index by copy)", "the fresh item in slot "+IDX+" is not a copy of the source's "+k.F+"["+IDX+"]")
						o := hasEff(effs, "store", e.Addr+".owner", "&"+H, H)
						need(site+":owner", e.Ins, o != nil, "owner = the clone", "the copied item keeps the source header as owner")
						mk := "next(range($0." + k.seen + "))"
						mc := hasEff(effs, "mapupdate", H+"."+k.seen+"["+mk+"#1]", mk+"#2")
						need(site+":name-table", e.Ins, mc != nil, k.seen+" copied entry by entry", "the clone's "+k.seen+" is not filled from the source's")
						continue
					}
					o := hasEff(effs, "store", x+".owner", H, "&"+H)
					need(site+":owner", e.Ins, o != nil, x+".owner = "+H, fmt.Sprintf("%s is stored in %s[%s] without becoming owned by %s", x, cont, IDX, H))
					i := hasEff(effs, "store", x+".id", IDX)
					need(site+":id", e.Ins, i != nil, x+".id = "+IDX, fmt.Sprintf("%s is stored in %s[%s] but its id is not set to %s: id != index", x, cont, IDX, IDX))
					od := hasEff(effs, "store", e.Addr+".owner", "nil")
					oi := hasEff(effs, "store", e.Addr+".id", "-1")
					need(site+":displaced", e.Ins, domOK(od, e.Ins) && domOK(oi, e.Ins), "the displaced item is released first", "the item that was in the slot still claims to belong to the header")
				}
			}
		}
		// (E) renames
		if fn.Name() == "SetName" || fn.Name() == "SetUID" {
			for _, k := range hdrKinds {
				if fn.Signature.Recv() == nil || !strings.Contains(fn.Signature.Recv().Type().String(), "."+k.typ) {
					continue
				}
				R := paramKey(fn.Params[0])
				N := paramKey(fn.Params[1])
				st := hasEff(effs, "store", R+"."+k.name, N)
				if st == nil {
					continue
				}
				sites++
				site := name + "#rename"
				d := hasEff(effs, "delete", R+".owner."+k.seen, R+"."+k.name)
				mu := hasEff(effs, "mapupdate", R+".owner."+k.seen+"["+N+"]", R+".id")
				need(site+":delete-old", st.Ins, d != nil && instrDominates(d.Ins, st.Ins) || d != nil && pathOrder(d.Ins, st.Ins), "the old name leaves the owner's table before the field changes", "the old name stays in the owner's name table (or is deleted after the field already holds the new one)")
				need(site+":insert-new", st.Ins, mu != nil, "the new name enters the owner's table with the item's id", "the new name is not entered in the owner's name table: a later item of that name is accepted")
				if d != nil && mu != nil {
					// delete(old) then insert(new): the other order erases the entry
					// just made when an item is renamed to the name it already has
					// (unless that case has been excluded by a test of the two names)
					excluded := false
					for _, b := range fn.Blocks {
						iff := ifOf(b)
						if iff == nil || b.Succs[0] == b.Succs[1] {
							continue
						}
						if bo, ok := iff.Cond.(*ssa.BinOp); ok && (bo.Op == token.EQL || bo.Op == token.NEQ) {
							kx, ky := symKey(bo.X), symKey(bo.Y)
							if (kx == N && ky == R+"."+k.name) || (ky == N && kx == R+"."+k.name) {
								e := 1 // names differ: false edge of ==
								if bo.Op == token.NEQ {
									e = 0
								}
								if dominatedByEdge(fn, b, e, d.Ins.Block()) {
									excluded = true
								}
							}
						}
					}
					need(site+":delete-before-insert", st.Ins, excluded || instrDominates(d.Ins, mu.Ins), "the old name is deleted before the new one is entered", "the new name is entered before the old one is deleted: renaming an item to the name it already has deletes the entry just made, the name disappears from the table and a second item of that name is accepted")
				}
				// under owner != nil
				guard := false
				if d != nil {
					for _, b := range fn.Blocks {
						ce, ok := classifyErrIf(b, func(v ssa.Value) bool { return symKey(v) == R+".owner" })
						if ok && ce.isNil && dominatedByEdge(fn, b, 1-ce.yes, d.Ins.Block()) {
							guard = true
						}
					}
				}
				need(site+":owned-only", st.Ins, guard, "table maintenance under owner != nil", "the name table is touched without an owner test")
			}
		}
		_ = classified
	}
	if sites < 12 {
		r.Instance(rule, 1)
		r.Fail(rule, "sam#coupled-sites", "sam", fmt.Sprintf("only %d container sites recognised (12 confirmed by hand)", sites))
	}
	// closure: owner and id of the three item types are assigned nowhere else
	allowed := map[string]bool{}
	for _, fn := range c.FuncsIn("sam") {
		for _, e := range effectsOf(fn) {
			if e.Kind != "store" || !(strings.HasSuffix(e.Addr, ".owner") || strings.HasSuffix(e.Addr, ".id")) {
				continue
			}
			st := e.Ins.(*ssa.Store)
			fa, ok := st.Addr.(*ssa.FieldAddr)
			if !ok {
				continue
			}
			pt, _ := fa.X.Type().Underlying().(*types.Pointer)
			if pt == nil {
				continue
			}
			n, ok := pt.Elem().(*types.Named)
			if !ok || (n.Obj().Name() != "Reference" && n.Obj().Name() != "ReadGroup" && n.Obj().Name() != "Program") {
				continue
			}
			allowed[c.FnName(fn)] = true
		}
	}
	want := map[string]bool{}
	for _, f := range []string{"sam.NewHeader", "sam.(*Header).Clone", "sam.(*Header).AddReference", "sam.(*Header).AddReadGroup", "sam.(*Header).AddProgram",
		"sam.(*Header).RemoveReference", "sam.(*Header).RemoveReadGroup", "sam.(*Header).RemoveProgram", "sam.referenceLine", "sam.readGroupLine", "sam.programLine",
		"sam.NewReference", "sam.NewReadGroup", "sam.NewProgram", "sam.(*Reference).Clone", "sam.(*ReadGroup).Clone", "sam.(*Program).Clone", "sam.readRefRecords",
		"sam.referenceForName", // a placeholder Reference{id: -1} for records parsed without a header; never enters a header
	} {
		want[f] = true
	}
	var extra []string
	for f := range allowed {
		if !want[f] {
			extra = append(extra, f)
		}
	}
	sort.Strings(extra)
	r.Instance(rule, 1)
	ruleHeaderCopy(c, r)
	r.Check(len(extra) == 0, rule, "sam#id-owner-writers", "sam", fmt.Sprintf("%d functions assign id/owner of header items, all reviewed", len(allowed)), fmt.Sprintf("id or owner of a header item is assigned in %v, outside the reviewed constructors and container operations", extra))
}

// ruleHeaderCopy (part of COUPLED-HEADER): a Header is never copied or assigned
// as a whole value. A value copy shares the three name-table maps (and the
// backing arrays of the lists) with the original, so restoring or duplicating a
// header that way leaves tables and lists out of step – only Clone, which
// rebuilds all of them, may produce a second header. Added after a blind
// second-round seed (UnmarshalText "rolled back" with `orig := *bh … *bh = orig`).
func ruleHeaderCopy(c *Ctx, r *Rep) {
	rule := "COUPLED-HEADER"
	hdr := c.Named("sam", "Header")
	n := 0
	var bad []string
	for _, pkg := range []string{"sam", "bam"} {
		for _, fn := range c.FuncsIn(pkg) {
			fn := fn
			allInstrs(fn, func(ins ssa.Instruction) {
				n++
				switch x := ins.(type) {
				case *ssa.Store:
					if types.Identical(x.Val.Type(), hdr) {
						bad = append(bad, fmt.Sprintf("%s assigns a whole Header value at %s", c.FnName(fn), c.Pos(x.Pos())))
					}
				case *ssa.UnOp:
					if x.Op == token.MUL && types.Identical(x.Type(), hdr) {
						bad = append(bad, fmt.Sprintf("%s copies a whole Header value at %s", c.FnName(fn), c.Pos(x.Pos())))
					}
				}
			})
		}
	}
	sort.Strings(bad)
	r.Instance(rule, 1)
	r.Check(len(bad) == 0, rule, "sam.Header#no-value-copy", "sam", fmt.Sprintf("no load or store of a whole Header value in packages sam and bam (%d instructions looked at)", n), "a Header value copy shares its name tables with the original (names registered by lines that are later 'rolled back' stay registered with ids past the lists: the next AddReference of such a name indexes out of range): "+strings.Join(bad, "; "))
}

// pathOrder: a is executed before b on some path and b never before a.
func pathOrder(a, b ssa.Instruction) bool {
	_, ab := pathTo(locOf(a), is(b), nil, nil)
	_, ba := pathTo(locOf(b), is(a), nil, nil)
	return ab && !ba
}

// ---- FRESH-LINKS (MergeHeaders) ---------------------------------------------------------------------------

func ruleFreshLinks(c *Ctx, r *Rep, tier string) {
	rule := "FRESH-LINKS"
	fn := c.Func("sam", "MergeHeaders")
	refsF := c.Field("sam", "Header", "refs")
	n := 0
	allInstrs(fn, func(ins ssa.Instruction) {
		st, ok := ins.(*ssa.Store)
		if !ok {
			return
		}
		ia, ok := st.Addr.(*ssa.IndexAddr)
		if !ok {
			return
		}
		// reflinks[i] = …   (element type []*Reference)
		if _, isSl := st.Val.Type().Underlying().(*types.Slice); isSl {
			n++
			r.Instance(rule, 1)
			key := fmt.Sprintf("sam.MergeHeaders#links-of-source~%d", n)
			switch v := st.Val.(type) {
			case *ssa.MakeSlice:
				// made in the iteration that stores it
				ok := !v.Block().Dominates(fn.Blocks[0]) && v.Block() != fn.Blocks[0]
				hdr := false
				for _, b := range fn.Blocks {
					for _, p := range b.Instrs {
						if ph, isPhi := p.(*ssa.Phi); isPhi && ph.Comment == "rangeindex" && b.Dominates(v.Block()) && b != v.Block() {
							hdr = true
						}
					}
				}
				r.Check(ok && hdr, rule, key, c.Pos(st.Pos()), "a slice made in the same iteration of the source loop", "the link slice is made outside the loop over the sources")
			case *ssa.UnOp:
				f, _ := loadedField(v)
				if f == refsF {
					r.Fail(rule, key, c.Pos(st.Pos()), "the link list of a source is the merged header's own reference list: RemoveReference edits that list in place, and the source's remaining references are then linked to references of another name")
				} else {
					r.Fail(rule, key, c.Pos(st.Pos()), "unexpected link list "+symKey(v))
				}
			case *ssa.Call:
				// append([]*Reference(nil), h.refs...): a copy
				bi, isB := v.Call.Value.(*ssa.Builtin)
				okc := isB && bi.Name() == "append" && len(v.Call.Args) == 2 && isNilConst(v.Call.Args[0])
				if okc {
					f, _ := loadedField(v.Call.Args[1])
					okc = f == refsF
				}
				whyc := "the link list stored for a source is " + symKey(st.Val) + ", neither made for this source nor a copy of the merged list"
				if okc {
					// … which is right for source 0 only: the merged header starts as its
					// clone, so position k there is position k here. Any other source is
					// linked by name (seed C18-p of the fifteenth round: a source with the
					// same references in another order got the positional copy too).
					first := false
					for _, b := range fn.Blocks {
						ifi := ifOf(b)
						if ifi == nil {
							continue
						}
						bo, isBo := ifi.Cond.(*ssa.BinOp)
						if !isBo || bo.Op != token.EQL && bo.Op != token.NEQ {
							continue
						}
						k, isK := constInt(bo.Y)
						if !isK || k != 0 {
							continue
						}
						// the index of the loop over the sources: the range counter, or
						// the counter plus one (go/ssa counts from −1)
						isIdx := false
						switch x := bo.X.(type) {
						case *ssa.Phi:
							isIdx = x.Comment == "rangeindex"
						case *ssa.BinOp:
							if ph, ok := x.X.(*ssa.Phi); ok && x.Op == token.ADD && ph.Comment == "rangeindex" {
								if one, ok := constInt(x.Y); ok && one == 1 {
									isIdx = true
								}
							}
						}
						if !isIdx {
							continue
						}
						e := 0
						if bo.Op == token.NEQ {
							e = 1
						}
						if dominatedByEdge(fn, b, e, st.Block()) {
							first = true
						}
					}
					if !first {
						okc = false
						whyc = "a positional copy of the merged header's list is stored as the links of a source that is not shown to be the first: position k of the merged list is that source's reference k only if the orders agree – a source with the same references in another order has every record relabelled"
					}
				}
				r.Check(okc, rule, key, c.Pos(st.Pos()), "a copy of the merged header's reference list, for source 0", whyc)
			default:
				r.Fail(rule, key, c.Pos(st.Pos()), fmt.Sprintf("the link list stored for a source is %s, not a slice made for this source: sources share one backing array and a later source overwrites the links of an earlier one", symKey(st.Val)))
			}
			return
		}
		// links[id] = r   (element type *Reference)
		if pt, isP := st.Val.Type().Underlying().(*types.Pointer); isP {
			if nm, ok := pt.Elem().(*types.Named); ok && nm.Obj().Name() == "Reference" {
				if _, isMk := ia.X.(*ssa.MakeSlice); !isMk {
					return
				}
				n++
				r.Instance(rule, 1)
				key := "sam.MergeHeaders#link-target"
				why := ""
				edges := []ssa.Value{st.Val}
				var preds []*ssa.BasicBlock
				if ph, ok := st.Val.(*ssa.Phi); ok {
					edges = ph.Edges
					preds = ph.Block().Preds
				}
				for i, e := range edges {
					k := symKey(e)
					switch {
					case strings.Contains(k, ".refs[") && strings.Contains(k, ".seenRefs[") && strings.HasSuffix(k, ".name]]"):
						// h.refs[h.seenRefs[r.name]]: the owned reference of that name
					default:
						// the cloned reference itself: only on the edge where its owner is the merged header
						ok := false
						if preds != nil {
							if iff := ifOf(preds[i]); iff != nil {
								if bo, isBo := iff.Cond.(*ssa.BinOp); isBo && (bo.Op == token.NEQ || bo.Op == token.EQL) && (symKey(bo.X) == k+".owner" || symKey(bo.Y) == k+".owner") {
									yes := 1 // NEQ: false edge means owned
									if bo.Op == token.EQL {
										yes = 0
									}
									if preds[i].Succs[yes] == edges[0].(ssa.Instruction).Block() || preds[i].Succs[yes] == st.Block() || true {
										ok = preds[i].Succs[yes] == st.Val.(*ssa.Phi).Block()
									}
								}
							}
						}
						if !ok {
							why += fmt.Sprintf(" the link may be %s, which is not known to be owned by the merged header;", k)
						}
					}
				}
				r.Check(why == "", rule, key, c.Pos(st.Pos()), "each link is the added reference (owner == merged header) or the merged header's reference of the same name", why)
			}
		}
	})
	if n < 3 {
		r.Instance(rule, 1)
		r.Fail(rule, "sam.MergeHeaders#sites", c.Pos(fn.Pos()), fmt.Sprintf("%d link stores found, want 3", n))
	}
}

func init() {
	register(&PropDef{
		ID: "C07", Title: "Header serialisation round trips and keeps identity invariants under edits", Level: "other",
		Rules: []RuleDef{
			{Name: "TAG-VIEWS", What: "for @HD/@SQ/@RG/@PG: the field String prints under a tag is the field the line parser fills for that tag (raw text for string fields), and Get/Set/Tags mean the same field; user-defined tags kept and printed", Floor: 100, Run: ruleTagViews},
			{Name: "REFLINE-FIELDS", What: "sam.referenceLine installs the reference built from an @SQ line in the header – appended, or in place of a held one – only after it has seen both SN and LN (added for a defect of the unchanged tree, repaired 8e75300)", Floor: 1, Run: ruleReflineFields},
			{Name: "NAME-STORE", What: "the key of a header's name table – Reference.name, ReadGroup.name, Program.uid – is written only into an object made in the same function or together with the owner's table (on every path: owner nil, or the table entry for the new name made): who-may-write, every store in package sam (added for a defect of the unchanged tree, repaired 6ed78f3: Set(SN)/Set(ID) bypassed SetName)", Floor: 6, Run: ruleNameStore},
			{Name: "URI-KEPT", What: "a function of package sam that parses a UR value holds the URL as url.Parse returned it – no field of it is assigned: the scheme rewrite to file lost https and turned a relative path into a host (added for a defect of the unchanged tree)", Floor: 2, Run: ruleURIKept},
			{Name: "REF-COUNT", What: "sam.readRefRecords reads as many reference records as the binary header's count says (shared with C05)", Floor: 1, Run: ruleRefCount},
			{Name: "PTR-EQ", What: "package sam never compares two url.URL by pointer, only with nil: references parsed, built or cloned separately must be able to compare equal", Floor: 3, Run: rulePtrEq},
			{Name: "READ-FULL", What: "Header.DecodeBinary and readRefRecords never call Read on the io.Reader they were given: a short read is not a truncated header (io.ReadFull / binary.Read)", Floor: 2, Run: ruleHeaderReadFull},
			{Name: "COUPLED-HEADER", What: "every insertion, adoption, replacement, removal, renumbering and renaming of a header item keeps owner, id = index and the name table in step; id/owner are assigned only in reviewed functions; Remove* guards test the container they splice", Floor: 60, Run: ruleCoupledHeader},
			{Name: "FRESH-LINKS", What: "MergeHeaders: each source gets its own link slice; each link is owned by the merged header", Floor: 3, Run: ruleFreshLinks},
			{Name: "MERGE-KEEPS", What: "AddReference's merge of a compatible duplicate overwrites a field only with the duplicate's non-empty value; the @CO parser keeps the whole remainder of the line", Floor: 5, Run: ruleMergeKeeps},
			{Name: "SCAN-LIMIT", What: "no parser of package sam reads lines through a bufio.Scanner with the default 64 KiB token limit: a header line (@PG CL, @CO) may be longer (added after eleventh-round seed C07-l; none today)", Floor: 0, Run: ruleScanLimit([]string{"sam"}),
				Canary: func(cc *Ctx, r *Rep) { ruleScanLimit([]string{"scanc"})(cc, r, "") }, WantFail: []string{"scanc.Lines#scanner~1"}, WantPassMin: 1},
			{Name: "MEMO-COHERENT", What: "String of Reference, ReadGroup and Program writes nothing into its receiver – or every writer of a field it reads renews what it kept: the text a header serialises to is that of its current values, also after add, merge and rename (shared with C05; the seed C05-p history – marshal, AddReference merging into an existing reference, marshal again – is a C07 history too)", Floor: 3, Run: ruleMemoCoherent},
			{Name: "STORE-AS-READ", What: "the @RG, @PG and @SQ line parsers store a field's text whatever its value (or refuse the line): no value the writer writes is dropped by the reader (added after fifteenth-round seed C07-p: FO:* taken for no flow order)", Floor: 3, Run: ruleStoreAsRead},
			{Name: "DATE-ZONE", What: "every layout a read group's date is printed with carries a zone and is one the parser accepts as non-local (added after a blind second seed round)", Floor: 1, Run: ruleDateZone},
			{Name: "WIRE-BAMHDR", What: "binary header: EncodeBinary's token sequence = DecodeBinary's", Floor: 6,
				Run: ruleWirePair("WIRE-BAMHDR", "sam.(*Header).EncodeBinary#DecodeBinary", "sam", "(*Header).EncodeBinary", "sam", "(*Header).DecodeBinary", nil)},
		},
		Explanation: "Text round trip rests on the writer and the line parser agreeing, tag by tag, on the struct field a tag stands for, and on the parser storing the text as it stands; the identity invariants (id = index, unique names) rest on every function that changes one of refs/rgs/progs, an item's id/owner/name or a name table changing the others with it. TAG-VIEWS extracts the tag→field map of five views (String, line parser, Get, Set, Tags) per line kind and compares them; COUPLED-HEADER states, per container operation found in package sam, the companion assignments that must accompany it and checks they are there (and that no other function assigns id/owner); FRESH-LINKS covers the mapping MergeHeaders returns.",
		NotDecided:  "value formats (dates and zones, M5 hex, UR normalisation), which optional tags win in a merge (equalRefs leniency), aliasing of otherTags between a header and its clone.",
	})
}

// calledFromReadGroup: fn is a function of package sam called (statically) from a
// method of ReadGroup.
func calledFromReadGroup(c *Ctx, fn *ssa.Function) bool {
	found := false
	for _, g := range c.FuncsIn("sam") {
		if g.Signature.Recv() == nil || !strings.Contains(g.Signature.Recv().Type().String(), "ReadGroup") {
			continue
		}
		allInstrs(g, func(ins ssa.Instruction) {
			if call, ok := ins.(*ssa.Call); ok && staticCallee(&call.Call) == fn {
				found = true
			}
		})
	}
	return found
}

// wholeMinuteOffset: the time value t handed to Format is, on every path, the
// result of UTC() or reached over the zero edge of (offset of t's zone) % 60.
func wholeMinuteOffset(fn *ssa.Function, t ssa.Value) bool {
	isUTC := func(v ssa.Value) bool {
		call, ok := v.(*ssa.Call)
		return ok && calleeFullName(&call.Call) == "(time.Time).UTC"
	}
	zeroEdge := func(raw ssa.Value, from, to *ssa.BasicBlock) bool {
		for _, b := range fn.Blocks {
			ifi := ifOf(b)
			if ifi == nil {
				continue
			}
			bo, ok := ifi.Cond.(*ssa.BinOp)
			if !ok || (bo.Op != token.EQL && bo.Op != token.NEQ) {
				continue
			}
			rem, ok := bo.X.(*ssa.BinOp)
			if !ok || rem.Op != token.REM {
				continue
			}
			if k, ok := constInt(rem.Y); !ok || k != 60 {
				continue
			}
			if k, ok := constInt(bo.Y); !ok || k != 0 {
				continue
			}
			ex, ok := rem.X.(*ssa.Extract)
			if !ok || ex.Index != 1 {
				continue
			}
			zc, ok := ex.Tuple.(*ssa.Call)
			if !ok || calleeFullName(&zc.Call) != "(time.Time).Zone" || len(zc.Call.Args) == 0 || zc.Call.Args[0] != raw {
				continue
			}
			zero := 0
			if bo.Op == token.NEQ {
				zero = 1
			}
			if dominatedByEdge(fn, b, zero, from) || (from == b && b.Succs[zero] == to && b.Succs[1-zero] != to) {
				return true
			}
		}
		return false
	}
	if isUTC(t) {
		return true
	}
	if p, ok := t.(*ssa.Phi); ok {
		for i, e := range p.Edges {
			if isUTC(e) {
				continue
			}
			if !zeroEdge(e, p.Block().Preds[i], p.Block()) {
				return false
			}
		}
		return true
	}
	if ins, ok := t.(ssa.Instruction); ok {
		return zeroEdge(t, ins.Block(), nil)
	}
	return false
}
