// POOL-BARE (C01, C09): decompressors are handed to the read-ahead pool
// without a block.
//
// The read-ahead worker derives the next offset from dec.blk.NextBase() without
// looking at dec.err (the known finding PIPE-STALL). What keeps that harmless
// for a stream that simply ends is that a decompressor taken from the pool has
// no block: lazyBlock makes a fresh one, a failed read leaves it without header,
// NextBase() is -1 and the worker parks. A decompressor that goes back to the
// pool still holding a (recycled) block keeps that block's old header after a
// failed read; the worker then computes a next offset from stale data and, on a
// source that cannot seek, panics ("unexpected offset without seek") at the end
// of a perfectly good stream (seed C01-d).
//
// Typestate per decompressor value: dirty after a method that stores a non-nil
// block into it (using, lazyBlock, nextBlockAt – found by their effects,
// transitively through calls on the same receiver), clean after one that stores
// nil (wait). Every send on Reader.waiting must send a clean or fresh value.
// The obligation is void if the worker tests the error before it asks NextBase.
package main

import (
	"go/types"
	"os"

	"golang.org/x/tools/go/ssa"
)

func rulePoolBare(c *Ctx, r *Rep, tier string) {
	rule := "POOL-BARE"
	worker, tested, found := workerTestsErr(c)
	if found && tested {
		r.Instance(rule, 1)
		r.Pass(rule, "bgzf.NewReader$read-ahead#pool", c.Pos(worker.Pos()), "the worker tests the error before deriving the next offset: a pooled decompressor's block is irrelevant")
		return
	}
	blkF := c.Field("bgzf", "decompressor", "blk")
	waitingF := c.Field("bgzf", "Reader", "waiting")
	// classify the methods of *decompressor
	dirty := map[*ssa.Function]bool{}
	clean := map[*ssa.Function]bool{}
	var methods []*ssa.Function
	for _, f := range c.FuncsIn("bgzf") {
		if f.Signature.Recv() == nil || len(f.Params) == 0 {
			continue
		}
		if pt, ok := f.Params[0].Type().(*types.Pointer); !ok || pt.Elem() != blkOwner(blkF, c) {
			continue
		}
		methods = append(methods, f)
	}
	storesBlk := func(f *ssa.Function) (nonNil, isNil bool) {
		allInstrs(f, func(ins ssa.Instruction) {
			st, ok := ins.(*ssa.Store)
			if !ok {
				return
			}
			fa, ok := st.Addr.(*ssa.FieldAddr)
			if !ok || fieldVarOfAddr(fa) != blkF || origin(fa.X) != ssa.Value(f.Params[0]) {
				return
			}
			if isNilConst(st.Val) {
				// only a store that every way through the method passes takes the block away
				isStore := func(x ssa.Instruction) bool { return x == ins }
				if _, around := pathTo(entryLoc(f), isReturn, isStore, nil); !around {
					isNil = true
				}
			} else {
				nonNil = true
			}
		})
		return
	}
	for _, f := range methods {
		nn, n := storesBlk(f)
		if nn {
			dirty[f] = true
		} else if n {
			clean[f] = true
		}
	}
	for changed := true; changed; {
		changed = false
		for _, f := range methods {
			if dirty[f] {
				continue
			}
			allInstrs(f, func(ins ssa.Instruction) {
				if call, ok := ins.(*ssa.Call); ok {
					if g := staticCallee(&call.Call); g != nil && dirty[g] && len(call.Call.Args) > 0 && origin(call.Call.Args[0]) == ssa.Value(f.Params[0]) {
						dirty[f] = true
						delete(clean, f)
						changed = true
					}
				}
			})
		}
	}
	if os.Getenv("DBGPOOL") != "" {
		for f := range dirty {
			println("dirty", f.Name())
		}
		for f := range clean {
			println("clean", f.Name())
		}
		for _, f := range methods {
			println("method", f.Name(), returnsRecv0(f))
		}
	}
	if len(clean) == 0 {
		r.Instance(rule, 1)
		r.Fail(rule, "bgzf.(*decompressor)#takes-block", "-", "no method of decompressor takes the block away on every path (wait() must clear blk whether or not the read failed: a block left behind after a failure is shared between the reader, which was handed it, and the decompressor, which reads the next member into it)")
		return
	}
	if len(dirty) == 0 {
		unresolved("POOL-BARE: no method of decompressor sets / clears blk (dirty %d, clean %d)", len(dirty), len(clean))
	}
	// root of a decompressor expression: through methods that return their receiver
	returnsRecv := returnsRecv0
	_ = returnsRecv
	// root of a decompressor expression: through methods that return their receiver

	type rootT struct {
		v   ssa.Value
		key string
	}
	var rootOf func(v ssa.Value, chain *[]*ssa.Call) rootT
	rootOf = func(v ssa.Value, chain *[]*ssa.Call) rootT {
		for {
			v = origin(v)
			if call, ok := v.(*ssa.Call); ok {
				if g := staticCallee(&call.Call); returnsRecv(g) {
					if chain != nil {
						*chain = append(*chain, call)
					}
					v = call.Call.Args[0]
					continue
				}
			}
			break
		}
		key := ""
		if f, _ := loadedField(v); f != nil {
			key = symKey(v) // a load of a field: two loads of the same field are the same decompressor
		}
		return rootT{v, key}
	}
	sameRoot := func(a, b rootT) bool {
		if a.v == b.v {
			return true
		}
		return a.key != "" && a.key == b.key
	}
	n := 0
	for _, fn := range c.FuncsIn("bgzf") {
		for _, f := range withAnon(fn) {
			var sends []*ssa.Send
			allInstrs(f, func(ins ssa.Instruction) {
				if s, ok := ins.(*ssa.Send); ok {
					if fv, _ := loadedField(s.Chan); fv == waitingF {
						sends = append(sends, s)
					}
				}
			})
			for i, s := range sends {
				n++
				r.Instance(rule, 1)
				key := c.FnName(f) + "#pool-send"
				if i > 0 {
					key += "~" + string(rune('1'+i))
				}
				var chain []*ssa.Call
				root := rootOf(s.X, &chain)
				why := ""
				// the sent expression itself: the outermost receiver-returning call decides
				if len(chain) > 0 {
					if g := staticCallee(&chain[0].Call); dirty[g] {
						why = "the value sent is the result of " + g.Name() + "(), which leaves a block in the decompressor"
					}
				}
				if al, ok := root.v.(*ssa.Alloc); ok && why == "" {
					// fresh: no store of a block into it
					for _, ref := range *al.Referrers() {
						if fa, ok := ref.(*ssa.FieldAddr); ok && fieldVarOfAddr(fa) == blkF {
							for _, rr := range *fa.Referrers() {
								if st, ok := rr.(*ssa.Store); ok && !isNilConst(st.Val) {
									why = "the new decompressor is given a block before it is pooled"
								}
							}
						}
					}
				}
				if why == "" {
					allInstrs(f, func(ins ssa.Instruction) {
						call, ok := ins.(*ssa.Call)
						if !ok || why != "" {
							return
						}
						g := staticCallee(&call.Call)
						if g == nil || !dirty[g] || len(call.Call.Args) == 0 {
							return
						}
						if !sameRoot(rootOf(call.Call.Args[0], nil), root) {
							return
						}
						cleans := func(x ssa.Instruction) bool {
							cl, ok := x.(*ssa.Call)
							if !ok {
								return false
							}
							h := staticCallee(&cl.Call)
							return h != nil && clean[h] && len(cl.Call.Args) > 0 && sameRoot(rootOf(cl.Call.Args[0], nil), root)
						}
						if _, reach := pathTo(locOf(call), func(x ssa.Instruction) bool { return x == ssa.Instruction(s) }, cleans, nil); reach {
							why = "after " + g.Name() + "() at " + c.Pos(call.Pos()) + " the decompressor reaches the pool without wait() having taken its block"
						}
					})
				}
				if why != "" {
					why += ": a failed read-ahead into a recycled block keeps that block's old header, the worker derives the next offset from it (it does not look at the error) and asks a source that cannot seek to seek"
				}
				r.Check(why == "", rule, key, c.Pos(s.Pos()), "the decompressor sent to the pool is new or had its block taken by wait()", why)
			}
		}
	}
	if n == 0 {
		r.Instance(rule, 1)
		r.Fail(rule, "bgzf#pool-send", "-", "no send on Reader.waiting found: undecided")
	}
}

// blkOwner: the struct type that declares field f.
func blkOwner(f *types.Var, c *Ctx) types.Type {
	return c.Named("bgzf", "decompressor")
}

// returnsRecv0: every return of g (outside its recover block) returns the receiver.
func returnsRecv0(g *ssa.Function) bool {
	if g == nil || len(g.Params) == 0 || len(g.Blocks) == 0 {
		return false
	}
	ok := true
	n := 0
	allInstrs(g, func(ins ssa.Instruction) {
		if ret, isRet := ins.(*ssa.Return); isRet {
			if g.Recover != nil && ret.Block() == g.Recover {
				return
			}
			n++
			if len(ret.Results) != 1 || origin(retValue(ret, 0)) != ssa.Value(g.Params[0]) {
				ok = false
			}
		}
	})
	return ok && n > 0
}
