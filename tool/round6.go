// Rules written after the sixth seed round.
//
//	WIDEN-FIRST    (C11, C05) a size, count or slice bound taken from the input is
//	               widened to int before it enters arithmetic: no +, *, << on a
//	               non-constant operand in an unsigned type of 32 bits or fewer
//	               whose result is then used as a size (converted to int, or used
//	               as a slice bound). uint16(n)<<2 and length*uint32(width) wrap.
//	CACHE-REWIND   (C13, C03) a block that comes out of the cache is rewound to its
//	               start on every path before the reader uses it.
//	HASDATA-GUARD  (C03) nothing is handed to Cache.Put unless hasData() was found
//	               true on the way: a block without data (a failed read) in the
//	               cache is served as a hit.
//	CHUNKS-FRESH   (C17, C04) the list a Chunks method sorts and hands to the merge
//	               strategy is built in the call (appended onto nil / a new slice):
//	               never an alias of the index's own storage, which the sort and
//	               the in-place merge would rearrange.
//	NEXT-LATCH     (C09) the error of nextBlock is recorded in Reader.err before
//	               Read/ReadByte return it – also through helpers.
package main

import (
	"fmt"
	"go/token"
	"go/types"
	"strings"

	"golang.org/x/tools/go/ssa"
)

// ---- WIDEN-FIRST ----------------------------------------------------------------------

func narrowUnsigned(t types.Type) (int, bool) {
	b, ok := t.Underlying().(*types.Basic)
	if !ok || b.Info()&types.IsUnsigned == 0 {
		return 0, false
	}
	w, _, ok := basicWidth(b)
	return w, ok && w <= 32
}

// narrowArith: v is (after conversions between narrow types) a +, * or << in an
// unsigned type of at most 32 bits with a non-constant operand that is not a
// bit-packing expression (an operand of | or &).
func narrowArith(v ssa.Value, depth int) *ssa.BinOp {
	if depth > 6 {
		return nil
	}
	switch x := v.(type) {
	case *ssa.Convert:
		if _, ok := narrowUnsigned(x.X.Type()); ok {
			return narrowArith(x.X, depth+1)
		}
	case *ssa.BinOp:
		if _, ok := narrowUnsigned(x.Type()); !ok {
			return nil
		}
		switch x.Op {
		case token.ADD, token.MUL, token.SHL:
			_, cx := x.X.(*ssa.Const)
			_, cy := x.Y.(*ssa.Const)
			if !cx || !cy {
				// a constant shift of a constant-free operand is the usual case: value<<2
				if x.Op == token.SHL && cx {
					return nil
				}
				// the operands' types bound the result below the type's range:
				// uint32(aUint16)*4 cannot wrap
				if w, _ := narrowUnsigned(x.Type()); maxOfUnsigned(x, 0) < float64(uint64(1)<<uint(w)) {
					if bo := narrowArith(x.X, depth+1); bo != nil {
						return bo
					}
					return narrowArith(x.Y, depth+1)
				}
				return x
			}
		}
	}
	return nil
}

// maxOfUnsigned: an upper bound of an unsigned value from the types alone: a
// constant is itself, a conversion from a narrower unsigned type is bounded by
// that type, +, * and << by a constant combine the bounds (without wrapping:
// the caller compares the result with the type's range).
func maxOfUnsigned(v ssa.Value, depth int) float64 {
	typeMax := func(t types.Type) float64 {
		if b, ok := t.Underlying().(*types.Basic); ok && b.Info()&types.IsUnsigned != 0 {
			if w, _, ok := basicWidth(b); ok && w < 64 {
				return float64(uint64(1)<<uint(w)) - 1
			}
		}
		return 1e30
	}
	if depth > 6 {
		return typeMax(v.Type())
	}
	switch x := v.(type) {
	case *ssa.Const:
		if k, ok := constInt(x); ok && k >= 0 {
			return float64(k)
		}
	case *ssa.Convert:
		if b, ok := x.X.Type().Underlying().(*types.Basic); ok && b.Info()&types.IsUnsigned != 0 {
			if m := maxOfUnsigned(x.X, depth+1); m < typeMax(v.Type()) {
				return m
			}
		}
	case *ssa.BinOp:
		a, b := maxOfUnsigned(x.X, depth+1), maxOfUnsigned(x.Y, depth+1)
		switch x.Op {
		case token.ADD:
			return a + b
		case token.MUL:
			return a * b
		case token.SHL:
			if k, ok := constInt(x.Y); ok && k >= 0 && k < 64 {
				return a * float64(uint64(1)<<uint(k))
			}
			return 1e30
		}
	}
	return typeMax(v.Type())
}

func ruleWidenFirst(pkgs []string, prop string, minSites ...int) func(c *Ctx, r *Rep, tier string) {
	return func(c *Ctx, r *Rep, tier string) {
		rule := "WIDEN-FIRST"
		wantSites := 20
		if len(minSites) > 0 {
			wantSites = minSites[0]
		}
		n := 0
		for _, pkg := range pkgs {
			for _, fn := range c.FuncsIn(pkg) {
				for _, f := range withAnon(fn) {
					idx := 0
					report := func(at ssa.Instruction, bo *ssa.BinOp, use string) {
						idx++
						key := fmt.Sprintf("%s#narrow-size", c.FnName(f))
						if idx > 1 {
							key += fmt.Sprintf("~%d", idx)
						}
						w, _ := narrowUnsigned(bo.Type())
						r.Instance(rule, 1)
						r.Fail(rule, key, c.Pos(at.Pos()), fmt.Sprintf("%s is computed in %d unsigned bits and then used as %s: for large counts the arithmetic wraps, the size that is checked is not the size that was declared, and the accessors trust the declared one (convert to int first)", symKey(bo), w, use))
					}
					allInstrs(f, func(ins ssa.Instruction) {
						switch x := ins.(type) {
						case *ssa.Convert:
							// narrow arithmetic widened to a signed or 64-bit integer: a size
							b, ok := x.Type().Underlying().(*types.Basic)
							if !ok || b.Info()&types.IsInteger == 0 {
								return
							}
							if _, isNarrow := narrowUnsigned(x.Type()); isNarrow {
								return
							}
							n++
							if bo := narrowArith(x.X, 0); bo != nil && !lengthGuarded(f, bo, ins) {
								report(ins, bo, "an int")
							}
						case *ssa.Slice:
							for _, bnd := range []ssa.Value{x.Low, x.High} {
								if bnd == nil {
									continue
								}
								n++
								if bo := narrowArith(bnd, 0); bo != nil && !lengthGuarded(f, bo, ins) {
									report(ins, bo, "a slice bound")
								}
							}
						}
					})
				}
			}
		}
		r.Instance(rule, 1)
		r.Check(n >= wantSites, rule, prop+"#sites", "-", fmt.Sprintf("%d widening conversions and slice bounds examined", n), fmt.Sprintf("only %d widening conversions and slice bounds found in %v: the rule's anchor moved", n, pkgs))
	}
}

// ---- CACHE-REWIND ---------------------------------------------------------------------

func ruleCacheRewind(c *Ctx, r *Rep, tier string) {
	rule := "CACHE-REWIND"
	fn := c.Func("bgzf", "(*Reader).cachedBlockFor")
	r.Instance(rule, 1)
	var get *ssa.Call
	allInstrs(fn, func(ins ssa.Instruction) {
		if call, ok := ins.(*ssa.Call); ok && call.Call.IsInvoke() && call.Call.Method.Name() == "Get" {
			get = call
		}
	})
	why := ""
	if get == nil {
		why = "no Cache.Get in cachedBlockFor: the rule's anchor moved (undecided)"
	} else {
		isRewind := func(ins ssa.Instruction) bool {
			call, ok := ins.(*ssa.Call)
			if !ok || !call.Call.IsInvoke() || call.Call.Method.Name() != "seek" || call.Call.Value != ssa.Value(get) {
				return false
			}
			k, isK := constInt(call.Call.Args[0])
			return isK && k == 0
		}
		returnsBlock := func(ins ssa.Instruction) bool {
			ret, ok := ins.(*ssa.Return)
			return ok && len(ret.Results) > 0 && retValue(ret, 0) == ssa.Value(get)
		}
		// leaving by the edge "the cache had nothing" needs no rewind
		nilEdge := func(from, to *ssa.BasicBlock) bool {
			ce, ok := classifyErrIf(from, func(v ssa.Value) bool { return v == ssa.Value(get) })
			if !ok || !ce.isNil || from.Succs[0] == from.Succs[1] {
				return true
			}
			return to != from.Succs[ce.yes]
		}
		if bad, reach := pathTo(locOf(get), returnsBlock, isRewind, nilEdge); reach {
			why = fmt.Sprintf("the block taken from the cache reaches the return at %s without seek(0): a block that was positioned but not read (a Seek into it, then another Seek) is not marked used, is cached mid-block, and is later served from that position – the bytes before it are missing from the chunk", c.Pos(bad.Pos()))
		}
	}
	r.Check(why == "", rule, "bgzf.(*Reader).cachedBlockFor#rewind", c.Pos(fn.Pos()), "every block served from the cache was rewound with seek(0)", why)
}

// ---- HASDATA-GUARD --------------------------------------------------------------------

func ruleHasDataGuard(c *Ctx, r *Rep, tier string) {
	rule := "HASDATA-GUARD"
	n := 0
	for _, fn := range c.FuncsIn("bgzf") {
		for _, f := range withAnon(fn) {
			allInstrs(f, func(ins ssa.Instruction) {
				call, ok := ins.(*ssa.Call)
				if !ok || !call.Call.IsInvoke() || call.Call.Method.Name() != "Put" || len(call.Call.Args) != 1 {
					return
				}
				if n2, ok := call.Call.Value.Type().(*types.Named); !ok || n2.Obj().Name() != "Cache" {
					return
				}
				n++
				r.Instance(rule, 1)
				blk := call.Call.Args[0]
				guarded := false
				for _, b := range f.Blocks {
					iff := ifOf(b)
					if iff == nil || b.Succs[0] == b.Succs[1] {
						continue
					}
					// hasData() of the same block, possibly under `b == nil || !b.hasData()`
					cond := iff.Cond
					neg := false
					if u, ok := cond.(*ssa.UnOp); ok && u.Op == token.NOT {
						cond, neg = u.X, true
					}
					hc, ok := cond.(*ssa.Call)
					if !ok || !hc.Call.IsInvoke() || hc.Call.Method.Name() != "hasData" || hc.Call.Value != blk {
						continue
					}
					e := 0
					if neg {
						e = 1
					}
					if dominatedByEdge(f, b, e, call.Block()) {
						guarded = true
					}
				}
				r.Check(guarded, rule, c.FnName(f)+"#put", c.Pos(call.Pos()), "only a block whose hasData() was true is handed to the cache",
					"a block is handed to Cache.Put without hasData() having been found true: a block whose read failed (new base, no data) is cached, and arriving at that offset again is a cache hit on an empty block (nil-pointer panic in seek, where the uncached reader reports the end of the data)")
			})
		}
	}
	if n == 0 {
		r.Instance(rule, 1)
		r.Fail(rule, "bgzf#cache-put", "-", "no Cache.Put call found in package bgzf: the rule's anchor moved (undecided)")
	}
}

// ---- CHUNKS-FRESH ---------------------------------------------------------------------

func ruleChunksFresh(c *Ctx, r *Rep, tier string) {
	rule := "CHUNKS-FRESH"
	for _, f := range [][2]string{{"internal", "(*Index).Chunks"}, {"csi", "(*Index).Chunks"}} {
		fn := c.Func(f[0], f[1])
		r.Instance(rule, 1)
		key := f[0] + "." + f[1] + "#own-list"
		// the lists handed to sort.Sort / sort.IsSorted / a merge strategy
		var lists []ssa.Value
		allInstrs(fn, func(ins ssa.Instruction) {
			call, ok := ins.(*ssa.Call)
			if !ok {
				return
			}
			if _, isBuiltin := call.Call.Value.(*ssa.Builtin); isBuiltin {
				return // len, cap, append read or copy; they do not rearrange
			}
			for _, a := range call.Call.Args {
				v := a
				if mi, ok := v.(*ssa.MakeInterface); ok {
					v = mi.X
				}
				if ct, ok := v.(*ssa.ChangeType); ok {
					v = ct.X
				}
				if sl, ok := v.Type().Underlying().(*types.Slice); ok {
					if n, ok := sl.Elem().(*types.Named); ok && n.Obj().Name() == "Chunk" {
						name := calleeFullName(&call.Call)
						if strings.HasPrefix(name, "sort.") || staticCallee(&call.Call) == nil || strings.Contains(strings.ToLower(name), "adjacent") {
							lists = append(lists, v)
						}
					}
				}
			}
		})
		why := ""
		if len(lists) == 0 {
			why = "no chunk list handed to a sort or a merge strategy found (undecided)"
		}
		seen := map[ssa.Value]bool{}
		var root func(v ssa.Value, depth int) string
		root = func(v ssa.Value, depth int) string {
			if depth > 12 || seen[v] {
				return ""
			}
			seen[v] = true
			switch x := v.(type) {
			case *ssa.Const:
				return "" // nil
			case *ssa.MakeSlice:
				return ""
			case *ssa.Alloc:
				return "" // make with constant size: a new array
			case *ssa.Phi:
				for _, e := range x.Edges {
					if w := root(e, depth+1); w != "" {
						return w
					}
				}
				return ""
			case *ssa.Call:
				if cc, ok := isBuiltinCall(x, "append"); ok {
					return root(cc.Args[0], depth+1) // the elements appended are copies
				}
				return "the result of " + symKey(x)
			case *ssa.ChangeType:
				return root(x.X, depth+1)
			case *ssa.Slice:
				return root(x.X, depth+1)
			}
			return symKey(v)
		}
		for _, l := range lists {
			if w := root(l, 0); w != "" && why == "" {
				why = "the list that is sorted and merged in place can be " + w + " – the index's own storage: the first query is answered correctly and rearranges the bin, every later query (and WriteTo) sees a bin with other bins' chunks in it and its own pushed past its length"
			}
		}
		r.Check(why == "", rule, key, c.Pos(fn.Pos()), "the list sorted and merged is built by append onto nil in this call", why)
	}
}

// ---- NEXT-LATCH -----------------------------------------------------------------------

func ruleNextLatch(c *Ctx, r *Rep, tier string) {
	rule := "NEXT-LATCH"
	errF := c.Field("bgzf", "Reader", "err")
	errT := types.Universe.Lookup("error").Type()
	// functions whose error result may be an unrecorded nextBlock error
	leaky := map[*ssa.Function]bool{c.Func("bgzf", "(*Reader).nextBlock"): true}
	type site struct {
		fn   *ssa.Function
		call *ssa.Call
	}
	var bad []site
	checked := 0
	for changed := true; changed; {
		changed = false
		for _, fn := range c.FuncsIn("bgzf") {
			if leaky[fn] {
				continue
			}
			allInstrs(fn, func(ins ssa.Instruction) {
				call, ok := ins.(*ssa.Call)
				if !ok {
					return
				}
				g := staticCallee(&call.Call)
				if g == nil || !leaky[g] {
					return
				}
				// the error value of the call
				var ev ssa.Value = call
				if tup, ok := call.Type().(*types.Tuple); ok {
					ev = nil
					for _, ref := range *call.Referrers() {
						if ex, ok := ref.(*ssa.Extract); ok && types.Identical(tup.At(ex.Index).Type(), errT) {
							ev = ex
						}
					}
				}
				if ev == nil {
					return
				}
				checked++
				stores := func(x ssa.Instruction) bool {
					st, ok := x.(*ssa.Store)
					if !ok {
						return false
					}
					fa, ok := st.Addr.(*ssa.FieldAddr)
					return ok && fieldVarOfAddr(fa) == errF && (st.Val == ev || sameExpr(st.Val, ev, 0))
				}
				returnsIt := func(x ssa.Instruction) bool {
					ret, ok := x.(*ssa.Return)
					if !ok {
						return false
					}
					for i := range ret.Results {
						if v := retValue(ret, i); v == ev {
							return true
						}
					}
					return false
				}
				if _, reach := pathTo(locOf(call), returnsIt, stores, nil); reach {
					if !leaky[fn] {
						leaky[fn] = true
						changed = true
					}
					if fn.Object() != nil && fn.Object().Exported() {
						bad = append(bad, site{fn, call})
					}
				}
			})
		}
	}
	r.Instance(rule, 1)
	why := ""
	for _, s := range bad {
		why += fmt.Sprintf(" %s returns the error of %s (at %s) without recording it in Reader.err;", c.FnName(s.fn), staticCallee(&s.call.Call).Name(), c.Pos(s.call.Pos()))
	}
	if why != "" {
		why += " the next call does not see the failure, carries on with the block the failed step left behind, and – the read-ahead worker being parked – never returns (or returns the wrong member's bytes with rd=1)"
	}
	if checked == 0 {
		why = "no call of nextBlock found: the rule's anchor moved (undecided)"
	}
	r.Check(why == "", rule, "bgzf.(*Reader)#next-block-error-recorded", c.Pos(c.Func("bgzf", "(*Reader).nextBlock").Pos()), fmt.Sprintf("%d call sites: the error is stored in Reader.err before it is returned", checked), why)
}

// lengthGuarded: every non-constant operand of the narrow operation bo has, on
// the way to its use, been compared (itself, widened or not) with a value that
// derives from a len(): the operand is known to be small, the operation cannot
// wrap. (Comparing the *result* of the operation with a length does not count –
// it has wrapped by then.)
func lengthGuarded(f *ssa.Function, bo *ssa.BinOp, use ssa.Instruction) bool {
	fromLen := func(v ssa.Value) bool {
		found := false
		var walk func(v ssa.Value, d int)
		walk = func(v ssa.Value, d int) {
			if d > 6 || found {
				return
			}
			switch x := v.(type) {
			case *ssa.Call:
				if _, ok := isLenCall(x); ok {
					found = true
				}
			case *ssa.BinOp:
				walk(x.X, d+1)
				walk(x.Y, d+1)
			case *ssa.Convert:
				walk(x.X, d+1)
			}
		}
		walk(v, 0)
		return found
	}
	for _, op := range []ssa.Value{bo.X, bo.Y} {
		if _, isC := op.(*ssa.Const); isC {
			continue
		}
		guarded := false
		for _, b := range f.Blocks {
			iff := ifOf(b)
			if iff == nil || b.Succs[0] == b.Succs[1] {
				continue
			}
			cmp, ok := iff.Cond.(*ssa.BinOp)
			if !ok {
				continue
			}
			for _, pr := range [][2]ssa.Value{{cmp.X, cmp.Y}, {cmp.Y, cmp.X}} {
				if stripConv(pr[0]) == op && fromLen(pr[1]) {
					for k := 0; k < 2; k++ {
						if dominatedByEdge(f, b, k, use.Block()) {
							guarded = true
						}
					}
				}
			}
		}
		if !guarded {
			return false
		}
	}
	return true
}
