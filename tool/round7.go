// Rules written after the seventh seed round.
//
//	CIGAR-SPLIT   (C06, C16) sam.ParseCigar splits a length above 2^28−1 into
//	              several operations: what is left after a piece was taken off is
//	              shown positive before another operation is made from it – no
//	              zero-length operation is invented for an exact multiple.
//	PARSE-WIDTH   (C19, C06) every strconv.ParseInt/ParseUint is given the bit size
//	              of the type its result is converted to: a smaller one refuses
//	              values the field (and the writer) can hold, a larger one lets a
//	              value through that the conversion then wraps.
//	STATS-BLIND   (C04) no Chunks method of an index reads the reference
//	              statistics: which chunks answer a query depends on bins and
//	              intervals alone (the statistics count mapped reads; placed
//	              unmapped reads are indexed but not counted there).
//	NAMES-SPLIT   (C15) the tabix reader takes its list of names apart with an
//	              operation that keeps empty names – the writer writes one
//	              terminator per name, empty or not.
package main

import (
	"fmt"
	"go/token"
	"go/types"
	"strings"

	"golang.org/x/tools/go/ssa"
)

// ---- CIGAR-SPLIT ----------------------------------------------------------------------

func ruleCigarSplit(c *Ctx, r *Rep, tier string) {
	rule := "CIGAR-SPLIT"
	fn := c.Func("sam", "ParseCigar")
	bc := &boundsCtx{c: c, fn: fn}
	isEmit := func(ins ssa.Instruction) bool {
		call, ok := ins.(*ssa.Call)
		if !ok {
			return false
		}
		g := staticCallee(&call.Call)
		return g != nil && g.Name() == "NewCigarOp"
	}
	// values that flow into the length of an operation, backwards through phis,
	// conversions and min-like helpers
	lenFlow := map[ssa.Value]bool{}
	var back func(v ssa.Value, depth int)
	back = func(v ssa.Value, depth int) {
		if v == nil || lenFlow[v] || depth > 12 {
			return
		}
		lenFlow[v] = true
		switch x := v.(type) {
		case *ssa.Phi:
			for _, e := range x.Edges {
				back(e, depth+1)
			}
		case *ssa.Convert:
			back(x.X, depth+1)
		case *ssa.BinOp:
			if x.Op == token.SUB {
				back(x.X, depth+1)
			}
		case *ssa.Extract:
			back(x.Tuple, depth+1)
		case *ssa.Call:
			if _, isBuiltin := x.Call.Value.(*ssa.Builtin); isBuiltin || (staticCallee(&x.Call) != nil && modulePrefix(staticCallee(&x.Call)) == modulePrefix(fn) && len(x.Call.Args) == 2) {
				// min(n, k) / minInt(n, k)
				for _, a := range x.Call.Args {
					if _, isK := a.(*ssa.Const); !isK {
						back(a, depth+1)
					}
				}
			}
		}
	}
	nEmit := 0
	allInstrs(fn, func(ins ssa.Instruction) {
		if isEmit(ins) {
			nEmit++
			back(ins.(*ssa.Call).Call.Args[1], 0)
		}
	})
	r.Instance(rule, 1)
	if nEmit == 0 {
		r.Fail(rule, "sam.ParseCigar#operations", c.Pos(fn.Pos()), "no NewCigarOp call in ParseCigar: the rule's anchor moved (undecided)")
		return
	}
	// the calls the length comes from (atoi): a new parse ends the walk
	isParse := func(ins ssa.Instruction) bool {
		call, ok := ins.(*ssa.Call)
		return ok && lenFlow[call] && !isEmit(ins) && len(call.Call.Args) == 1
	}
	k := 0
	allInstrs(fn, func(ins ssa.Instruction) {
		sub, ok := ins.(*ssa.BinOp)
		if !ok || sub.Op != token.SUB || !lenFlow[sub] {
			return
		}
		piece, isK := constInt(sub.Y)
		switch {
		case isK && piece < 1:
			return
		case !isK:
			// a piece that is itself cut from the length – l := min(n, K); n -= l –
			// is at most the length; what is left still has to be shown positive
			// before the next operation is made (clause 2)
			if !lenFlow[sub.Y] {
				return
			}
			piece = 0
		}
		k++
		r.Instance(rule, 1)
		key := fmt.Sprintf("sam.ParseCigar#remainder~%d", k)
		// (1) the piece is only taken off a length shown larger than it
		if lb := bc.lowerBound(sub.X, sub.Block(), 0); piece > 0 && lb >= piece+1 {
			r.Pass(rule, key, c.Pos(sub.Pos()), fmt.Sprintf("a piece of %d is taken off a length shown ≥ %d", piece, lb))
			return
		}
		// (2) what is left is shown positive before the next operation is made
		fwd := map[ssa.Value]bool{sub: true}
		for changed := true; changed; {
			changed = false
			allInstrs(fn, func(x ssa.Instruction) {
				if p, ok := x.(*ssa.Phi); ok && !fwd[p] {
					for _, e := range p.Edges {
						if fwd[e] {
							fwd[p] = true
							changed = true
						}
					}
				}
			})
		}
		positive := func(from, to *ssa.BasicBlock) bool {
			iff := ifOf(from)
			if iff == nil || from.Succs[0] == from.Succs[1] {
				return false
			}
			bo, ok := iff.Cond.(*ssa.BinOp)
			if !ok || !fwd[bo.X] {
				return false
			}
			kk, isK := constInt(bo.Y)
			if !isK {
				return false
			}
			edge := -1
			switch bo.Op {
			case token.GTR:
				if kk >= 0 {
					edge = 0
				}
			case token.GEQ:
				if kk >= 1 {
					edge = 0
				}
			case token.LEQ:
				if kk >= 0 {
					edge = 1
				}
			case token.LSS:
				if kk >= 1 {
					edge = 1
				}
			}
			return edge >= 0 && to == from.Succs[edge]
		}
		edgeOK := func(from, to *ssa.BasicBlock) bool { return !positive(from, to) }
		if bad, reach := pathToCorr(locOf(sub), isEmit, isParse, edgeOK); reach {
			r.Fail(rule, key, c.Pos(sub.Pos()), fmt.Sprintf("after a piece of %d has been taken off, the operation at %s is made from what is left without that having been shown positive: a length that is an exact multiple of the piece (2^28−1 itself, the largest a CigarOp holds) gets a zero-length operation appended – the text no longer round-trips and a clip moves to an inner position", piece, c.Pos(bad.Pos())))
			return
		}
		r.Pass(rule, key, c.Pos(sub.Pos()), "what is left is tested > 0 before the next operation is made from it")
	})
}

// ---- PARSE-WIDTH ----------------------------------------------------------------------

func ruleParseWidth(pkgs []string, floor int) func(c *Ctx, r *Rep, tier string) {
	return func(c *Ctx, r *Rep, tier string) {
		rule := "PARSE-WIDTH"
		n := 0
		for _, pkg := range pkgs {
			for _, fn := range c.FuncsIn(pkg) {
				for _, f := range withAnon(fn) {
					idx := 0
					f := f
					allInstrs(f, func(ins ssa.Instruction) {
						call, ok := ins.(*ssa.Call)
						if !ok {
							return
						}
						name := calleeFullName(&call.Call)
						if name != "strconv.ParseInt" && name != "strconv.ParseUint" {
							return
						}
						n++
						idx++
						r.Instance(rule, 1)
						key := fmt.Sprintf("%s#%s", c.FnName(f), strings.TrimPrefix(name, "strconv."))
						if idx > 1 {
							key += fmt.Sprintf("~%d", idx)
						}
						bits, isK := constInt(call.Call.Args[2])
						if !isK {
							r.Fail(rule, key, c.Pos(call.Pos()), "the bit size is not a constant: undecided")
							return
						}
						if bits == 0 {
							bits = 64 // int, under the 64-bit assumption
						}
						// the type the value is converted to
						want := int64(0)
						var wantT types.Type
						for _, ref := range *call.Referrers() {
							ex, ok := ref.(*ssa.Extract)
							if !ok || ex.Index != 0 {
								continue
							}
							used := false
							for _, u := range *ex.Referrers() {
								if cv, ok := u.(*ssa.Convert); ok {
									if w, _, ok := basicWidth(cv.Type()); ok && int64(w) > want {
										want, wantT = int64(w), cv.Type()
									}
									used = true
								} else if _, isDbg := u.(*ssa.DebugRef); !isDbg {
									used = true
									if want < 64 {
										want, wantT = 64, ex.Type()
									}
								}
							}
							_ = used
						}
						if want == 0 {
							r.Pass(rule, key, c.Pos(call.Pos()), "the value is not used")
							return
						}
						switch {
						case bits < want:
							r.Fail(rule, key, c.Pos(call.Pos()), fmt.Sprintf("parsed with bit size %d but held in %s (%d bits): every value from 2^%d on is refused with \"value out of range\" although the field – and the writer – can hold it", bits, wantT, want, bits-1))
						case bits > want:
							r.Fail(rule, key, c.Pos(call.Pos()), fmt.Sprintf("parsed with bit size %d and then converted to %s (%d bits): a value outside that type is accepted and wraps", bits, wantT, want))
						default:
							r.Pass(rule, key, c.Pos(call.Pos()), fmt.Sprintf("bit size %d = width of %s", bits, wantT))
						}
					})
				}
			}
		}
		if n < floor {
			r.Instance(rule, 1)
			r.Fail(rule, "strconv#parse-calls", "-", fmt.Sprintf("only %d ParseInt/ParseUint calls found in %v, %d confirmed by reading: the rule's anchor moved", n, pkgs, floor))
		}
	}
}

// ---- STATS-BLIND ----------------------------------------------------------------------

func ruleStatsBlind(c *Ctx, r *Rep, tier string) {
	rule := "STATS-BLIND"
	isStats := func(t types.Type) bool {
		if p, ok := t.Underlying().(*types.Pointer); ok {
			t = p.Elem()
		}
		if p, ok := t.(*types.Pointer); ok {
			t = p.Elem()
		}
		n, ok := t.(*types.Named)
		return ok && n.Obj().Name() == "ReferenceStats"
	}
	n := 0
	for _, pkg := range []string{"bam", "internal", "csi", "tabix"} {
		for _, fn := range c.FuncsIn(pkg) {
			if fn.Name() != "Chunks" || fn.Signature.Recv() == nil || fn.Parent() != nil {
				continue
			}
			n++
			r.Instance(rule, 1)
			key := c.FnName(fn) + "#stats-blind"
			why := ""
			seen := map[*ssa.Function]bool{}
			var visit func(f *ssa.Function, depth int)
			visit = func(f *ssa.Function, depth int) {
				if f == nil || seen[f] || len(f.Blocks) == 0 || depth > 4 || why != "" {
					return
				}
				seen[f] = true
				for _, g := range withAnon(f) {
					allInstrs(g, func(ins ssa.Instruction) {
						if why != "" {
							return
						}
						switch x := ins.(type) {
						case *ssa.FieldAddr:
							st := x.X.Type().Underlying().(*types.Pointer).Elem().Underlying().(*types.Struct)
							if isStats(st.Field(x.Field).Type()) || isStats(x.X.Type()) {
								why = fmt.Sprintf("%s reads the reference statistics (%s) on the way to the answer of a query", c.FnName(g), c.Pos(x.Pos()))
							}
						case *ssa.Field:
							st := x.X.Type().Underlying().(*types.Struct)
							if isStats(st.Field(x.Field).Type()) || isStats(x.X.Type()) {
								why = fmt.Sprintf("%s reads the reference statistics (%s) on the way to the answer of a query", c.FnName(g), c.Pos(x.Pos()))
							}
						}
						if cc := callCommon(ins); cc != nil {
							if h := staticCallee(cc); h != nil && h.Pkg != nil && modulePrefix(h) == modulePrefix(fn) {
								visit(h, depth+1)
							}
						}
					})
				}
			}
			visit(fn, 0)
			if why != "" {
				why += ": the statistics count mapped and unmapped reads, not what is indexed – a reference that holds only placed unmapped reads (indexed under their mate's position) has Mapped == 0 and still has chunks that overlap a query"
			}
			r.Check(why == "", rule, key, c.Pos(fn.Pos()), "the query is answered from bins and intervals alone", why)
		}
	}
	if n < 4 {
		r.Instance(rule, 1)
		r.Fail(rule, "index#chunks-methods", "-", fmt.Sprintf("only %d Chunks methods found in bam, internal, csi, tabix (4 confirmed by reading): the rule's anchor moved", n))
	}
}

// ---- NAMES-SPLIT ----------------------------------------------------------------------

// lossySplitters: library functions that drop empty fields or more than one
// terminator.
var lossySplitters = map[string]string{
	"strings.Fields":     "drops empty fields",
	"strings.FieldsFunc": "drops empty fields",
	"bytes.Fields":       "drops empty fields",
	"bytes.FieldsFunc":   "drops empty fields",
	"strings.TrimRight":  "removes every trailing terminator, so trailing empty names vanish",
	"strings.Trim":       "removes every leading and trailing terminator",
	"strings.TrimLeft":   "removes every leading terminator",
	"strings.TrimFunc":   "removes every leading and trailing terminator",
	"strings.TrimSpace":  "removes leading and trailing bytes",
	"bytes.TrimRight":    "removes every trailing terminator, so trailing empty names vanish",
	"bytes.Trim":         "removes every leading and trailing terminator",
	"bytes.TrimLeft":     "removes every leading terminator",
	"bytes.TrimFunc":     "removes every leading and trailing terminator",
	"bytes.TrimSpace":    "removes leading and trailing bytes",
	"strings.SplitN":     "stops splitting after n pieces",
	"bytes.SplitN":       "stops splitting after n pieces",
	"strings.SplitAfter": "keeps the terminator in the name",
	"bytes.SplitAfter":   "keeps the terminator in the name",
}

func ruleNamesSplit(c *Ctx, r *Rep, tier string) {
	rule := "NAMES-SPLIT"
	fn := c.Func("tabix", "readTabixHeader")
	// the store of the name list
	var stored ssa.Value
	allInstrs(fn, func(ins ssa.Instruction) {
		st, ok := ins.(*ssa.Store)
		if !ok {
			return
		}
		if _, ok := st.Addr.(*ssa.FieldAddr); !ok {
			return
		}
		if sl, ok := st.Val.Type().Underlying().(*types.Slice); ok {
			if b, ok := sl.Elem().Underlying().(*types.Basic); ok && b.Kind() == types.String {
				stored = st.Val
			}
		}
	})
	r.Instance(rule, 1)
	if stored == nil {
		r.Fail(rule, "tabix.readTabixHeader#names", c.Pos(fn.Pos()), "no store of a list of names in readTabixHeader: the rule's anchor moved (undecided)")
		return
	}
	// library calls on the way from the bytes read to the stored list
	seen := map[ssa.Value]bool{}
	var calls []*ssa.Call
	var back func(v ssa.Value, depth int)
	back = func(v ssa.Value, depth int) {
		if v == nil || seen[v] || depth > 20 {
			return
		}
		seen[v] = true
		switch x := v.(type) {
		case *ssa.Call:
			calls = append(calls, x)
			for _, a := range x.Call.Args {
				back(a, depth+1)
			}
		case *ssa.Phi:
			for _, e := range x.Edges {
				back(e, depth+1)
			}
		case *ssa.Slice:
			back(x.X, depth+1)
		case *ssa.Convert:
			back(x.X, depth+1)
		case *ssa.ChangeType:
			back(x.X, depth+1)
		case *ssa.Extract:
			back(x.Tuple, depth+1)
		case *ssa.MakeClosure, *ssa.Const:
		}
	}
	back(stored, 0)
	why, how := "", "no library splitter on the way (not decided beyond that)"
	for _, call := range calls {
		name := calleeFullName(&call.Call)
		if reason, lossy := lossySplitters[name]; lossy {
			why = fmt.Sprintf("the list of names is taken apart with %s at %s, which %s: the writer writes one terminator per name, empty or not, so an index with an empty reference name is read back with one name too few and refused (name count mismatch)", name, c.Pos(call.Pos()), reason)
		}
		if name == "strings.Split" || name == "bytes.Split" {
			how = name + " keeps empty names"
		}
	}
	r.Check(why == "", rule, "tabix.readTabixHeader#names", c.Pos(fn.Pos()), how, why)
}
