// C04 / C16, continued: two rules written after fifth-round seeds.
//
//	BIN-UNPLACED   sam.Record.Bin answers the fixed bin of an unplaced read
//	               (4680 = reg2bin(-1, 0)) exactly when both Unmapped and
//	               MateUnmapped are set, and BinFor(Pos, End()) otherwise –
//	               evaluated over the flag combinations, however the test is
//	               written. (A read flagged unmapped but placed at its mate's
//	               position is filed, and must be found, at that position.)
//	BIN-ONE-WALK   every list internal.OverlappingBinsFor returns was built by
//	               the walk over the level table: no return bypasses it. (A
//	               "fast path" for a single-tile query that forgot bin 1 was not
//	               seen by BIN-PAIRS, which only reads the table.)
package main

import (
	"fmt"
	"go/constant"
	"go/types"
	"strings"

	"golang.org/x/tools/go/ssa"
)

func ruleBinUnplaced(c *Ctx, r *Rep, tier string) {
	rule := "BIN-UNPLACED"
	fn := c.Func("sam", "(*Record).Bin")
	un, _ := constant.Int64Val(pkgConst(c, "sam", "Unmapped"))
	mu, _ := constant.Int64Val(pkgConst(c, "sam", "MateUnmapped"))
	r.Instance(rule, 1)
	why := ""
	if un == 0 || mu == 0 || un == mu {
		why = fmt.Sprintf("flag constants Unmapped=%#x MateUnmapped=%#x", un, mu)
	}
	stopAtBinFor := func(i ssa.Instruction) bool {
		call, ok := i.(*ssa.Call)
		if !ok {
			return false
		}
		g := staticCallee(&call.Call)
		return g != nil && g.Name() == "BinFor"
	}
	n := 0
	for _, other := range []int64{0, 0x1, 0x10 | 0x40, 0x100 | 0x400} {
		for _, a := range []int64{0, un} {
			for _, b := range []int64{0, mu} {
				if why != "" {
					break
				}
				v := other | a | b
				// the run stops at the call of BinFor, which is not looked into
				sr := symExecAt(fn, entryLoc(fn), stopAtBinFor, map[string]int64{"$0.Flags": v, "$0.Pos": 500, "$0.End()": 1000})
				n++
				switch {
				case sr.Undec != "":
					why = fmt.Sprintf("for flags %#x the bin depends on %s, want BinFor(Pos, End())", v, sr.Undec)
				case sr.Stopped != nil:
				case len(sr.Rets) == 1 && sr.Known[0]:
					why = fmt.Sprintf("for flags %#x the bin of a read at position 500 is the constant %d: the specification computes the bin from the position whatever the flags say (reg2bin(pos, pos+1) for an unmapped read) – a read placed at a position, its own or its mate's, is otherwise filed under a bin no query at that position visits", v, sr.Rets[0])
				default:
					why = fmt.Sprintf("for flags %#x the bin is %s, want BinFor(Pos, End())", v, strings.Join(sr.RetKeys, ","))
				}
			}
		}
	}
	r.Check(why == "", rule, "sam.(*Record).Bin#position-only", c.Pos(fn.Pos()), fmt.Sprintf("%d flag combinations with a position: always BinFor(Pos, …)", n), why)

	// a read without a position gets 4680 = reg2bin(-1, 0): a constant, or what
	// BinFor(-1, 0) gives (first bin of the finest level, 4681, plus -1>>14;
	// the level table is BIN-PAIRS' matter)
	r.Instance(rule, 1)
	why = ""
	for _, v := range []int64{0, un | mu, un} {
		sr := symExecAt(fn, entryLoc(fn), stopAtBinFor, map[string]int64{"$0.Flags": v, "$0.Pos": -1, "$0.End()": -1})
		switch {
		case sr.Undec != "":
			why = fmt.Sprintf("for a read without position (flags %#x) the bin depends on %s", v, sr.Undec)
		case sr.Stopped != nil:
			call := sr.Stopped.(*ssa.Call)
			env := map[string]int64{"$0.Flags": v, "$0.Pos": -1, "$0.End()": -1}
			beg, ok1 := symValueAt(fn, call, call.Call.Args[0], env)
			end, ok2 := symValueAt(fn, call, call.Call.Args[1], env)
			if !ok1 || !ok2 || beg != -1 || end != 0 {
				why = fmt.Sprintf("for a read without position (flags %#x) the bin is BinFor(%d, %d), want BinFor(-1, 0) = 4680", v, beg, end)
			}
		case len(sr.Rets) == 1 && sr.Known[0] && sr.Rets[0] == 4680:
		default:
			why = fmt.Sprintf("for a read without position (flags %#x) the bin is %v, want 4680 = reg2bin(-1, 0)", v, sr.RetKeys)
		}
		if why != "" {
			break
		}
	}
	r.Check(why == "", rule, "sam.(*Record).Bin#no-position", c.Pos(fn.Pos()), "Pos = -1: the constant 4680 or BinFor(-1, 0)", why)

	// the interval handed to BinFor has at least length one: the specification
	// treats an alignment whose CIGAR consumes no reference as one base long
	r.Instance(rule, 1)
	why = ""
	var binCall *ssa.Call
	allInstrs(fn, func(ins ssa.Instruction) {
		if call, ok := ins.(*ssa.Call); ok {
			if g := staticCallee(&call.Call); g != nil && g.Name() == "BinFor" && len(call.Call.Args) == 2 {
				binCall = call
			}
		}
	})
	if binCall == nil {
		why = "no call of BinFor found in Bin"
	} else {
		const pos = 500
		for _, e := range []int64{pos - 3, pos, pos + 1, pos + 40} {
			env := map[string]int64{"$0.Flags": 0, "$0.Pos": pos, "$0.End()": e}
			beg, ok1 := symValueAt(fn, binCall, binCall.Call.Args[0], env)
			end, ok2 := symValueAt(fn, binCall, binCall.Call.Args[1], env)
			want := e
			if want < pos+1 {
				want = pos + 1
			}
			switch {
			case !ok1 || !ok2:
				why = fmt.Sprintf("cannot evaluate the interval handed to BinFor (%s, %s)", symKey(binCall.Call.Args[0]), symKey(binCall.Call.Args[1]))
			case beg != pos || end != want:
				why = fmt.Sprintf("with Pos=%d and End()=%d the bin is computed for [%d,%d), want [%d,%d): an alignment that consumes no reference is treated as one base long (reg2bin(pos, pos+1)); with an empty interval BinFor looks at pos-1 and answers a coarser bin at every tile boundary", pos, e, beg, end, pos, want)
			}
			if why != "" {
				break
			}
		}
	}
	r.Check(why == "", rule, "sam.(*Record).Bin#length-one", c.Pos(fn.Pos()), "BinFor(Pos, max(End(), Pos+1)) for the four orderings of End() and Pos+1", why)
}

func ruleBinOneWalk(c *Ctx, r *Rep, tier string) {
	rule := "BIN-ONE-WALK"
	fn := c.Func("internal", "OverlappingBinsFor")
	r.Instance(rule, 1)
	// the walk: the loop whose body loads the {offset, shift} table
	var tableLoad ssa.Instruction
	allInstrs(fn, func(ins ssa.Instruction) {
		// an element of a table of two-field records, addressed by a loop counter
		if ia, ok := ins.(*ssa.IndexAddr); ok && tableLoad == nil {
			if _, isConst := ia.Index.(*ssa.Const); isConst {
				return
			}
			var elem types.Type
			switch t := ia.X.Type().Underlying().(type) {
			case *types.Slice:
				elem = t.Elem()
			case *types.Pointer:
				if at, ok := t.Elem().Underlying().(*types.Array); ok {
					elem = at.Elem()
				}
			}
			if elem == nil {
				return
			}
			if st, ok := elem.Underlying().(*types.Struct); ok && st.NumFields() == 2 {
				tableLoad = ins
			}
		}
	})
	why := ""
	if tableLoad == nil {
		why = "no loop over a level table found: the enumeration is written in a way this rule does not understand (undecided)"
	} else {
		// the loop head: the block that dominates the table load and ends in the loop test
		head := tableLoad.Block()
		for head != nil && !(ifOf(head) != nil && len(head.Preds) >= 2) {
			head = head.Idom()
		}
		allInstrs(fn, func(ins ssa.Instruction) {
			ret, ok := ins.(*ssa.Return)
			if !ok || (fn.Recover != nil && ret.Block() == fn.Recover) {
				return
			}
			if head == nil || !head.Dominates(ret.Block()) {
				why = fmt.Sprintf("the return at %s hands back a list that did not go through the walk over the level table: its bins are not the ones BIN-PAIRS compared with BinFor's", c.Pos(ret.Pos()))
			}
		})
	}
	r.Check(why == "", rule, "internal.OverlappingBinsFor#single-walk", c.Pos(fn.Pos()), "every return is behind the level-table loop", why)
}
