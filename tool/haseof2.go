// PATH-HASEOF, second part (after a defect of the unchanged tree, repaired
// 9f62d97): HasEOF does not ask for a negative offset – a stream shorter than
// the marker has no marker – and takes io.EOF together with a full count for what
// io.ReaderAt says it is, a successful read at the end of the input.
package main

import (
	"fmt"
	"go/token"

	"golang.org/x/tools/go/ssa"
)

func ruleHasEOFEdges(c *Ctx, r *Rep, tier string) {
	rule := "PATH-HASEOF"
	fn := c.Func("bgzf", "HasEOF")
	bc := &boundsCtx{c: c, fn: fn}
	var readAt *ssa.Call
	allInstrs(fn, func(ins ssa.Instruction) {
		if call, ok := ins.(*ssa.Call); ok && call.Call.IsInvoke() && call.Call.Method.Name() == "ReadAt" {
			readAt = call
		}
	})
	r.Instance(rule, 2)
	if readAt == nil {
		r.Fail(rule, "bgzf.HasEOF#short-stream", c.Pos(fn.Pos()), "no ReadAt in HasEOF (undecided)")
		r.Fail(rule, "bgzf.HasEOF#readat-eof", c.Pos(fn.Pos()), "no ReadAt in HasEOF (undecided)")
		return
	}
	// (1) the offset handed to ReadAt is not negative
	why := ""
	if lb := bc.lowerBound(readAt.Call.Args[1], readAt.Block(), 0); lb < 0 {
		why = "ReadAt is asked for size − len(magicBlock) without the size having been compared with the marker's length: for a stream shorter than 28 bytes – the empty output of a writer that was never closed, a cut at offset 0 – the offset is negative and HasEOF returns the reader's error instead of false"
	}
	if lb := bc.lowerBound(readAt.Call.Args[1], readAt.Block(), 0); lb > 0 {
		why = fmt.Sprintf("the offset handed to ReadAt is at least %d on every path: a stream that is exactly the marker (what a Writer that was closed without data has written) never reaches the comparison and is reported to have none", lb)
	}
	r.Check(why == "", rule, "bgzf.HasEOF#short-stream", c.Pos(readAt.Pos()), "the offset is shown non-negative, and offset 0 (a stream that is the marker alone) is not excluded", why)

	// (2) on the error edge after ReadAt, io.EOF is looked at before giving up
	why = ""
	var errV ssa.Value
	for _, ref := range *readAt.Referrers() {
		if e, ok := ref.(*ssa.Extract); ok && e.Index == 1 {
			errV = e
		}
	}
	if errV == nil {
		why = "the error of ReadAt is dropped"
	} else {
		isEOFTest := func(ins ssa.Instruction) bool {
			iff, ok := ins.(*ssa.If)
			if !ok {
				return false
			}
			bo, ok := iff.Cond.(*ssa.BinOp)
			return ok && (bo.Op == token.EQL || bo.Op == token.NEQ) && ((bo.X == errV && isGlobalLoad(bo.Y, "io", "EOF")) || (bo.Y == errV && isGlobalLoad(bo.X, "io", "EOF")))
		}
		for _, b := range fn.Blocks {
			ce, ok := classifyErrIf(b, func(v ssa.Value) bool { return v == errV })
			if !ok || !ce.isNil || b.Succs[0] == b.Succs[1] {
				continue
			}
			if bad, reach := pathTo(Loc{b.Succs[1-ce.yes], -1}, func(x ssa.Instruction) bool {
				ret, ok := x.(*ssa.Return)
				return ok && len(ret.Results) == 2 && retValue(ret, 1) == errV
			}, isEOFTest, nil); reach {
				why = fmt.Sprintf("any error of ReadAt is returned at %s: an io.ReaderAt may return io.EOF together with all the bytes asked for when they are the last of its input, and a correctly closed stream then reports false with io.EOF", c.Pos(bad.Pos()))
			}
		}
	}
	r.Check(why == "", rule, "bgzf.HasEOF#readat-eof", c.Pos(readAt.Pos()), "io.EOF with a full count is not an error", why)
}
