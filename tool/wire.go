// Wire grammar extraction for encoding/binary based writers and readers: a
// flat sequence of tokens (fixed width from the static type handed to
// binary.Write/Read, "var" for raw slice writes/reads), each flagged with
// whether it sits in a loop; helpers are inlined at their call position.
package main

import (
	"fmt"
	"go/token"
	"go/types"
	"sort"
	"strings"

	"golang.org/x/tools/go/ssa"
)

type binTok struct {
	width  int // -1 = variable
	inLoop bool
	label  string
	pos    token.Pos
	cond   bool // under a condition other than error handling (optional field)
}

func (t binTok) String() string {
	w := fmt.Sprint(t.width)
	if t.width < 0 {
		w = "var"
	}
	if t.inLoop {
		w += "*"
	}
	return w
}

func binarySizeOf(t types.Type) int {
	switch u := t.Underlying().(type) {
	case *types.Basic:
		if w, _, ok := basicWidth(u); ok && w >= 8 {
			return w / 8
		}
		if u.Kind() == types.Bool {
			return 1
		}
		if u.Kind() == types.Float32 {
			return 4
		}
		if u.Kind() == types.Float64 {
			return 8
		}
	case *types.Array:
		if e := binarySizeOf(u.Elem()); e > 0 {
			return e * int(u.Len())
		}
	case *types.Struct:
		s := 0
		for i := 0; i < u.NumFields(); i++ {
			e := binarySizeOf(u.Field(i).Type())
			if e < 0 {
				return -1
			}
			s += e
		}
		return s
	case *types.Pointer:
		return binarySizeOf(u.Elem())
	case *types.Slice:
		return -1
	}
	return -1
}

func inLoop(ins ssa.Instruction) bool {
	_, again := pathTo(locOf(ins), func(x ssa.Instruction) bool { return x == ins }, nil, nil)
	return again
}

// binTokens extracts the token sequence of fn (source order), inlining module
// callees that themselves produce tokens.
func binTokens(c *Ctx, fn *ssa.Function, depth int, loop bool) []binTok {
	var out []binTok
	if fn == nil || fn.Blocks == nil || depth > 4 {
		return out
	}
	type item struct {
		pos  token.Pos
		toks []binTok
	}
	var items []item
	allInstrs(fn, func(ins ssa.Instruction) {
		call, ok := ins.(*ssa.Call)
		if !ok {
			return
		}
		il := loop || inLoop(ins)
		name := calleeFullName(&call.Call)
		switch name {
		case "encoding/binary.Write", "encoding/binary.Read":
			arg := call.Call.Args[2]
			if mi, ok := arg.(*ssa.MakeInterface); ok {
				arg = mi.X
			}
			w := binarySizeOf(arg.Type())
			lbl := ""
			if f, _ := addrField(arg); f != nil {
				lbl = f.Name()
			} else if f, _ := loadedField(arg); f != nil {
				lbl = f.Name()
			}
			items = append(items, item{call.Pos(), []binTok{{width: w, inLoop: il, label: lbl, pos: call.Pos()}}})
			return
		case "io.ReadFull", "io.ReadAtLeast":
			w := -1
			if sl, ok := call.Call.Args[1].(*ssa.Slice); ok {
				if pt, ok := sl.X.Type().Underlying().(*types.Pointer); ok {
					if a, ok := pt.Elem().Underlying().(*types.Array); ok && sl.Low == nil && sl.High == nil {
						w = int(a.Len())
					}
				}
			}
			items = append(items, item{call.Pos(), []binTok{{width: w, inLoop: il, pos: call.Pos()}}})
			return
		}
		if call.Call.IsInvoke() && (call.Call.Method.Name() == "Write" || call.Call.Method.Name() == "Read") && len(call.Call.Args) == 1 {
			items = append(items, item{call.Pos(), []binTok{{width: -1, inLoop: il, pos: call.Pos()}}})
			return
		}
		if g := staticCallee(&call.Call); g != nil && c.PkgOf(g) != nil && g != fn {
			if g.Name() == "Write" && g.Signature.Recv() != nil && len(call.Call.Args) == 2 {
				// a module writer's Write([]byte) method (errWriter)
				items = append(items, item{call.Pos(), []binTok{{width: -1, inLoop: il, pos: call.Pos()}}})
				return
			}
			if sub := binTokens(c, g, depth+1, il); len(sub) > 0 {
				items = append(items, item{call.Pos(), sub})
			}
		}
	})
	sort.SliceStable(items, func(i, j int) bool { return items[i].pos < items[j].pos })
	for _, it := range items {
		out = append(out, it.toks...)
	}
	return out
}

func tokStr(ts []binTok) string {
	var s []string
	for _, t := range ts {
		s = append(s, t.String())
	}
	return strings.Join(s, " ")
}

// ruleWirePair compares a writer's and a reader's token sequence.
func ruleWirePair(rule, key string, wpkg, wfn, rpkg, rfn string, normalise func(w, r []binTok) ([]binTok, []binTok)) func(c *Ctx, r *Rep, tier string) {
	return func(c *Ctx, rep *Rep, tier string) {
		w := binTokens(c, c.Func(wpkg, wfn), 0, false)
		rd := binTokens(c, c.Func(rpkg, rfn), 0, false)
		if normalise != nil {
			w, rd = normalise(w, rd)
		}
		rep.Instance(rule, len(w))
		why := ""
		if len(w) == 0 || len(rd) == 0 {
			why = "no tokens extracted: undecided"
		} else if tokStr(w) != tokStr(rd) {
			why = fmt.Sprintf("writer emits [%s], reader consumes [%s]", tokStr(w), tokStr(rd))
		}
		rep.Check(why == "", rule, key, c.Pos(c.Func(wpkg, wfn).Pos()), "writer = reader = ["+tokStr(w)+"]", "wire layouts of writer and reader differ: "+why)
	}
}
