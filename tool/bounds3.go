package main

import (
	"go/token"

	"golang.org/x/tools/go/ssa"
)

// storeSummary is the module-wide "which fields may a call assign" summary used
// to decide whether two loads of the same field see the same value.
var storeSummary *Walker

func initStoreSummary(c *Ctx) {
	if storeSummary == nil || storeSummary.c != c {
		storeSummary = NewWalker(c)
	}
}

// errNilDominates: block `at` is dominated by the edge on which result idx of
// call (an error) is nil.
func errNilDominates(fn *ssa.Function, call *ssa.Call, idx int, at *ssa.BasicBlock) bool {
	for _, b := range fn.Blocks {
		i := ifOf(b)
		if i == nil || b.Succs[0] == b.Succs[1] {
			continue
		}
		bo, ok := i.Cond.(*ssa.BinOp)
		if !ok || !isNilConst(bo.Y) || (bo.Op != token.EQL && bo.Op != token.NEQ) {
			continue
		}
		e, ok := bo.X.(*ssa.Extract)
		if !ok || e.Tuple != ssa.Value(call) || e.Index != idx {
			continue
		}
		k := 0
		if bo.Op == token.NEQ {
			k = 1
		}
		if dominatedByEdge(fn, b, k, at) {
			return true
		}
	}
	return false
}
