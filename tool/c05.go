// C05: BAM encoding round trip (structural part): the fixed record layout is
// written, read and declared identically; the record length is accounted for;
// sibling tables agree; aux fields are all written; buffers are not aliased.
package main

import (
	"fmt"
	"go/ast"
	"go/constant"
	"go/token"
	"go/types"
	"sort"
	"strings"

	"golang.org/x/tools/go/ssa"
)

// spec oracle: BAM record fixed fields after block_size (SAM spec §4.2)
var bamFixedSpec = []struct {
	label string
	width int
}{{"Ref", 4}, {"Pos", 4}, {"Name", 1}, {"MapQ", 1}, {"Bin", 2}, {"Cigar", 2}, {"Flags", 2}, {"Seq", 4}, {"MateRef", 4}, {"MatePos", 4}, {"TempLen", 4}}

type wireTok struct {
	width  int
	labels map[string]bool
	pos    token.Pos
	call   *ssa.Call
}

func (t wireTok) String() string {
	var ls []string
	for l := range t.labels {
		ls = append(ls, l)
	}
	sort.Strings(ls)
	return fmt.Sprintf("%d:%s", t.width, strings.Join(ls, "|"))
}

// recordFieldsIn: names of the first-level fields of the record (pointer value
// rec) that v depends on.
func recordFieldsIn(v ssa.Value, rec ssa.Value, depth int, out map[string]bool) {
	if depth > 10 || v == nil {
		return
	}
	switch x := v.(type) {
	case *ssa.FieldAddr:
		if origin(x.X) == rec {
			out[fieldVarOfAddr(x).Name()] = true
			return
		}
		recordFieldsIn(x.X, rec, depth+1, out)
	case *ssa.UnOp:
		recordFieldsIn(x.X, rec, depth+1, out)
	case *ssa.Convert:
		recordFieldsIn(x.X, rec, depth+1, out)
	case *ssa.ChangeType:
		recordFieldsIn(x.X, rec, depth+1, out)
	case *ssa.BinOp:
		recordFieldsIn(x.X, rec, depth+1, out)
		recordFieldsIn(x.Y, rec, depth+1, out)
	case *ssa.Call:
		if g := staticCallee(&x.Call); g != nil && len(x.Call.Args) > 0 && origin(x.Call.Args[0]) == rec && g.Signature.Recv() != nil {
			out[g.Name()] = true // method of the record itself, e.g. Bin()
			return
		}
		for _, a := range x.Call.Args {
			recordFieldsIn(a, rec, depth+1, out)
		}
		if x.Call.IsInvoke() {
			recordFieldsIn(x.Call.Value, rec, depth+1, out)
		}
	case *ssa.Field:
		recordFieldsIn(x.X, rec, depth+1, out)
	case *ssa.Extract:
		recordFieldsIn(x.Tuple, rec, depth+1, out)
	}
}

// flowsToRecordFields: fields of the record (local alloc rec) whose stored value
// depends on v (through arithmetic, calls, indexing, local composites).
func flowsToRecordFields(v ssa.Value, rec ssa.Value, out map[string]bool) {
	seen := map[ssa.Value]bool{}
	var visit func(v ssa.Value, depth int)
	visit = func(v ssa.Value, depth int) {
		if depth > 12 || seen[v] {
			return
		}
		seen[v] = true
		refs := v.Referrers()
		if refs == nil {
			return
		}
		for _, ref := range *refs {
			switch x := ref.(type) {
			case *ssa.Store:
				if x.Val != v {
					continue
				}
				// which memory?
				root := x.Addr
				var first *types.Var
				for {
					fa, ok := root.(*ssa.FieldAddr)
					if !ok {
						break
					}
					first = fieldVarOfAddr(fa)
					root = fa.X
				}
				if root == rec && first != nil {
					// outermost field of rec
					f := x.Addr
					for {
						fa := f.(*ssa.FieldAddr)
						if fa.X == rec {
							out[fieldVarOfAddr(fa).Name()] = true
							break
						}
						f = fa.X
					}
					continue
				}
				if al, ok := root.(*ssa.Alloc); ok && al != rec {
					// local composite / spilled variable: continue from its loads
					for _, r2 := range *al.Referrers() {
						if u, ok := r2.(*ssa.UnOp); ok && u.Op == token.MUL {
							visit(u, depth+1)
						}
						if fa, ok := r2.(*ssa.FieldAddr); ok {
							for _, r3 := range *fa.Referrers() {
								if u, ok := r3.(*ssa.UnOp); ok && u.Op == token.MUL {
									visit(u, depth+1)
								}
							}
						}
					}
				}
			case ssa.Value:
				switch x.(type) {
				case *ssa.BinOp:
					// comparisons do not carry the value
					if b := x.(*ssa.BinOp); b.Op == token.EQL || b.Op == token.NEQ || b.Op == token.LSS || b.Op == token.GTR || b.Op == token.LEQ || b.Op == token.GEQ {
						continue
					}
				}
				visit(x, depth+1)
			}
		}
	}
	visit(v, 0)
}

// helperWidth: the number of bytes a binaryWriter / buffer helper moves,
// read from its body (Slice high bound, or the `len() < K` guard).
func helperWidth(g *ssa.Function) int {
	w := -1
	allInstrs(g, func(ins ssa.Instruction) {
		switch x := ins.(type) {
		case *ssa.Slice:
			if k, ok := constInt(x.High); ok && x.High != nil && x.Low == nil {
				if int(k) > w {
					w = int(k)
				}
			}
		case *ssa.BinOp:
			if x.Op == token.LSS {
				if k, ok := constInt(x.Y); ok {
					if call, isCall := x.X.(*ssa.Call); isCall && staticCallee(&call.Call) != nil && staticCallee(&call.Call).Name() == "len" {
						if int(k) > w {
							w = int(k)
						}
					}
				}
			}
		}
	})
	return w
}

func ruleWireBamRec(c *Ctx, r *Rep, tier string) {
	rule := "WIRE-BAMREC"
	wfn := c.Func("bam", "(*Writer).Write")
	rfn := c.Func("bam", "(*Reader).Read")
	bwT := c.Named("bam", "binaryWriter")
	bufT := c.Named("bam", "buffer")

	// writer tokens
	var wt []wireTok
	recW := ssa.Value(wfn.Params[1])
	allInstrs(wfn, func(ins ssa.Instruction) {
		call, ok := ins.(*ssa.Call)
		if !ok {
			return
		}
		g := staticCallee(&call.Call)
		if g == nil || g.Signature.Recv() == nil {
			return
		}
		rt := g.Signature.Recv().Type()
		if p, ok := rt.(*types.Pointer); ok {
			rt = p.Elem()
		}
		if !types.Identical(rt, bwT) {
			return
		}
		t := wireTok{width: helperWidth(g), labels: map[string]bool{}, pos: call.Pos(), call: call}
		recordFieldsIn(call.Call.Args[1], recW, 0, t.labels)
		wt = append(wt, t)
	})
	sort.Slice(wt, func(i, j int) bool { return wt[i].pos < wt[j].pos })

	// reader tokens
	var rec ssa.Value
	allInstrs(rfn, func(ins ssa.Instruction) {
		if al, ok := ins.(*ssa.Alloc); ok {
			if n, ok := al.Type().(*types.Pointer).Elem().(*types.Named); ok && n.Obj().Name() == "Record" {
				rec = al
			}
		}
	})
	var rt []wireTok
	allInstrs(rfn, func(ins ssa.Instruction) {
		call, ok := ins.(*ssa.Call)
		if !ok {
			return
		}
		g := staticCallee(&call.Call)
		if g == nil || g.Signature.Recv() == nil {
			return
		}
		t0 := g.Signature.Recv().Type()
		if p, ok := t0.(*types.Pointer); ok {
			t0 = p.Elem()
		}
		if !types.Identical(t0, bufT) {
			return
		}
		t := wireTok{labels: map[string]bool{}, pos: call.Pos(), call: call}
		switch {
		case strings.HasPrefix(g.Name(), "read"):
			t.width = helperWidth(g)
			if rec != nil {
				flowsToRecordFields(call, rec, t.labels)
			}
		case g.Name() == "discard":
			k, ok := constInt(call.Call.Args[1])
			if !ok {
				return
			}
			t.width = int(k)
		default:
			return // bytes/unsafeBytes: variable-length data
		}
		rt = append(rt, t)
	})
	sort.Slice(rt, func(i, j int) bool { return rt[i].pos < rt[j].pos })

	// layout struct
	st, _ := c.Named("bam", "bamRecordFixed").Underlying().(*types.Struct)
	var lt []int
	if st != nil {
		for i := 0; i < st.NumFields(); i++ {
			w, _, ok := basicWidth(st.Field(i).Type())
			if !ok {
				lt = append(lt, -1)
				continue
			}
			lt = append(lt, w/8)
		}
	}

	show := func(ts []wireTok) string {
		var s []string
		for _, t := range ts {
			s = append(s, t.String())
		}
		return strings.Join(s, " ")
	}
	r.Instance(rule, len(bamFixedSpec))
	// writer: first token is block_size (4), then the spec sequence
	why := ""
	if len(wt) < 1+len(bamFixedSpec) || wt[0].width != 4 {
		why = fmt.Sprintf("writer emits %d fixed tokens (%s), specification has block_size + %d", len(wt), show(wt), len(bamFixedSpec))
	} else {
		for i, sp := range bamFixedSpec {
			t := wt[1+i]
			if t.width != sp.width {
				why += fmt.Sprintf(" field %d (%s) is written with %d bytes, specification: %d;", i+1, sp.label, t.width, sp.width)
			}
			if !t.labels[sp.label] {
				why += fmt.Sprintf(" field %d is written from %s, specification: %s;", i+1, t, sp.label)
			}
		}
	}
	r.Check(why == "", rule, "bam.(*Writer).Write#fixed-fields", c.Pos(wfn.Pos()), "writer: "+show(wt), why)

	r.Instance(rule, 1)
	why = ""
	if len(rt) < len(bamFixedSpec) {
		why = fmt.Sprintf("reader consumes %d fixed tokens (%s), specification has %d", len(rt), show(rt), len(bamFixedSpec))
	} else {
		for i, sp := range bamFixedSpec {
			t := rt[i]
			if t.width != sp.width {
				why += fmt.Sprintf(" field %d (%s) is read with %d bytes, specification: %d;", i+1, sp.label, t.width, sp.width)
			}
			if sp.label == "Bin" {
				continue // the reader ignores the stored bin
			}
			if !t.labels[sp.label] {
				why += fmt.Sprintf(" field %d goes to %s, specification: %s;", i+1, t, sp.label)
			}
		}
	}
	r.Check(why == "", rule, "bam.(*Reader).Read#fixed-fields", c.Pos(rfn.Pos()), "reader: "+show(rt), why)

	r.Instance(rule, 1)
	why = ""
	if len(lt) != 1+len(bamFixedSpec) {
		why = fmt.Sprintf("bamRecordFixed has %d fields", len(lt))
	} else {
		for i, sp := range bamFixedSpec {
			if lt[1+i] != sp.width {
				why += fmt.Sprintf(" layout field %d has %d bytes, specification %d;", i+1, lt[1+i], sp.width)
			}
		}
		if lt[0] != 4 {
			why += " block_size is not 4 bytes;"
		}
	}
	r.Check(why == "", rule, "bam.bamRecordFixed#layout", "bam/reader.go", "struct layout = specification (bamFixedRemainder = 32)", why)
}

// ruleLenAccount (LEN-ACCOUNT): the declared record length equals what is
// appended after the length field.
func ruleLenAccount(c *Ctx, r *Rep, tier string) {
	rule := "LEN-ACCOUNT"
	fn := c.Func("bam", "(*Writer).Write")
	rec := ssa.Value(fn.Params[1])
	r.Instance(rule, 1)
	bwT := c.Named("bam", "binaryWriter")
	// declared: the argument of the first binaryWriter call
	var first *ssa.Call
	fixed := 0
	var calls []*ssa.Call
	allInstrs(fn, func(ins ssa.Instruction) {
		if call, ok := ins.(*ssa.Call); ok {
			calls = append(calls, call)
		}
	})
	sort.Slice(calls, func(i, j int) bool { return calls[i].Pos() < calls[j].Pos() })
	isBW := func(call *ssa.Call) *ssa.Function {
		g := staticCallee(&call.Call)
		if g == nil || g.Signature.Recv() == nil {
			return nil
		}
		rt := g.Signature.Recv().Type()
		if p, ok := rt.(*types.Pointer); ok {
			rt = p.Elem()
		}
		if types.Identical(rt, bwT) {
			return g
		}
		return nil
	}
	// affine form: atom name → coefficient
	type aff map[string]int64
	written := aff{}
	declared := aff{}
	why := ""
	atomOfLen := func(v ssa.Value) string {
		fs := map[string]bool{}
		recordFieldsIn(v, rec, 0, fs)
		var ns []string
		for f := range fs {
			ns = append(ns, f)
		}
		sort.Strings(ns)
		if len(ns) == 0 {
			if call, ok := v.(*ssa.Call); ok {
				if g := staticCallee(&call.Call); g != nil {
					return "len(" + g.Name() + "())"
				}
			}
			return "len(?)"
		}
		return "len(" + strings.Join(ns, ".") + ")"
	}
	var parse func(v ssa.Value, coef int64, into aff)
	parse = func(v ssa.Value, coef int64, into aff) {
		switch x := v.(type) {
		case *ssa.Const:
			if k, ok := constInt(x); ok {
				into["1"] += coef * k
			}
		case *ssa.Convert:
			// a length squeezed through fewer than 32 bits is the length modulo
			// 2^16 (2^8): not an affine term any more (n_cigar_op is a 16 bit
			// field, but the byte count 4·n is not)
			if _, isC := x.X.(*ssa.Const); !isC {
				if b, ok := x.Type().Underlying().(*types.Basic); ok {
					if w, _, ok := basicWidth(b); ok && w < 32 {
						into[fmt.Sprintf("?truncated to %d bits", w)] += coef
						return
					}
				}
			}
			parse(x.X, coef, into)
		case *ssa.BinOp:
			if b, ok := x.Type().Underlying().(*types.Basic); ok {
				if w, _, ok := basicWidth(b); ok && w < 32 {
					into[fmt.Sprintf("?computed in %d bits", w)] += coef
					return
				}
			}
			switch x.Op {
			case token.ADD:
				parse(x.X, coef, into)
				parse(x.Y, coef, into)
			case token.SHL:
				if k, ok := constInt(x.Y); ok {
					parse(x.X, coef<<uint(k), into)
					return
				}
				into["?"] += coef
			case token.MUL:
				if k, ok := constInt(x.Y); ok {
					parse(x.X, coef*k, into)
					return
				}
				into["?"] += coef
			default:
				into["?"] += coef
			}
		case *ssa.Call:
			if arg, ok := isLenCall(x); ok {
				into[atomOfLen(arg)] += coef
				return
			}
			into["?"] += coef
		case *ssa.UnOp:
			// load of a global (bamFixedRemainder) or a record field (Seq.Length)
			if g, ok := x.X.(*ssa.Global); ok {
				into["$"+g.Name()] += coef
				return
			}
			fs := map[string]bool{}
			recordFieldsIn(x, rec, 0, fs)
			if len(fs) == 1 {
				for f := range fs {
					name := f
					if fa, ok := x.X.(*ssa.FieldAddr); ok {
						name = f + "." + fieldVarOfAddr(fa).Name()
					}
					into[name] += coef
				}
				return
			}
			into["?"] += coef
		default:
			into["?"] += coef
		}
	}
	// tags := buildAux(...)
	tagsLenAtom := ""
	for _, call := range calls {
		if g := isBW(call); g != nil {
			if first == nil {
				first = call
				parse(call.Call.Args[1], 1, declared)
				continue
			}
			// writeCigarOps is handled below; other helpers write fixed widths
			fixed += helperWidth(g)
		}
	}
	if first == nil {
		r.Fail(rule, "bam.(*Writer).Write#reclen", c.Pos(fn.Pos()), "no length field written: undecided")
		return
	}
	written["1"] += int64(fixed)
	// variable part
	type contrib struct {
		call *ssa.Call
		a    aff
	}
	var contribs []contrib
	for _, call := range calls {
		name := calleeFullName(&call.Call)
		written := aff{}
		contribs = append(contribs, contrib{call, written})
		switch name {
		case "(*bytes.Buffer).WriteString":
			written[atomOfLen(call.Call.Args[1])] += 1
		case "(*bytes.Buffer).WriteByte":
			// in a counting loop bounded by a record field, or once
			if bound := loopBoundOf(call); bound != nil {
				parse(bound, 1, written)
			} else {
				written["1"] += 1
			}
		case "(*bytes.Buffer).Write":
			arg := call.Call.Args[1]
			a := atomOfLen(arg)
			// Qual written under len(Qual) == Seq.Length
			if a == "len(Qual)" {
				a = "Seq.Length"
			}
			written[a] += 1
			if strings.Contains(a, "buildAux") {
				tagsLenAtom = a
			}
		default:
			if g := staticCallee(&call.Call); g != nil && g.Name() == "writeCigarOps" {
				// each op is written by a 4-byte helper
				per := 0
				allInstrs(g, func(ins ssa.Instruction) {
					if cl, ok := ins.(*ssa.Call); ok {
						if h := isBW(cl); h != nil {
							per += helperWidth(h)
						}
					}
				})
				written[atomOfLen(call.Call.Args[1])] += int64(per)
			}
		}
	}
	_ = tagsLenAtom
	// alternatives (the two arms of `if Qual != nil … else …`) count once: two
	// contributions that are mutually unreachable must be equal, and one is kept
	affKey := func(a aff) string {
		var ks []string
		for k, v := range a {
			if v != 0 {
				ks = append(ks, fmt.Sprintf("%s*%d", k, v))
			}
		}
		sort.Strings(ks)
		return strings.Join(ks, "+")
	}
	dropped := map[int]bool{}
	for i := range contribs {
		if len(contribs[i].a) == 0 || dropped[i] {
			continue
		}
		for j := i + 1; j < len(contribs); j++ {
			if len(contribs[j].a) == 0 || dropped[j] {
				continue
			}
			ci, cj := contribs[i].call, contribs[j].call
			_, ij := pathTo(locOf(ci), func(x ssa.Instruction) bool { return x == ssa.Instruction(cj) }, nil, nil)
			_, ji := pathTo(locOf(cj), func(x ssa.Instruction) bool { return x == ssa.Instruction(ci) }, nil, nil)
			if !ij && !ji {
				if affKey(contribs[i].a) != affKey(contribs[j].a) {
					why += fmt.Sprintf(" the alternative branches at %s and %s append different amounts (%s vs %s);", c.Pos(ci.Pos()), c.Pos(cj.Pos()), affKey(contribs[i].a), affKey(contribs[j].a))
				}
				dropped[j] = true
			}
		}
	}
	for i, cb := range contribs {
		if dropped[i] {
			continue
		}
		for k, v := range cb.a {
			written[k] += v
		}
	}
	// bamFixedRemainder is binary.Size(bamRecordFixed{}) − 4
	if st, ok := c.Named("bam", "bamRecordFixed").Underlying().(*types.Struct); ok {
		sum := 0
		for i := 0; i < st.NumFields(); i++ {
			w, _, _ := basicWidth(st.Field(i).Type())
			sum += w / 8
		}
		if k, ok := declared["$bamFixedRemainder"]; ok {
			declared["1"] += k * int64(sum-4)
			delete(declared, "$bamFixedRemainder")
		}
	}
	// the doublets conversion: len(doublets(Seq.Seq).Bytes()) = len(Seq.Seq)
	norm := func(a aff) aff {
		n := aff{}
		for k, v := range a {
			k = strings.Replace(k, "len(Seq)", "len(Seq.Seq)", 1)
			if v != 0 {
				n[k] += v
			}
		}
		return n
	}
	declared, written = norm(declared), norm(written)
	keys := map[string]bool{}
	for k := range declared {
		keys[k] = true
	}
	for k := range written {
		keys[k] = true
	}
	var ks []string
	for k := range keys {
		ks = append(ks, k)
	}
	sort.Strings(ks)
	for _, k := range ks {
		if declared[k] != written[k] {
			why += fmt.Sprintf(" %s: declared %d×, written %d×;", k, declared[k], written[k])
		}
	}
	r.Check(why == "", rule, "bam.(*Writer).Write#reclen", c.Pos(first.Pos()), fmt.Sprintf("declared = written = %v", written), "block_size does not equal the bytes appended after it:"+why)
}

// loopBoundOf: if ins sits in a counting loop `for i := 0; i < B; i++`, return B.
func loopBoundOf(ins ssa.Instruction) ssa.Value {
	b := ins.Block()
	for _, p := range b.Preds {
		i := ifOf(p)
		if i == nil {
			continue
		}
		bo, ok := i.Cond.(*ssa.BinOp)
		if !ok || p.Succs[0] != b {
			continue
		}
		x, y := bo.X, bo.Y
		switch bo.Op {
		case token.LSS:
		case token.GTR: // B > i
			x, y = y, x
		default:
			continue
		}
		if phi, ok := x.(*ssa.Phi); ok && phi.Block() == p {
			return y
		}
	}
	return nil
}

// ---- tables ----------------------------------------------------------------------------

var auxWidthSpec = map[rune]int{'A': 1, 'c': 1, 'C': 1, 's': 2, 'S': 2, 'i': 4, 'I': 4, 'f': 4}

func constRune(p *types.Info, e ast.Expr) (rune, bool) {
	tv, ok := p.Types[e]
	if !ok || tv.Value == nil || tv.Value.Kind() != constant.Int {
		return 0, false
	}
	k, ok := constant.Int64Val(tv.Value)
	return rune(k), ok
}

func ruleTabAux(c *Ctx, r *Rep, tier string) {
	rule := "TAB-AUX"
	// jumps table in bam
	bamP := c.ByPath["bam"]
	samP := c.ByPath["sam"]
	if bamP == nil || samP == nil {
		unresolved("packages bam / sam")
	}
	found := false
	for _, f := range bamP.Syntax {
		ast.Inspect(f, func(n ast.Node) bool {
			vs, ok := n.(*ast.ValueSpec)
			if !ok || len(vs.Names) != 1 || vs.Names[0].Name != "jumps" || len(vs.Values) != 1 {
				return true
			}
			cl, ok := vs.Values[0].(*ast.CompositeLit)
			if !ok {
				return true
			}
			found = true
			got := map[rune]int64{}
			for _, el := range cl.Elts {
				kv, ok := el.(*ast.KeyValueExpr)
				if !ok {
					continue
				}
				k, ok1 := constRune(bamP.TypesInfo, kv.Key)
				tv := bamP.TypesInfo.Types[kv.Value]
				if !ok1 || tv.Value == nil {
					continue
				}
				v, _ := constant.Int64Val(tv.Value)
				got[k] = v
			}
			r.Instance(rule, len(auxWidthSpec)+3)
			why := ""
			for k, w := range auxWidthSpec {
				if got[k] != int64(w) {
					why += fmt.Sprintf(" jumps[%q] = %d, specification width %d;", k, got[k], w)
				}
			}
			for _, k := range []rune{'Z', 'H', 'B'} {
				if got[k] >= 0 {
					why += fmt.Sprintf(" jumps[%q] = %d, must be negative (variable length);", k, got[k])
				}
			}
			for k, v := range got {
				if _, ok := auxWidthSpec[k]; !ok && k != 'Z' && k != 'H' && k != 'B' && v != 0 {
					why += fmt.Sprintf(" jumps[%q] = %d for a type the format does not define;", k, v)
				}
			}
			r.Check(why == "", rule, "bam.jumps#widths", c.Pos(vs.Pos()), "fixed widths A,c,C=1 s,S=2 i,I,f=4; Z,H,B variable", why)
			return false
		})
	}
	if !found {
		r.Fail(rule, "bam.jumps#widths", "-", "table jumps not found: undecided")
	}
	// NewAux literals and Aux.Value slices in sam
	for _, f := range samP.Syntax {
		for _, d := range f.Decls {
			fd, ok := d.(*ast.FuncDecl)
			if !ok || fd.Body == nil {
				continue
			}
			switch fd.Name.Name {
			case "NewAux":
				ast.Inspect(fd.Body, func(n ast.Node) bool {
					cl, ok := n.(*ast.CompositeLit)
					if !ok || len(cl.Elts) < 3 {
						return true
					}
					if id, ok := cl.Type.(*ast.Ident); !ok || id.Name != "Aux" {
						return true
					}
					k, ok := constRune(samP.TypesInfo, cl.Elts[2])
					if !ok {
						return true
					}
					r.Instance(rule, 1)
					key := fmt.Sprintf("sam.NewAux#literal-%c", k)
					want, isFixed := auxWidthSpec[k]
					switch {
					case isFixed:
						r.Check(len(cl.Elts)-3 == want, rule, key, c.Pos(cl.Pos()), fmt.Sprintf("%d payload bytes", want), fmt.Sprintf("NewAux builds a %q field with %d payload bytes, the format has %d", k, len(cl.Elts)-3, want))
					case k == 'B':
						r.Check(len(cl.Elts) == 8, rule, key, c.Pos(cl.Pos()), "tag, 'B', subtype, 4-byte count", fmt.Sprintf("NewAux builds a B array header of %d bytes, the format has 8", len(cl.Elts)))
					default:
						r.Pass(rule, key, c.Pos(cl.Pos()), "variable length")
					}
					return true
				})
			case "Value":
				// case 'x': … a[3:K] …
				ast.Inspect(fd.Body, func(n ast.Node) bool {
					cc, ok := n.(*ast.CaseClause)
					if !ok || len(cc.List) != 1 {
						return true
					}
					k, ok := constRune(samP.TypesInfo, cc.List[0])
					want, isFixed := auxWidthSpec[k]
					if !ok || !isFixed {
						return true
					}
					for _, s := range cc.Body {
						ast.Inspect(s, func(m ast.Node) bool {
							se, ok := m.(*ast.SliceExpr)
							if !ok || se.Low == nil || se.High == nil {
								return true
							}
							lo, ok1 := samP.TypesInfo.Types[se.Low]
							hi, ok2 := samP.TypesInfo.Types[se.High]
							if !ok1 || !ok2 || lo.Value == nil || hi.Value == nil {
								return true
							}
							l, _ := constant.Int64Val(lo.Value)
							h, _ := constant.Int64Val(hi.Value)
							r.Instance(rule, 1)
							r.Check(l == 3 && int(h-l) == want, rule, fmt.Sprintf("sam.Aux.Value#slice-%c", k), c.Pos(se.Pos()), fmt.Sprintf("a[3:%d]", 3+want), fmt.Sprintf("Aux.Value reads a[%d:%d] for type %q, the format has %d payload bytes at offset 3", l, h, k, want))
							return true
						})
					}
					return true
				})
			}
		}
	}
}

// ruleBitCigar (BIT-CIGAR): NewCigarOp packs (type, length) as length<<4|type
// and Type/Len unpack exactly that – bit domain, all values.
func ruleBitCigar(c *Ctx, r *Rep, tier string) {
	rule := "BIT-CIGAR"
	typ := c.Func("sam", "CigarOp.Type")
	ln := c.Func("sam", "CigarOp.Len")
	r.Instance(rule, 2)
	sym := symBV(32, false, 0)
	// Type: low 4 bits
	outs, ev, undec := execFn(typ, []absVal{sym}, nil, 0)
	why := ""
	if undec != "" || len(ev) > 0 || len(outs) != 1 {
		why = "cannot interpret Type: " + undec + fmt.Sprint(ev)
	} else if v, ok := outs[0].rets[0].(bv); !ok {
		why = "Type does not return an integer"
	} else {
		for i := range v.bits {
			want := bit(0)
			if i < 4 {
				want = bIn(i)
			}
			if v.bits[i] != want {
				why += fmt.Sprintf(" Type bit %d is %v, want %v;", i, v.bits[i], want)
			}
		}
	}
	r.Check(why == "", rule, "sam.CigarOp.Type#bits", c.Pos(typ.Pos()), "op & 0xf", "CIGAR op type is not the low four bits of the packed value: "+why)
	outs, ev, undec = execFn(ln, []absVal{sym}, nil, 0)
	why = ""
	if undec != "" || len(ev) > 0 || len(outs) != 1 {
		why = "cannot interpret Len: " + undec + fmt.Sprint(ev)
	} else if v, ok := outs[0].rets[0].(bv); !ok {
		why = "Len does not return an integer"
	} else {
		for i := range v.bits {
			want := bit(0)
			if i < 28 {
				want = bIn(i + 4)
			}
			if v.bits[i] != want {
				why += fmt.Sprintf(" Len bit %d is %v, want %v;", i, v.bits[i], want)
				if len(why) > 200 {
					break
				}
			}
		}
	}
	r.Check(why == "", rule, "sam.CigarOp.Len#bits", c.Pos(ln.Pos()), "op >> 4", "CIGAR op length is not the upper 28 bits of the packed value: "+why)
}

// ruleNibble (TAB-NIBBLE): the base code tables are mutually inverse and equal
// the specification's "=ACMGRSVTWYHKDBN"; contract and Expand use the high
// nibble for even positions.
func ruleNibble(c *Ctx, r *Rep, tier string) {
	rule := "TAB-NIBBLE"
	samP := c.ByPath["sam"]
	rev := map[int64]int64{}
	fwd := map[int64]int64{}
	for _, f := range samP.Syntax {
		ast.Inspect(f, func(n ast.Node) bool {
			vs, ok := n.(*ast.ValueSpec)
			if !ok || len(vs.Names) != 1 || len(vs.Values) != 1 {
				return true
			}
			cl, ok := vs.Values[0].(*ast.CompositeLit)
			if !ok {
				return true
			}
			switch vs.Names[0].Name {
			case "n16TableRev":
				for i, el := range cl.Elts {
					if tv := samP.TypesInfo.Types[el]; tv.Value != nil {
						k, _ := constant.Int64Val(tv.Value)
						rev[int64(i)] = k
					}
				}
			case "n16Table":
				idx := int64(0)
				for _, el := range cl.Elts {
					var ve ast.Expr = el
					if kv, ok := el.(*ast.KeyValueExpr); ok {
						if tv := samP.TypesInfo.Types[kv.Key]; tv.Value != nil {
							idx, _ = constant.Int64Val(tv.Value)
						}
						ve = kv.Value
					}
					if tv := samP.TypesInfo.Types[ve]; tv.Value != nil {
						k, _ := constant.Int64Val(tv.Value)
						fwd[idx] = k
					}
					idx++
				}
			}
			return true
		})
	}
	r.Instance(rule, 16)
	why := ""
	const spec = "=ACMGRSVTWYHKDBN"
	if len(rev) != 16 {
		why += fmt.Sprintf(" n16TableRev has %d constant entries;", len(rev))
	}
	for i := int64(0); i < 16; i++ {
		if rev[i] != int64(spec[i]) {
			why += fmt.Sprintf(" n16TableRev[%d] = %q, specification %q;", i, rune(rev[i]), spec[i])
		}
		if fwd[rev[i]] != i {
			why += fmt.Sprintf(" n16Table[%q] = %d, want %d (not the inverse);", rune(rev[i]), fwd[rev[i]], i)
		}
	}
	r.Check(why == "", rule, "sam.n16Table#inverse", "sam/record.go", "n16TableRev = \"=ACMGRSVTWYHKDBN\", n16Table[n16TableRev[i]] = i", why)

	// nibble order: even index ↔ high nibble in both directions
	r.Instance(rule, 2)
	for _, cfg := range []struct {
		fn   string
		even token.Token // operator applied on the even-index branch
	}{{"contract", token.SHL}, {"Seq.Expand", token.SHR}} {
		fn := c.Func("sam", cfg.fn)
		ok := false
		for _, b := range fn.Blocks {
			i := ifOf(b)
			if i == nil {
				continue
			}
			bo, isB := i.Cond.(*ssa.BinOp)
			if !isB || bo.Op != token.EQL {
				continue
			}
			and, isAnd := bo.X.(*ssa.BinOp)
			if !isAnd || and.Op != token.AND {
				continue
			}
			if k, isK := constInt(and.Y); !isK || k != 1 {
				continue
			}
			if k, isK := constInt(bo.Y); !isK || k != 0 {
				continue
			}
			// even branch = Succs[0]
			hasShift := false
			for _, ins := range b.Succs[0].Instrs {
				if sh, isSh := ins.(*ssa.BinOp); isSh && sh.Op == cfg.even {
					if k, isK := constInt(sh.Y); isK && k == 4 {
						hasShift = true
					}
				}
			}
			odd := false
			for _, ins := range b.Succs[1].Instrs {
				if sh, isSh := ins.(*ssa.BinOp); isSh && (sh.Op == token.SHL || sh.Op == token.SHR) {
					if k, isK := constInt(sh.Y); isK && k == 4 {
						odd = true
					}
				}
			}
			if hasShift && !odd {
				ok = true
			}
		}
		r.Check(ok, rule, "sam."+cfg.fn+"#nibble-order", c.Pos(fn.Pos()), "even positions use the high nibble", "the first base of a pair is not stored in / taken from the high nibble")
	}
}

// rulePathOmit (PATH-OMIT): with omit ≥ AllVariableLengthData no Seq/Qual/aux
// data is decoded, with AuxTags no aux; otherwise all three.
func rulePathOmit(c *Ctx, r *Rep, tier string) {
	rule := "PATH-OMIT"
	fn := c.Func("bam", "(*Reader).Read")
	fOmit := c.Field("bam", "Reader", "omit")
	allV, _ := constant.Int64Val(pkgConst(c, "bam", "AllVariableLengthData"))
	auxV, _ := constant.Int64Val(pkgConst(c, "bam", "AuxTags"))
	var rec ssa.Value
	allInstrs(fn, func(ins ssa.Instruction) {
		if al, ok := ins.(*ssa.Alloc); ok {
			if n, ok := al.Type().(*types.Pointer).Elem().(*types.Named); ok && n.Obj().Name() == "Record" {
				rec = al
			}
		}
	})
	r.Instance(rule, 1)
	if rec == nil {
		r.Fail(rule, "bam.(*Reader).Read#omit", c.Pos(fn.Pos()), "record not found: undecided")
		return
	}
	storesTo := func(name string) []ssa.Instruction {
		var out []ssa.Instruction
		allInstrs(fn, func(ins ssa.Instruction) {
			if st, ok := ins.(*ssa.Store); ok {
				if fa, isFa := st.Addr.(*ssa.FieldAddr); isFa && fa.X == rec && fieldVarOfAddr(fa).Name() == name {
					out = append(out, ins)
				}
			}
		})
		return out
	}
	// edges taken when omit >= K
	omitEdge := func(k int64) edgeFn {
		return func(from, to *ssa.BasicBlock) bool {
			i := ifOf(from)
			if i == nil {
				return true
			}
			bo, ok := i.Cond.(*ssa.BinOp)
			if !ok {
				return true
			}
			f, _ := loadedField(bo.X)
			kk, isK := constInt(bo.Y)
			if f != fOmit || !isK || bo.Op != token.GEQ || kk != k {
				return true
			}
			return from.Succs[1] != to || from.Succs[0] == to // block the "omit < K" edge: we are in mode omit >= K
		}
	}
	why := ""
	for _, name := range []string{"Seq", "Qual", "AuxFields"} {
		sts := storesTo(name)
		if len(sts) == 0 {
			why += " " + name + " is never decoded;"
			continue
		}
		for _, st := range sts {
			if _, reach := pathTo(entryLoc(fn), func(x ssa.Instruction) bool { return x == st }, nil, omitEdge(allV)); reach {
				why += fmt.Sprintf(" with Omit(AllVariableLengthData) %s is still decoded;", name)
			}
		}
	}
	for _, st := range storesTo("AuxFields") {
		if _, reach := pathTo(entryLoc(fn), func(x ssa.Instruction) bool { return x == st }, nil, omitEdge(auxV)); reach {
			why += " with Omit(AuxTags) the aux fields are still decoded;"
		}
	}
	// without omission all three are stored on every success path
	noOmit := func(from, to *ssa.BasicBlock) bool {
		i := ifOf(from)
		if i == nil {
			return true
		}
		bo, ok := i.Cond.(*ssa.BinOp)
		if !ok {
			return true
		}
		if f, _ := loadedField(bo.X); f != fOmit || bo.Op != token.GEQ {
			return true
		}
		return from.Succs[0] != to || from.Succs[1] == to // block the "omit >= K" edge
	}
	success := func(x ssa.Instruction) bool {
		ret, ok := x.(*ssa.Return)
		return ok && isNilConst(retValue(ret, 1))
	}
	for _, name := range []string{"Seq", "Qual", "AuxFields"} {
		sts := storesTo(name)
		isSt := func(x ssa.Instruction) bool {
			for _, s := range sts {
				if s == x {
					return true
				}
			}
			return false
		}
		if bad, ok := mustPass(entryLoc(fn), success, isSt, noOmit); !ok {
			why += fmt.Sprintf(" without omission a record can be returned at %s with %s not decoded;", c.Pos(bad.Pos()), name)
		}
	}
	r.Check(why == "", rule, "bam.(*Reader).Read#omit", c.Pos(fn.Pos()), "AllVariableLengthData ⇒ no Seq/Qual/aux; AuxTags ⇒ no aux; none ⇒ all three", why)
}

// ruleAuxAll (PATH-AUXALL): buildAux appends every aux field of the record.
func ruleAuxAll(c *Ctx, r *Rep, tier string) {
	rule := "PATH-AUXALL"
	fn := c.Func("bam", "buildAux")
	r.Instance(rule, 1)
	// range loop over the parameter: every path round the loop appends the element's bytes
	var next *ssa.BinOp // rangeindex compare
	for _, b := range fn.Blocks {
		if i := ifOf(b); i != nil {
			if bo, ok := i.Cond.(*ssa.BinOp); ok && bo.Op == token.LSS {
				if arg, isL := isLenCall(bo.Y); isL && arg == ssa.Value(fn.Params[0]) {
					next = bo
				}
			}
		}
	}
	if next == nil {
		r.Fail(rule, "bam.buildAux#every-field", c.Pos(fn.Pos()), "loop over the aux fields not found: undecided")
		return
	}
	head := next.Block()
	body := head.Succs[0]
	isAppendElem := func(ins ssa.Instruction) bool {
		call, ok := ins.(*ssa.Call)
		if !ok {
			return false
		}
		if _, isApp := isBuiltinCall(call, "append"); !isApp {
			return false
		}
		// second argument derives from the element aa[i]
		elem := false
		var walk func(v ssa.Value, d int)
		walk = func(v ssa.Value, d int) {
			if d > 6 {
				return
			}
			switch x := v.(type) {
			case *ssa.UnOp:
				if ia, ok := x.X.(*ssa.IndexAddr); ok && ia.X == ssa.Value(fn.Params[0]) {
					elem = true
				}
				walk(x.X, d+1)
			case *ssa.ChangeType:
				walk(x.X, d+1)
			case *ssa.Convert:
				walk(x.X, d+1)
			case *ssa.Slice:
				walk(x.X, d+1)
			}
		}
		walk(call.Call.Args[1], 0)
		return elem
	}
	backToHead := func(ins ssa.Instruction) bool { return ins == ssa.Instruction(next) }
	if _, ok := mustPass(Loc{body, -1}, backToHead, isAppendElem, nil); !ok {
		r.Fail(rule, "bam.buildAux#every-field", c.Pos(fn.Pos()), "a path round buildAux's loop does not append the aux field's bytes: some aux fields of a record (e.g. an empty Z value, three bytes long) are silently not written")
	} else {
		r.Pass(rule, "bam.buildAux#every-field", c.Pos(fn.Pos()), "every iteration appends the element")
	}
}

// ruleBufShared (PATH-SHARED): a record buffer whose data aliases memory owned
// by the Reader (a field of Reader) is marked shared, so that bytes() copies.
func ruleBufShared(c *Ctx, r *Rep, tier string) {
	rule := "PATH-SHARED"
	fn := c.Func("bam", "newBuffer")
	fData := c.Field("bam", "buffer", "data")
	fShared := c.Field("bam", "buffer", "shared")
	br := ssa.Value(fn.Params[0])
	r.Instance(rule, 1)
	aliasesReader := func(v ssa.Value) bool {
		for d := 0; d < 6; d++ {
			switch x := v.(type) {
			case *ssa.Slice:
				v = x.X
			case *ssa.UnOp:
				v = x.X
			case *ssa.FieldAddr:
				return origin(x.X) == br
			default:
				return false
			}
		}
		return false
	}
	isDataStore := func(ins ssa.Instruction) (bool, bool) {
		st, ok := ins.(*ssa.Store)
		if !ok {
			return false, false
		}
		fa, ok := st.Addr.(*ssa.FieldAddr)
		if !ok || fieldVarOfAddr(fa) != fData {
			return false, false
		}
		return true, aliasesReader(st.Val)
	}
	isSharedTrue := func(ins ssa.Instruction) bool {
		st, ok := ins.(*ssa.Store)
		if !ok {
			return false
		}
		fa, ok := st.Addr.(*ssa.FieldAddr)
		if !ok || fieldVarOfAddr(fa) != fShared {
			return false
		}
		k, isK := st.Val.(*ssa.Const)
		return isK && k.Value != nil && k.Value.String() == "true"
	}
	success := func(x ssa.Instruction) bool {
		ret, ok := x.(*ssa.Return)
		return ok && !isNilConst(retValue(ret, 0))
	}
	why := ""
	n := 0
	allInstrs(fn, func(ins ssa.Instruction) {
		isD, alias := isDataStore(ins)
		if !isD || !alias {
			return
		}
		n++
		barrier := func(x ssa.Instruction) bool {
			if isSharedTrue(x) {
				return true
			}
			d, _ := isDataStore(x)
			return d && x != ins
		}
		if bad, ok := mustPass(locOf(ins), success, barrier, nil); !ok {
			why += fmt.Sprintf(" the buffer returned at %s has data aliasing memory owned by the Reader (set at %s) but is not marked shared: Seq/Qual/aux slices of a returned record are overwritten by a later Read;", c.Pos(bad.Pos()), c.Pos(ins.Pos()))
		}
	})
	if n == 0 {
		why += " no buffer backed by Reader memory found (floor);"
	}
	r.Check(why == "", rule, "bam.newBuffer#shared", c.Pos(fn.Pos()), "data aliasing Reader-owned memory ⇒ shared = true (bytes() copies)", why)
}
