// Engine E6: a small path-enumerating abstract interpreter over go/ssa with a
// per-bit provenance domain. Every bit of an integer value is 0, 1, "bit k of
// the symbolic input" (possibly negated) or unknown (⊤). Branches on values that
// are not concrete are only followed when the condition is a comparison of the
// symbolic input itself with a constant (interval refinement); any other
// symbolic branch makes the run *undecided*, which callers treat as failure.
package main

import (
	"fmt"
	"go/constant"
	"go/token"
	"go/types"
	"math/bits"
	"strings"

	"golang.org/x/tools/go/ssa"
)

type bit int32

const bTop bit = -1

func bIn(k int) bit  { return bit(2 + 2*k) }
func bNin(k int) bit { return bit(3 + 2*k) }

func (b bit) isIn() bool { return b >= 2 }
func (b bit) inIdx() int { return int(b-2) / 2 }
func (b bit) neg() bool  { return b >= 2 && (b-2)%2 == 1 }

func (b bit) String() string {
	switch {
	case b == 0:
		return "0"
	case b == 1:
		return "1"
	case b == bTop:
		return "?"
	case b.neg():
		return fmt.Sprintf("~[%d]", b.inIdx())
	}
	return fmt.Sprintf("[%d]", b.inIdx())
}

type absVal interface{}

type bv struct {
	bits   []bit // little endian
	signed bool
}

func (v bv) String() string {
	var sb strings.Builder
	for i := len(v.bits) - 1; i >= 0; i-- {
		sb.WriteString(v.bits[i].String())
	}
	return sb.String()
}

type structV struct{ fields []absVal }
type arrayV struct {
	elems map[int]absVal
	n     int // -1 unknown
	elemT types.Type
}
type ptrV struct {
	cell int
	path []int
}
type sliceV struct {
	ptr     ptrV // to an arrayV
	off     int
	ln      int
	lnKnown bool
}
type tupleV []absVal

func konst(x uint64, w int, signed bool) bv {
	v := bv{bits: make([]bit, w), signed: signed}
	for i := 0; i < w && i < 64; i++ {
		v.bits[i] = bit((x >> uint(i)) & 1)
	}
	return v
}

func topBV(w int, signed bool) bv {
	v := bv{bits: make([]bit, w), signed: signed}
	for i := range v.bits {
		v.bits[i] = bTop
	}
	return v
}

func symBV(w int, signed bool, base int) bv {
	v := bv{bits: make([]bit, w), signed: signed}
	for i := range v.bits {
		v.bits[i] = bIn(base + i)
	}
	return v
}

func (v bv) concrete() (uint64, bool) {
	var x uint64
	for i, b := range v.bits {
		if b != 0 && b != 1 {
			return 0, false
		}
		x |= uint64(b) << uint(i)
	}
	return x, true
}

func (v bv) sint() (int64, bool) {
	u, ok := v.concrete()
	if !ok {
		return 0, false
	}
	w := uint(len(v.bits))
	if v.signed && w < 64 {
		return int64(u<<(64-w)) >> (64 - w), true
	}
	return int64(u), true
}

func basicWidth(t types.Type) (int, bool, bool) {
	b, ok := t.Underlying().(*types.Basic)
	if !ok {
		return 0, false, false
	}
	switch b.Kind() {
	case types.Bool, types.UntypedBool:
		return 1, false, true
	case types.Int8:
		return 8, true, true
	case types.Uint8:
		return 8, false, true
	case types.Int16:
		return 16, true, true
	case types.Uint16:
		return 16, false, true
	case types.Int32, types.UntypedRune:
		return 32, true, true
	case types.Uint32:
		return 32, false, true
	case types.Int, types.Int64, types.UntypedInt:
		return 64, true, true
	case types.Uint, types.Uint64, types.Uintptr:
		return 64, false, true
	}
	return 0, false, false
}

func convertBV(v bv, w int, signed bool) bv {
	r := bv{bits: make([]bit, w), signed: signed}
	for i := 0; i < w; i++ {
		switch {
		case i < len(v.bits):
			r.bits[i] = v.bits[i]
		case v.signed:
			r.bits[i] = v.bits[len(v.bits)-1]
		default:
			r.bits[i] = 0
		}
	}
	return r
}

func bnot(a bit) bit {
	switch {
	case a == 0:
		return 1
	case a == 1:
		return 0
	case a == bTop:
		return bTop
	case a.neg():
		return a - 1
	}
	return a + 1
}
func band(a, b bit) bit {
	switch {
	case a == 0 || b == 0:
		return 0
	case a == 1:
		return b
	case b == 1:
		return a
	case a == b && a != bTop:
		return a
	case a != bTop && b == bnot(a):
		return 0
	}
	return bTop
}
func bor(a, b bit) bit {
	switch {
	case a == 1 || b == 1:
		return 1
	case a == 0:
		return b
	case b == 0:
		return a
	case a == b && a != bTop:
		return a
	case a != bTop && b == bnot(a):
		return 1
	}
	return bTop
}
func bxor(a, b bit) bit {
	switch {
	case a == 0:
		return b
	case b == 0:
		return a
	case a == 1:
		return bnot(b)
	case b == 1:
		return bnot(a)
	case a == bTop || b == bTop:
		return bTop
	case a == b:
		return 0
	case b == bnot(a):
		return 1
	}
	return bTop
}

// ---- interpreter ---------------------------------------------------------------

type undecided struct{ why string }

type istate struct {
	heap []absVal
	// interval of the symbolic input (bits in(0..inW-1), unsigned view)
	inW    int
	lo, hi uint64
	steps  *int
	events *[]string // OOB reads etc. (shared across forks: any event is a failure)
	reads  *[]ptrV   // every scalar load through a pointer (shared across forks)
	cond   string
	trace  []string // sequence of (cmp const) decisions, for class identification
}

func (s *istate) fork() *istate {
	n := *s
	n.heap = append([]absVal(nil), s.heap...)
	n.trace = append([]string(nil), s.trace...)
	return &n
}

// known returns the value of input bit k if the interval fixes it.
func (s *istate) known(k int) (bit, bool) {
	if s.inW == 0 || k >= s.inW {
		return 0, false
	}
	d := s.lo ^ s.hi
	if d>>uint(k) == 0 { // all bits >= k agree between lo and hi
		return bit((s.lo >> uint(k)) & 1), true
	}
	return 0, false
}

func (s *istate) refine(v bv) bv {
	r := bv{bits: append([]bit(nil), v.bits...), signed: v.signed}
	for i, b := range r.bits {
		if b.isIn() {
			if k, ok := s.known(b.inIdx()); ok {
				if b.neg() {
					k = 1 - k
				}
				r.bits[i] = k
			}
		}
	}
	return r
}

// isInput reports whether v is exactly the symbolic input, zero-extended.
func (s *istate) isInput(v bv) bool {
	if s.inW == 0 || len(v.bits) < s.inW {
		return false
	}
	for i, b := range v.bits {
		if i < s.inW {
			if b != bIn(i) {
				return false
			}
		} else if b != 0 {
			return false
		}
	}
	return true
}

type frame struct {
	fn  *ssa.Function
	env map[ssa.Value]absVal
}

func (f *frame) fork() *frame {
	n := &frame{fn: f.fn, env: make(map[ssa.Value]absVal, len(f.env))}
	for k, v := range f.env {
		n.env[k] = v
	}
	return n
}

type outcome struct {
	rets []absVal
	st   *istate
}

type interp struct {
	maxSteps int
	depth    int
	// hook, if set, is called before every instruction is executed
	hook func(f *frame, s *istate, ins ssa.Instruction)
}

// globalHook is installed into interpreters created by execFnIv (set and
// cleared by the caller around a run).
var globalHook func(f *frame, s *istate, ins ssa.Instruction)

func (ip *interp) get(f *frame, s *istate, v ssa.Value) absVal {
	switch c := v.(type) {
	case *ssa.Const:
		w, sg, ok := basicWidth(c.Type())
		if !ok || c.Value == nil {
			return nil
		}
		switch c.Value.Kind() {
		case constant.Bool:
			if constant.BoolVal(c.Value) {
				return konst(1, 1, false)
			}
			return konst(0, 1, false)
		case constant.Int:
			if constant.Sign(c.Value) < 0 {
				i, _ := constant.Int64Val(c.Value)
				return konst(uint64(i), w, sg)
			}
			u, _ := constant.Uint64Val(c.Value)
			return konst(u, w, sg)
		}
		return nil
	}
	return f.env[v]
}

func (s *istate) load(p ptrV) absVal {
	v := s.heap[p.cell]
	for _, i := range p.path {
		switch x := v.(type) {
		case structV:
			v = x.fields[i]
		case arrayV:
			e, ok := x.elems[i]
			if !ok {
				if w, sg, ok := basicWidth(x.elemT); ok {
					e = topBV(w, sg)
				}
			}
			v = e
		default:
			return nil
		}
	}
	return v
}

func update(v absVal, path []int, nv absVal) absVal {
	if len(path) == 0 {
		return nv
	}
	switch x := v.(type) {
	case structV:
		f := append([]absVal(nil), x.fields...)
		f[path[0]] = update(f[path[0]], path[1:], nv)
		return structV{f}
	case arrayV:
		m := make(map[int]absVal, len(x.elems)+1)
		for k, e := range x.elems {
			m[k] = e
		}
		m[path[0]] = update(m[path[0]], path[1:], nv)
		return arrayV{elems: m, n: x.n, elemT: x.elemT}
	}
	return v
}

func (s *istate) store(p ptrV, nv absVal) {
	s.heap[p.cell] = update(s.heap[p.cell], p.path, nv)
}

func zeroVal(t types.Type) absVal {
	switch u := t.Underlying().(type) {
	case *types.Basic:
		if w, sg, ok := basicWidth(u); ok {
			return konst(0, w, sg)
		}
	case *types.Struct:
		f := make([]absVal, u.NumFields())
		for i := range f {
			f[i] = zeroVal(u.Field(i).Type())
		}
		return structV{f}
	case *types.Array:
		return arrayV{elems: map[int]absVal{}, n: int(u.Len()), elemT: u.Elem()}
	}
	return nil
}

func (s *istate) event(format string, a ...any) {
	*s.events = append(*s.events, fmt.Sprintf(format, a...))
}

// run executes fn from (b, idx) and returns the outcomes of all paths.
func (ip *interp) run(f *frame, s *istate, b *ssa.BasicBlock, idx int, pred *ssa.BasicBlock) []outcome {
	for {
		if idx == 0 && pred != nil {
			// evaluate phis simultaneously
			vals := map[*ssa.Phi]absVal{}
			for _, ins := range b.Instrs {
				phi, ok := ins.(*ssa.Phi)
				if !ok {
					break
				}
				for i, p := range b.Preds {
					if p == pred {
						vals[phi] = ip.get(f, s, phi.Edges[i])
					}
				}
			}
			for k, v := range vals {
				f.env[k] = v
			}
		}
		for i := idx; i < len(b.Instrs); i++ {
			*s.steps++
			if ip.hook != nil {
				ip.hook(f, s, b.Instrs[i])
			}
			if *s.steps > ip.maxSteps {
				panic(undecided{"step budget exhausted (loop without concrete bound?)"})
			}
			switch ins := b.Instrs[i].(type) {
			case *ssa.Phi, *ssa.DebugRef:
			case *ssa.Return:
				o := outcome{st: s}
				for _, x := range ins.Results {
					v := ip.get(f, s, x)
					if bvv, ok := v.(bv); ok {
						v = s.refine(bvv)
					}
					o.rets = append(o.rets, v)
				}
				return []outcome{o}
			case *ssa.Panic:
				s.event("explicit panic reachable in %s", f.fn.Name())
				return nil
			case *ssa.Jump:
				pred, b, idx = b, b.Succs[0], 0
				goto next
			case *ssa.If:
				cv, _ := ip.get(f, s, ins.Cond).(bv)
				if cv.bits != nil {
					cv = s.refine(cv)
					if c, ok := cv.concrete(); ok {
						k := 1
						if c == 1 {
							k = 0
						}
						pred, b, idx = b, b.Succs[k], 0
						goto next
					}
				}
				return ip.branch(f, s, b, ins)
			case *ssa.Call:
				outs := ip.call(f, s, ins)
				if outs == nil {
					continue // value unknown, state unchanged
				}
				if len(outs) == 1 {
					f.env[ins] = packRets(outs[0].rets)
					s = outs[0].st
					continue
				}
				var all []outcome
				for _, o := range outs {
					nf := f.fork()
					nf.env[ins] = packRets(o.rets)
					all = append(all, ip.run(nf, o.st, b, i+1, nil)...)
				}
				return all
			default:
				ip.step(f, s, b.Instrs[i])
			}
		}
		return nil
	next:
	}
}

func packRets(r []absVal) absVal {
	switch len(r) {
	case 0:
		return nil
	case 1:
		return r[0]
	}
	return tupleV(r)
}

// branch handles an If whose condition is not concrete.
func (ip *interp) branch(f *frame, s *istate, b *ssa.BasicBlock, ins *ssa.If) []outcome {
	bo, ok := ins.Cond.(*ssa.BinOp)
	if !ok {
		panic(undecided{"branch on non-concrete value " + ins.Cond.String() + " in " + f.fn.Name()})
	}
	xv, _ := ip.get(f, s, bo.X).(bv)
	yv, _ := ip.get(f, s, bo.Y).(bv)
	if xv.bits == nil || yv.bits == nil {
		panic(undecided{"branch on unknown value " + ins.Cond.String() + " in " + f.fn.Name()})
	}
	op := bo.Op
	// normalise to input op const
	if !s.isInput(xv) {
		if s.isInput(yv) {
			xv, yv = yv, xv
			switch op {
			case token.LSS:
				op = token.GTR
			case token.GTR:
				op = token.LSS
			case token.LEQ:
				op = token.GEQ
			case token.GEQ:
				op = token.LEQ
			}
		} else {
			panic(undecided{fmt.Sprintf("branch on symbolic condition %s (x=%v y=%v) in %s", ins.Cond, xv, yv, f.fn.Name())})
		}
	}
	if xv.signed {
		panic(undecided{"signed comparison of the symbolic input in " + f.fn.Name()})
	}
	c, ok := s.refine(yv).concrete()
	if !ok {
		panic(undecided{"comparison of the input with a non-constant in " + f.fn.Name()})
	}
	max := ^uint64(0)
	if s.inW < 64 {
		max = (uint64(1) << uint(s.inW)) - 1
	}
	// true-branch interval, false-branch interval
	type iv struct {
		lo, hi uint64
		ok     bool
	}
	clip := func(lo, hi uint64, valid bool) iv {
		if !valid {
			return iv{}
		}
		if lo < s.lo {
			lo = s.lo
		}
		if hi > s.hi {
			hi = s.hi
		}
		return iv{lo, hi, lo <= hi}
	}
	var t, e iv
	switch op {
	case token.LSS:
		t = clip(0, c-1, c > 0)
		e = clip(c, max, true)
	case token.LEQ:
		t = clip(0, c, true)
		e = clip(c+1, max, c < max)
	case token.GTR:
		t = clip(c+1, max, c < max)
		e = clip(0, c, true)
	case token.GEQ:
		t = clip(c, max, true)
		e = clip(0, c-1, c > 0)
	case token.EQL:
		t = clip(c, c, true)
		// x != c is not an interval unless at an end
		if c == s.lo {
			e = clip(c+1, max, c < max)
		} else if c == s.hi {
			e = clip(0, c-1, c > 0)
		} else {
			e = iv{s.lo, s.hi, true}
		}
	case token.NEQ:
		e = clip(c, c, true)
		if c == s.lo {
			t = clip(c+1, max, c < max)
		} else if c == s.hi {
			t = clip(0, c-1, c > 0)
		} else {
			t = iv{s.lo, s.hi, true}
		}
	default:
		panic(undecided{"unsupported comparison " + op.String()})
	}
	var all []outcome
	for k, x := range []iv{t, e} {
		if !x.ok {
			continue
		}
		ns := s.fork()
		ns.lo, ns.hi = x.lo, x.hi
		ns.trace = append(ns.trace, fmt.Sprintf("[%#x,%#x]", x.lo, x.hi))
		all = append(all, ip.run(f.fork(), ns, b.Succs[k], 0, b)...)
	}
	return all
}

func (ip *interp) call(f *frame, s *istate, ins *ssa.Call) []outcome {
	cc := &ins.Call
	if bi, ok := cc.Value.(*ssa.Builtin); ok {
		switch bi.Name() {
		case "len":
			switch a := ip.get(f, s, cc.Args[0]).(type) {
			case sliceV:
				if a.lnKnown {
					f.env[ins] = konst(uint64(a.ln), 64, true)
				}
			case arrayV:
				f.env[ins] = konst(uint64(a.n), 64, true)
			}
		}
		return nil
	}
	callee := staticCallee(cc)
	if callee == nil {
		return nil
	}
	if callee.Pkg != nil && callee.Pkg.Pkg.Path() == "math/bits" {
		switch callee.Name() {
		case "LeadingZeros8":
			v, ok := ip.get(f, s, cc.Args[0]).(bv)
			if !ok {
				return nil
			}
			v = s.refine(v)
			n := 0
			for i := 7; i >= 0; i-- {
				if v.bits[i] == 0 {
					n++
					continue
				}
				if v.bits[i] == 1 {
					break
				}
				return nil // undetermined
			}
			f.env[ins] = konst(uint64(n), 64, true)
		}
		return nil
	}
	if callee.Blocks == nil || ip.depth > 6 {
		return nil
	}
	nf := &frame{fn: callee, env: map[ssa.Value]absVal{}}
	for i, p := range callee.Params {
		nf.env[p] = ip.get(f, s, cc.Args[i])
	}
	ip.depth++
	outs := ip.run(nf, s, callee.Blocks[0], 0, nil)
	ip.depth--
	return outs
}

func (ip *interp) step(f *frame, s *istate, ins ssa.Instruction) {
	switch ins := ins.(type) {
	case *ssa.Alloc:
		s.heap = append(s.heap, zeroVal(ins.Type().(*types.Pointer).Elem()))
		f.env[ins] = ptrV{cell: len(s.heap) - 1}
	case *ssa.FieldAddr:
		if p, ok := ip.get(f, s, ins.X).(ptrV); ok {
			f.env[ins] = ptrV{cell: p.cell, path: append(append([]int(nil), p.path...), ins.Field)}
		}
	case *ssa.Field:
		if sv, ok := ip.get(f, s, ins.X).(structV); ok {
			f.env[ins] = sv.fields[ins.Field]
		}
	case *ssa.IndexAddr:
		idx, ok := ip.get(f, s, ins.Index).(bv)
		if !ok {
			return
		}
		k, ok := s.refine(idx).sint()
		if !ok {
			return
		}
		switch x := ip.get(f, s, ins.X).(type) {
		case sliceV:
			if k < 0 || (x.lnKnown && int(k) >= x.ln) {
				s.event("index %d out of range (len %d) in %s", k, x.ln, f.fn.Name())
				return
			}
			f.env[ins] = ptrV{cell: x.ptr.cell, path: append(append([]int(nil), x.ptr.path...), x.off+int(k))}
		case ptrV: // pointer to array
			if a, ok := s.load(x).(arrayV); ok {
				if k < 0 || (a.n >= 0 && int(k) >= a.n) {
					s.event("index %d out of range (array len %d) in %s", k, a.n, f.fn.Name())
					return
				}
			}
			f.env[ins] = ptrV{cell: x.cell, path: append(append([]int(nil), x.path...), int(k))}
		}
	case *ssa.Index:
		idx, ok := ip.get(f, s, ins.Index).(bv)
		if !ok {
			return
		}
		k, ok := s.refine(idx).sint()
		if !ok {
			return
		}
		if a, ok := ip.get(f, s, ins.X).(arrayV); ok {
			if k < 0 || (a.n >= 0 && int(k) >= a.n) {
				s.event("index %d out of range (array len %d) in %s", k, a.n, f.fn.Name())
				return
			}
			if e, ok := a.elems[int(k)]; ok {
				f.env[ins] = e
			} else if w, sg, ok := basicWidth(a.elemT); ok {
				f.env[ins] = topBV(w, sg)
			}
		}
	case *ssa.Slice:
		var base ptrV
		off, n, nKnown := 0, 0, false
		switch x := ip.get(f, s, ins.X).(type) {
		case sliceV:
			base, off, n, nKnown = x.ptr, x.off, x.ln, x.lnKnown
		case ptrV:
			a, ok := s.load(x).(arrayV)
			if !ok {
				return
			}
			base, n, nKnown = x, a.n, a.n >= 0
		default:
			return
		}
		lo, hi := 0, n
		hiKnown := nKnown
		if ins.Low != nil {
			v, ok := ip.get(f, s, ins.Low).(bv)
			if !ok {
				return
			}
			k, ok := s.refine(v).sint()
			if !ok {
				return
			}
			lo = int(k)
		}
		if ins.High != nil {
			v, ok := ip.get(f, s, ins.High).(bv)
			if !ok {
				return
			}
			k, ok := s.refine(v).sint()
			if !ok {
				return
			}
			hi, hiKnown = int(k), true
		}
		if lo < 0 || (hiKnown && (lo > hi)) || (nKnown && hiKnown && hi > n) {
			s.event("slice bounds [%d:%d] out of range (len %d) in %s", lo, hi, n, f.fn.Name())
			return
		}
		f.env[ins] = sliceV{ptr: base, off: off + lo, ln: hi - lo, lnKnown: hiKnown}
	case *ssa.Store:
		if p, ok := ip.get(f, s, ins.Addr).(ptrV); ok {
			v := ip.get(f, s, ins.Val)
			if b, ok := v.(bv); ok {
				v = s.refine(b)
			}
			s.store(p, v)
		}
	case *ssa.UnOp:
		switch ins.Op {
		case token.MUL:
			if p, ok := ip.get(f, s, ins.X).(ptrV); ok {
				if s.reads != nil && len(p.path) > 0 {
					*s.reads = append(*s.reads, p)
				}
				if v := s.load(p); v != nil {
					f.env[ins] = v
				}
			}
		case token.XOR:
			if v, ok := ip.get(f, s, ins.X).(bv); ok {
				r := bv{bits: make([]bit, len(v.bits)), signed: v.signed}
				for i := range r.bits {
					r.bits[i] = bnot(v.bits[i])
				}
				f.env[ins] = r
			}
		case token.NOT:
			if v, ok := ip.get(f, s, ins.X).(bv); ok && len(v.bits) == 1 {
				f.env[ins] = bv{bits: []bit{bnot(v.bits[0])}}
			}
		case token.SUB:
			if v, ok := ip.get(f, s, ins.X).(bv); ok {
				if c, ok := s.refine(v).concrete(); ok {
					f.env[ins] = konst(-c, len(v.bits), v.signed)
				}
			}
		}
	case *ssa.Convert:
		if v, ok := ip.get(f, s, ins.X).(bv); ok {
			if w, sg, ok := basicWidth(ins.Type()); ok {
				f.env[ins] = convertBV(v, w, sg)
			}
		}
	case *ssa.ChangeType:
		if v := ip.get(f, s, ins.X); v != nil {
			f.env[ins] = v
		}
	case *ssa.Extract:
		if t, ok := ip.get(f, s, ins.Tuple).(tupleV); ok && ins.Index < len(t) {
			f.env[ins] = t[ins.Index]
		}
	case *ssa.BinOp:
		x, okx := ip.get(f, s, ins.X).(bv)
		y, oky := ip.get(f, s, ins.Y).(bv)
		if !okx || !oky {
			return
		}
		if r, ok := binop(s, ins.Op, x, y); ok {
			f.env[ins] = r
		}
	}
}

func binop(s *istate, op token.Token, x, y bv) (bv, bool) {
	w := len(x.bits)
	r := bv{bits: make([]bit, w), signed: x.signed}
	switch op {
	case token.AND, token.OR, token.XOR, token.AND_NOT:
		if len(y.bits) != w {
			return bv{}, false
		}
		xr, yr := s.refine(x), s.refine(y)
		for i := range r.bits {
			switch op {
			case token.AND:
				r.bits[i] = band(xr.bits[i], yr.bits[i])
			case token.OR:
				r.bits[i] = bor(xr.bits[i], yr.bits[i])
			case token.XOR:
				r.bits[i] = bxor(xr.bits[i], yr.bits[i])
			case token.AND_NOT:
				r.bits[i] = band(xr.bits[i], bnot(yr.bits[i]))
			}
		}
		return r, true
	case token.SHL, token.SHR:
		k, ok := s.refine(y).concrete()
		if !ok {
			return bv{}, false
		}
		if y.signed {
			if sk, _ := s.refine(y).sint(); sk < 0 {
				s.event("negative shift count")
				return bv{}, false
			}
		}
		for i := range r.bits {
			var src int64
			if op == token.SHL {
				src = int64(i) - int64(k)
			} else {
				src = int64(i) + int64(k)
			}
			switch {
			case k >= uint64(w) && op == token.SHL:
				r.bits[i] = 0
			case src < 0:
				r.bits[i] = 0
			case src >= int64(w):
				if x.signed {
					r.bits[i] = x.bits[w-1]
				} else {
					r.bits[i] = 0
				}
			default:
				r.bits[i] = x.bits[src]
			}
		}
		return r, true
	case token.ADD, token.SUB, token.MUL, token.QUO, token.REM:
		a, oka := s.refine(x).concrete()
		c, okc := s.refine(y).concrete()
		if !oka || !okc {
			// x + const where the low bits do not interact is not modelled: unknown
			return topBV(w, x.signed), true
		}
		var z uint64
		switch op {
		case token.ADD:
			z = a + c
		case token.SUB:
			z = a - c
		case token.MUL:
			z = a * c
		case token.QUO, token.REM:
			if c == 0 {
				s.event("division by zero")
				return bv{}, false
			}
			sa, _ := s.refine(x).sint()
			sc, _ := s.refine(y).sint()
			if x.signed {
				if op == token.QUO {
					z = uint64(sa / sc)
				} else {
					z = uint64(sa % sc)
				}
			} else if op == token.QUO {
				z = a / c
			} else {
				z = a % c
			}
		}
		return konst(z, w, x.signed), true
	case token.LSS, token.EQL, token.NEQ, token.GEQ, token.GTR, token.LEQ:
		xr, yr := s.refine(x), s.refine(y)
		a, oka := xr.concrete()
		c, okc := yr.concrete()
		if !oka || !okc {
			if op == token.EQL || op == token.NEQ {
				// decided if some bit differs concretely
				for i := range xr.bits {
					if i < len(yr.bits) && ((xr.bits[i] == 0 && yr.bits[i] == 1) || (xr.bits[i] == 1 && yr.bits[i] == 0)) {
						if op == token.EQL {
							return konst(0, 1, false), true
						}
						return konst(1, 1, false), true
					}
				}
			}
			return bv{}, false
		}
		var t bool
		if x.signed {
			sa, _ := xr.sint()
			sc, _ := yr.sint()
			switch op {
			case token.LSS:
				t = sa < sc
			case token.LEQ:
				t = sa <= sc
			case token.GTR:
				t = sa > sc
			case token.GEQ:
				t = sa >= sc
			case token.EQL:
				t = sa == sc
			case token.NEQ:
				t = sa != sc
			}
		} else {
			switch op {
			case token.LSS:
				t = a < c
			case token.LEQ:
				t = a <= c
			case token.GTR:
				t = a > c
			case token.GEQ:
				t = a >= c
			case token.EQL:
				t = a == c
			case token.NEQ:
				t = a != c
			}
		}
		if t {
			return konst(1, 1, false), true
		}
		return konst(0, 1, false), true
	}
	return bv{}, false
}

// execFn interprets fn on the given arguments. It returns the outcomes, the
// events (any event is a failure of the obligation) and, if the run could not
// be decided, the reason.
func execFn(fn *ssa.Function, args []absVal, heap []absVal, inW int) (outs []outcome, events []string, undec string) {
	hi := ^uint64(0)
	if inW > 0 && inW < 64 {
		hi = (uint64(1) << uint(inW)) - 1
	}
	if inW == 0 {
		hi = 0
	}
	outs, events, _, undec = execFnIv(fn, args, heap, inW, 0, hi)
	return
}

// execFnIv is execFn with an initial interval for the symbolic input; it also
// returns every load made through a pointer.
func execFnIv(fn *ssa.Function, args []absVal, heap []absVal, inW int, lo, hi uint64) (outs []outcome, events []string, reads []ptrV, undec string) {
	steps := 0
	st := &istate{heap: heap, inW: inW, lo: lo, hi: hi, steps: &steps, events: &events, reads: &reads}
	ip := &interp{maxSteps: 200000, hook: globalHook}
	f := &frame{fn: fn, env: map[ssa.Value]absVal{}}
	for i, p := range fn.Params {
		if i < len(args) {
			f.env[p] = args[i]
		}
	}
	defer func() {
		if e := recover(); e != nil {
			if u, ok := e.(undecided); ok {
				undec = u.why
				return
			}
			panic(e)
		}
	}()
	outs = ip.run(f, st, fn.Blocks[0], 0, nil)
	return
}

var _ = bits.Len64
