// LOCK-6: values obtained from guarded fields (table entries, list nodes, the
// blocks they hold) are dereferenced only while the guarding mutex is held.
// Returning such a value is a hand-over, not a dereference.
package main

import (
	"fmt"
	"go/token"
	"go/types"

	"golang.org/x/tools/go/ssa"
)

func (la *lockAnalysis) ruleDerived(r *Rep, rule string, cfg lockCfg) {
	c := la.c
	guardOf := map[*types.Var]*types.Var{}
	for m, fs := range cfg.guarded {
		for _, f := range fs {
			guardOf[f] = m
		}
	}
	for _, f := range la.fns {
		// derived[v] = (mutex field, base) the value was obtained under
		type src struct {
			m    *types.Var
			base ssa.Value
		}
		derived := map[ssa.Value]src{}
		changed := true
		mark := func(v ssa.Value, s src) {
			if _, ok := derived[v]; !ok {
				derived[v] = s
				changed = true
			}
		}
		for changed {
			changed = false
			allInstrs(f, func(ins ssa.Instruction) {
				v, ok := ins.(ssa.Value)
				if !ok {
					return
				}
				switch x := ins.(type) {
				case *ssa.FieldAddr:
					if fv := fieldVarOfAddr(x); fv != nil && guardOf[fv] != nil {
						if !isFreshAlloc(canonBase(x.X)) {
							mark(v, src{guardOf[fv], canonBase(x.X)})
						}
					} else if s, ok := derived[x.X]; ok {
						mark(v, s)
					}
				case *ssa.UnOp:
					if x.Op == token.MUL {
						if s, ok := derived[x.X]; ok {
							mark(v, s)
						}
					}
				case *ssa.Lookup:
					if s, ok := derived[x.X]; ok {
						mark(v, s)
					}
				case *ssa.Extract:
					if s, ok := derived[x.Tuple]; ok {
						mark(v, s)
					}
				case *ssa.IndexAddr:
					if s, ok := derived[x.X]; ok {
						mark(v, s)
					}
				case *ssa.Field:
					if s, ok := derived[x.X]; ok {
						mark(v, s)
					}
				case *ssa.Next:
					if s, ok := derived[x.Iter]; ok {
						mark(v, s)
					}
				case *ssa.Range:
					if s, ok := derived[x.X]; ok {
						mark(v, s)
					}
				case *ssa.Phi:
					for _, e := range x.Edges {
						if s, ok := derived[e]; ok {
							mark(v, s)
						}
					}
				case *ssa.ChangeType:
					if s, ok := derived[x.X]; ok {
						mark(v, s)
					}
				case *ssa.MakeInterface:
					if s, ok := derived[x.X]; ok {
						mark(v, s)
					}
				}
			})
		}
		if len(derived) == 0 {
			continue
		}
		isPtrLike := func(v ssa.Value) bool {
			switch v.Type().Underlying().(type) {
			case *types.Pointer, *types.Interface, *types.Map, *types.Slice:
				return true
			}
			return false
		}
		allInstrs(f, func(ins ssa.Instruction) {
			var used ssa.Value
			what := ""
			switch x := ins.(type) {
			case *ssa.UnOp:
				if x.Op == token.MUL {
					if _, isFA := x.X.(*ssa.FieldAddr); isFA {
						used, what = x.X, "field read through"
					} else if _, isIA := x.X.(*ssa.IndexAddr); isIA {
						used, what = x.X, "element read through"
					}
				}
			case *ssa.Store:
				used, what = x.Addr, "store through"
			case *ssa.Lookup:
				used, what = x.X, "lookup in"
			case *ssa.MapUpdate:
				used, what = x.Map, "update of"
			case *ssa.Call:
				if x.Call.IsInvoke() {
					used, what = x.Call.Value, "method call on"
				} else if _, isM := mutexOp(&x.Call); !isM {
					for _, a := range x.Call.Args {
						if _, ok := derived[a]; ok && isPtrLike(a) {
							used, what = a, "call with"
						}
					}
				}
			}
			if used == nil {
				return
			}
			s, ok := derived[used]
			if !ok {
				return
			}
			// direct accesses of the guarded field itself are LOCK-2's business
			if fa, isFA := used.(*ssa.FieldAddr); isFA {
				if fv := fieldVarOfAddr(fa); fv != nil && guardOf[fv] != nil {
					return
				}
			}
			r.Instance(rule, 1)
			key := fmt.Sprintf("%s#derived:%s", c.FnName(f), what)
			held := la.must[f][ins][lockKey{s.base, s.m}]
			if held >= modeR {
				r.Pass(rule, key, c.Pos(ins.Pos()), s.m.Name()+" held")
			} else {
				r.Fail(rule, key, c.Pos(ins.Pos()), fmt.Sprintf("%s a value obtained from a field guarded by %s.%s, at a point where the mutex is not held on every path: the entry may have been removed and its block recycled by another goroutine in between (the operation is not atomic)", what, c.ownerOfField(s.m), s.m.Name()))
			}
		})
	}
}
