// Registration of the BGZF properties that reuse the protocol rules.
package main

func init() {
	bgzfConst := RuleDef{Name: "TAB-BGZF", What: "BGZF constants equal the specification's (block sizes, BC subfield, EOF marker), payload arrays are typed by them, compressBound(BlockSize) ≤ MaxBlockSize by interpretation", Floor: 10, Run: ruleBgzfConstants}
	bsize := RuleDef{Name: "BIT-BSIZE", What: "writeBlock stores len(member)-1 little-endian at +4/+5 of the BC subfield under size < 0x10000; expectedMemberSize is the inverse (bit domain)", Floor: 2, Run: ruleBSize}
	fextra := RuleDef{Name: "TAB-FEXTRA", What: "BC subfield is first in every member's Extra", Floor: 1, Run: ruleFextraFirst}
	hasEOF := RuleDef{Name: "PATH-HASEOF", What: "HasEOF reads the last len(magicBlock) bytes and compares them with magicBlock; a stream shorter than the marker is answered false without a read at a negative offset, and io.EOF with a full count from ReadAt is a successful read", Floor: 3, Run: func(c *Ctx, r *Rep, tier string) { ruleHasEOF(c, r, tier); ruleHasEOFEdges(c, r, tier) }}

	register(&PropDef{
		ID: "C01", Title: "BGZF write→read round trip is lossless for every write pattern and setting", Level: "other",
		Rules: append(append(writerRules("W1", "W2", "W3", "W4", "W5", "W8"), readerRules("R1", "R2", "R3", "R6")...),
			RuleDef{Name: "CUR-WRITE", What: "Writer.Write: bytes copied advance the source slice, the block cursor and the returned count together; the copy lands at the cursor", Floor: 1, Run: ruleCurWrite},
			RuleDef{Name: "OWN-WRITE-ARG", What: "Writer.Write only measures, reslices and copies from its argument (shared with C08)", Floor: 1, Run: ruleWriteArgOwned},
			RuleDef{Name: "SHARED-STATE", What: "package bgzf keeps no state that one Writer or Reader writes and another reads (shared with C08): a round trip does not depend on what other writers and readers of the process did", Floor: 8, Run: ruleSharedState([]string{"bgzf"})},
			RuleDef{Name: "POOL-BARE", What: "every decompressor sent to the read-ahead pool is new or had its block taken by wait() (void if the worker tests the error before deriving the next offset); added after seed C01-d", Floor: 4, Run: rulePoolBare},
			RuleDef{Name: "CUR-COUNT", What: "countReader.off advances by exactly what was consumed (Read, ReadByte, seek)", Floor: 3, Run: ruleCurCount},
			bgzfConst, bsize,
			RuleDef{Name: "MEMBER-ACCEPT", What: "bgzf nextBlockAt hands every member that readMember read without error to the decompressor: the reader refuses nothing the writer's BSIZE admits (added after eighth-round seed C01-j: a bound on the deflate stream's length that incompressible data exceeds)", Floor: 1, Run: ruleMemberAccept},
			RuleDef{Name: "PATH-NEED", What: "the reader accepts every member size a conforming writer can produce (1..MaxBlockSize) and classifies 0 / negative / missing BSIZE", Floor: 1, Run: ruleNeed},
			RuleDef{Name: "PATH-READFULL", What: "member body = exactly BSIZE+1 minus consumed header bytes", Floor: 2, Run: ruleReadFull},
			RuleDef{Name: "READ-FILLS", What: "Reader.Read returns as its error the recorded one (or nil; io.EOF only in Blocked mode), never the io.EOF of a block that is merely used up: reading back ends with io.EOF at the end of the data only (shared with C02; here since fourteenth-round seed C01-p)", Floor: 2, Run: ruleReadFills},
			RuleDef{Name: "GEN-BIND", What: "read-ahead generations: a result read for the latest instruction never looks stale (shared with C02, C03, C09: reading back with rd > 1 returns)", Floor: 2, Run: ruleGenBind},
			RuleDef{Name: "FAILED-CURRENT", What: "nextBlock makes the failed block current before it returns its error – the end of the data included (shared with C02, C09)", Floor: 1, Run: ruleFailedCurrent},
			RuleDef{Name: "ERR-OVERWRITE", What: "a possibly failing store to Reader.err is read before the field is assigned again (shared with C09: io.EOF is such a store)", Floor: 2, Run: ruleErrOverwrite},
			RuleDef{Name: "PATH-LASTCHUNK", What: "Read/ReadByte skip every empty member (emptiness re-tested after each block change) before consuming", Floor: 2, Run: ruleLastChunk}),
		Explanation: "Decides the parts of the round trip that hold by construction for every concurrency and schedule: the hand-off protocol that makes the order of members in the file the order of Write calls (W1–W5, W8: each block is queued once, compressed once, emitted by the single emitter in queue order, all three submission sites), the cursor accounting in Write (CUR-WRITE) and in the reader's offset counter (CUR-COUNT, which NextBase/seek arithmetic rests on), the BSIZE framing pair in the bit domain (BIT-BSIZE) and the size constants (TAB-BGZF: a full block always fits a member).",
		NotDecided:  "that the split arithmetic in Write loses or duplicates no byte for every length, inflate(deflate(x)) = x, and the reader's walk over members – value-level.",
		Assumptions: []string{"compress/gzip, compress/flate are correct"},
	})
	register(&PropDef{
		ID: "C08", Title: "BGZF output is spec-conformant, gzip-compatible, deterministic and EOF-marked", Level: "other",
		Rules: append([]RuleDef{bgzfConst, bsize, fextra, hasEOF,
			{Name: "OWN-WRITE-ARG", What: "Writer.Write only measures, reslices and copies from its argument; no slice of the caller's buffer is stored, sent or captured (added after a blind second seed round)", Floor: 1, Run: ruleWriteArgOwned},
			{Name: "MARKER-ONCE", What: "the EOF marker constant is used by HasEOF and, once, by Writer.Close – nothing else can emit the 28 bytes that mean \"closed without error\" (added after fourteenth-round seeds C08-o, C10-p: an empty block written as the constant)", Floor: 1, Run: ruleMarkerOnce},
			{Name: "SHARED-STATE", What: "package bgzf keeps no state that one Writer or Reader writes and another reads: every package-level variable is read-only, or an object pool whose objects are reset between instances (added after tenth-round seed C08-l: compressor buffers recycled through a sync.Pool as they were left)", Floor: 8,
				Run:    ruleSharedState([]string{"bgzf"}),
				Canary: func(cc *Ctx, r *Rep) { ruleSharedState([]string{"poolc"})(cc, r, "") }, WantFail: []string{"poolc.dirtyPool#shared-state", "poolc.seen#shared-state"}, WantPassMin: 3},
			{Name: "SIZE-FIRST", What: "HasEOF takes the size from Size() or Stat() wherever the reader has one; Seek(0, current)+Len() is entered only after those type tests failed (bytes.Reader and strings.Reader have all three, and their offset may stand beyond the end) (added after sixteenth-round seed C08-q)", Floor: 2, Run: ruleSizeFirst},
			{Name: "CUT-NO-CHANLEN", What: "no function of the writer decides anything on len() or cap() of a channel (the value reaches no branch, no store, no call and no unexported function's result; an exported accessor that merely reports it is fine): how many compressors are idle or how many blocks are queued depends on wc and the destination's speed, and where a block is cut may not (added after sixteenth-round seed C08-r)", Floor: 5,
				Run:    ruleNoChanLen([]string{"bgzf"}),
				Canary: func(cc *Ctx, r *Rep) { ruleNoChanLen([]string{"poolc"})(cc, r, "") }, WantFail: []string{"poolc.chanLenBusy#chan-len"}, WantPassMin: 1},
			{Name: "FLUSH-CUTS", What: "Writer.Flush answers nil without cutting a block only when the active block is empty: which writes start a member does not depend on the queue's length, hence not on wc or the destination's speed (added after ninth-round seed C08-i)", Floor: 1, Run: ruleFlushCuts},
			{Name: "LATCH-ONE", What: "the error Writer.Close tests before it appends the EOF marker is the state setErr records (the same field, or Error()): the marker is written iff no write failed (added after ninth-round seed C08-j: the latch moved to an atomic.Value, Close still read the old field)", Floor: 1, Run: ruleLatchOne},
			{Name: "FIELD-NEVER-SET", What: "every error field of package bgzf that is read is assigned a non-nil value somewhere: the latch Close consults before it writes the EOF marker is the one failures are recorded in (added after ninth-round seed C08-j)", Floor: 3, Run: ruleFieldNeverSet([]string{"bgzf"})},
		}, writerRules("W4", "W5", "W6", "W8", "W9")...),
		Explanation: "TAB-BGZF/TAB-FEXTRA/BIT-BSIZE: every member carries the BC subfield first, with BSIZE = length−1 written under a guard that rejects members of 64 KiB or more, payload bounded by the array type; W4: only the single emitter (and Close after it finished) writes to the underlying writer, each block by one copy of a complete member, so the stream is a concatenation of whole members independent of the number of compressors; W6: the marker is written once, only by Close, only if no error was latched, after the emitter finished; W9: nothing follows a failed block; PATH-HASEOF: HasEOF compares exactly the trailing 28 bytes.",
		NotDecided:  "that compress/gzip emits RFC 1952 (trusted); the compressed payload itself.",
		Assumptions: []string{"compress/gzip is RFC 1952 conformant"},
	})
	register(&PropDef{
		ID: "C12", Title: "Writer emits whole blocks in write order; Flush+Wait makes written data durable", Level: "other",
		Rules: append(writerRules("W1", "W2", "W3", "W4", "W5", "W6", "W9", "PATH-WAIT"),
			RuleDef{Name: "W-DIRECT", What: "Writer.w is the writer the caller gave, not a layer of the library's around it: W4's one-Write-per-block is then a statement about the destination (added after fourteenth-round seed C12-p)", Floor: 1, Run: ruleWDirect},
			bsize,
			RuleDef{Name: "OWN-WRITE-ARG", What: "Writer.Write only measures, reslices and copies from its argument (shared with C01/C08; under C12 since sixth-round seed C12-h: blocks arrive whole and in order but hold bytes the caller wrote into its buffer later)", Floor: 1, Run: ruleWriteArgOwned},
			RuleDef{Name: "FLUSH-CUTS", What: "Writer.Flush cuts the active block unless it is empty: data written before a Flush that returned nil is on its way (shared with C08)", Floor: 1, Run: ruleFlushCuts},
			RuleDef{Name: "PATH-BAMCLOSE", What: "bam.Writer.Close closes the BGZF writer on every path – Flush alone does not wait and writes no EOF block (added after eighth-round seed C12-j)", Floor: 1, Run: rulePathBamClose},
			RuleDef{Name: "PATH-BAMNEW", What: "bam.NewWriterLevel: writeHeader, Flush, Wait in this order on every path; writer returned only if Wait's error is nil", Floor: 1, Run: ruleBamNew}),
		Explanation: "W1–W4: blocks reach the underlying writer whole, from one goroutine, in queue (= write) order for every number of compressors and completion order; W5 in the reading \"qwg.Done only after the block's bytes were handed to the underlying writer and it returned, and after a failure was latched\"; PATH-WAIT: Wait blocks on the pending-write group whenever no error is latched and then reports the latch – so Flush;Wait == nil implies every block queued before has been written; W9: after a failed block no later block is written (the delivered bytes stay a prefix); W6 the same for Close; PATH-BAMNEW the guarantee bam.NewWriter relies on.",
		NotDecided:  "that the decoded prefix equals the written prefix byte for byte (value-level).",
	})
}
