// Rules written for defects of the unchanged tree that the second defect hunt
// (four sub-agents, one group of properties each) reported, all repaired:
//
//	URI-KEPT        (C07) the UR value of a reference is held as it was parsed:
//	                no function of package sam assigns the Scheme of a url.URL
//	                (https, s3 … were turned into file; a relative path became
//	                a host).
//	HEADER-LAST-LINE (C06) sam.NewReader keeps the bytes bufio hands out together
//	                with io.EOF: a header whose last line has no newline, in an
//	                input without records, is a header.
//	ORDER-KEPT      (C18) bam.NewMerger, for coordinate order, compares the ids of
//	                consecutive links of every source and refuses the inputs when
//	                the merged header does not keep a source's reference order.
//	PTR-EQ          (C07) package sam compares url.URL values by content, never by
//	                pointer.
//	READ-FULL       (C07) the binary header decoder reads its byte strings with
//	                io.ReadFull, never with one Read on the io.Reader it was given.
//	CHUNK-ADVANCE   (C13) index.ChunkReader.Read answers io.EOF itself only where
//	                it has found the list of chunks empty.
//	LAST-BASE       (C04, C16) the index Add methods validate the last base of a
//	                record, End()-1, with the predicate on positions – not End().
//	NEAR-CMP        (C17) the Compressor's threshold is only ever compared:
//	                adding it to an offset overflows for thresholds near MaxInt64.
package main

import (
	"fmt"
	"go/token"
	"go/types"
	"strings"

	"golang.org/x/tools/go/ssa"
)

func isURLPtr(t types.Type) bool {
	p, ok := t.(*types.Pointer)
	if !ok {
		return false
	}
	n, ok := p.Elem().(*types.Named)
	return ok && n.Obj().Pkg() != nil && n.Obj().Pkg().Path() == "net/url" && n.Obj().Name() == "URL"
}

// ---- URI-KEPT, PTR-EQ ------------------------------------------------------------------

func ruleURIKept(c *Ctx, r *Rep, tier string) {
	rule := "URI-KEPT"
	n := 0
	for _, fn := range c.FuncsIn("sam") {
		for _, f := range withAnon(fn) {
			parses := false
			var store ssa.Instruction
			allInstrs(f, func(ins ssa.Instruction) {
				if call, ok := ins.(*ssa.Call); ok && calleeFullName(&call.Call) == "net/url.Parse" {
					parses = true
				}
				if st, ok := ins.(*ssa.Store); ok {
					if fa, ok := st.Addr.(*ssa.FieldAddr); ok && isURLPtr(fa.X.Type()) {
						store = ins
					}
				}
			})
			if !parses {
				continue // Clone writes the fields of its own copy
			}
			n++
			r.Instance(rule, 1)
			why := ""
			if store != nil {
				why = fmt.Sprintf("a field of the parsed URL is assigned at %s: the UR value is rewritten – UR:https://h/x is read back as file://h/x, UR:ref.fa as file://ref.fa (the name has become the host) – so a header does not serialise to the text it was parsed from", c.Pos(store.Pos()))
			}
			r.Check(why == "", rule, c.FnName(f)+"#uri-as-parsed", c.Pos(f.Pos()), "the URL is held as url.Parse returned it", why)
		}
	}
	if n < 2 {
		r.Instance(rule, 1)
		r.Fail(rule, "sam#uri-parsers", "-", fmt.Sprintf("only %d functions that parse a UR value found (2 confirmed by reading: referenceLine, Reference.Set): the rule's anchor moved", n))
	}
}

func rulePtrEq(c *Ctx, r *Rep, tier string) {
	rule := "PTR-EQ"
	n := 0
	for _, fn := range c.FuncsIn("sam") {
		for _, f := range withAnon(fn) {
			f := f
			idx := 0
			allInstrs(f, func(ins ssa.Instruction) {
				bo, ok := ins.(*ssa.BinOp)
				if !ok || (bo.Op != token.EQL && bo.Op != token.NEQ) || !isURLPtr(bo.X.Type()) {
					return
				}
				n++
				idx++
				r.Instance(rule, 1)
				key := fmt.Sprintf("%s#url-compare~%d", c.FnName(f), idx)
				if isNilConst(bo.X) || isNilConst(bo.Y) {
					r.Pass(rule, key, c.Pos(bo.Pos()), "a test for nil")
					return
				}
				r.Fail(rule, key, c.Pos(bo.Pos()), fmt.Sprintf("two *url.URL are compared as pointers at %s: separately parsed, built or cloned references never share the pointer, so a reference with UR is unequal to its own copy – MergeHeaders of two identical headers fails with \"duplicate reference name\"", c.Pos(bo.Pos())))
			})
		}
	}
	if n < 3 {
		r.Instance(rule, 1)
		r.Fail(rule, "sam#url-comparisons", "-", fmt.Sprintf("only %d comparisons of *url.URL found in package sam (at least 3 confirmed by reading): the rule's anchor moved", n))
	}
}

// ---- HEADER-LAST-LINE -------------------------------------------------------------------

func ruleHeaderLastLine(c *Ctx, r *Rep, tier string) {
	rule := "HEADER-LAST-LINE"
	fn := c.Func("sam", "NewReader")
	r.Instance(rule, 1)
	var rb *ssa.Call
	allInstrs(fn, func(ins ssa.Instruction) {
		if call, ok := ins.(*ssa.Call); ok && strings.HasSuffix(calleeFullName(&call.Call), "bufio.Reader).ReadBytes") {
			rb = call
		}
	})
	key := "sam.NewReader#final-header-line"
	if rb == nil {
		r.Fail(rule, key, c.Pos(fn.Pos()), "no ReadBytes in NewReader: the rule's anchor moved (undecided)")
		return
	}
	var errV ssa.Value
	for _, ref := range *rb.Referrers() {
		if e, ok := ref.(*ssa.Extract); ok && e.Index == 1 {
			errV = e
		}
	}
	// from the "error is not nil" edge no return of an error is reached without
	// the error having been compared with io.EOF
	isEOFTest := func(ins ssa.Instruction) bool {
		iff, ok := ins.(*ssa.If)
		if !ok {
			return false
		}
		bo, ok := iff.Cond.(*ssa.BinOp)
		return ok && ((bo.X == errV && isGlobalLoad(bo.Y, "io", "EOF")) || (bo.Y == errV && isGlobalLoad(bo.X, "io", "EOF")))
	}
	isErrReturn := func(ins ssa.Instruction) bool {
		ret, ok := ins.(*ssa.Return)
		return ok && len(ret.Results) == 2 && !isNilConst(retValue(ret, 1))
	}
	why := ""
	for _, b := range fn.Blocks {
		ce, ok := classifyErrIf(b, func(v ssa.Value) bool { return v == errV })
		if !ok || !ce.isNil || b.Succs[0] == b.Succs[1] {
			continue
		}
		errEdge := b.Succs[1-ce.yes]
		if bad, reach := pathTo(Loc{errEdge, -1}, isErrReturn, isEOFTest, nil); reach {
			why = fmt.Sprintf("when ReadBytes returns an error the reader gives up at %s without looking whether it is io.EOF with bytes: bufio hands out the last line of an input that does not end in a newline together with io.EOF, so a header whose last line lacks the newline – an input without records – is refused as truncated", c.Pos(bad.Pos()))
		}
	}
	r.Check(why == "", rule, key, c.Pos(fn.Pos()), "an error from ReadBytes is compared with io.EOF before the reader gives up", why)
}

// ---- ORDER-KEPT -----------------------------------------------------------------------

func ruleOrderKept(c *Ctx, r *Rep, tier string) {
	rule := "ORDER-KEPT"
	fn := c.Func("bam", "NewMerger")
	r.Instance(rule, 1)
	key := "bam.NewMerger#source-order"
	idFn := c.Func("sam", "(*Reference).ID")
	// a comparison of the ids of two links
	var cmp *ssa.BinOp
	allInstrs(fn, func(ins ssa.Instruction) {
		bo, ok := ins.(*ssa.BinOp)
		if !ok {
			return
		}
		switch bo.Op {
		case token.LSS, token.GTR, token.LEQ, token.GEQ:
		default:
			return
		}
		isID := func(v ssa.Value) bool {
			call, ok := v.(*ssa.Call)
			return ok && staticCallee(&call.Call) == idFn
		}
		if isID(bo.X) && isID(bo.Y) {
			cmp = bo
		}
	})
	var initCall ssa.Instruction
	allInstrs(fn, func(ins ssa.Instruction) {
		if call, ok := ins.(*ssa.Call); ok && calleeFullName(&call.Call) == "container/heap.Init" {
			initCall = ins
		}
	})
	why := ""
	switch {
	case initCall == nil:
		why = "no heap.Init in NewMerger: the rule's anchor moved (undecided)"
	case cmp == nil:
		why = "NewMerger does not compare the ids that consecutive references of a source have in the merged header: MergeHeaders appends the references a later source brings, so the merged order can contradict that source's own ([chr1,chr3] and [chr2,chr3] give chr1, chr3, chr2) – each input is sorted by its own order, and the coordinate merge then returns an unsorted stream under a header that says SO:coordinate, without an error"
	default:
		// one edge of the comparison leads to a return of an error without reaching the heap
		iffBlk := cmp.Block()
		refuses := false
		if iff := ifOf(iffBlk); iff != nil && iff.Cond == ssa.Value(cmp) {
			// an error return that only that edge leads to (the returns of read
			// errors further down are reached whatever the comparison says)
			for k := 0; k < 2; k++ {
				allInstrs(fn, func(x ssa.Instruction) {
					ret, ok := x.(*ssa.Return)
					if ok && len(ret.Results) == 2 && !isNilConst(retValue(ret, 1)) && dominatedByEdge(fn, iffBlk, k, ret.Block()) {
						refuses = true
					}
				})
			}
		}
		// and the check lies on the way to the heap for coordinate order: the
		// block of the comparison reaches heap.Init, and is itself only reached
		// on the coordinate edge of the switch (TAB-ORDER decides which case
		// assigns LessByCoordinate; here: the case that holds the comparison)
		_, reaches := pathTo(locOf(cmp), is(initCall), nil, nil)
		if !refuses {
			why = "the comparison of the links' ids does not lead to an error return"
		} else if !reaches {
			why = "the comparison of the links' ids is not on a way to heap.Init"
		}
	}
	r.Check(why == "", rule, key, c.Pos(fn.Pos()), "ids of consecutive links compared, error return, before the heap is built", why)
}

// ---- READ-FULL ------------------------------------------------------------------------

func ruleHeaderReadFull(c *Ctx, r *Rep, tier string) {
	rule := "READ-FULL"
	n := 0
	for _, name := range []string{"(*Header).DecodeBinary", "readRefRecords"} {
		fn := c.Func("sam", name)
		var rd *ssa.Parameter
		for _, p := range fn.Params {
			if p.Type().String() == "io.Reader" {
				rd = p
			}
		}
		r.Instance(rule, 1)
		key := "sam." + name + "#reads"
		if rd == nil {
			r.Fail(rule, key, c.Pos(fn.Pos()), "no io.Reader parameter: the rule's anchor moved (undecided)")
			continue
		}
		why := ""
		allInstrs(fn, func(ins ssa.Instruction) {
			call, ok := ins.(*ssa.Call)
			if !ok {
				return
			}
			if call.Call.IsInvoke() && call.Call.Value == ssa.Value(rd) {
				if call.Call.Method.Name() == "Read" {
					why = fmt.Sprintf("Read is called once on the io.Reader at %s and a short count is taken for a truncated header: an io.Reader may return fewer bytes than asked for without being at its end (bufio with a small buffer, a network stream) – io.ReadFull is the call that means \"these n bytes\"", c.Pos(call.Pos()))
				}
				return
			}
			for _, a := range call.Call.Args {
				if a == ssa.Value(rd) {
					n++
				}
				if mi, ok := a.(*ssa.MakeInterface); ok && mi.X == ssa.Value(rd) {
					n++
				}
			}
		})
		r.Check(why == "", rule, key, c.Pos(fn.Pos()), "the reader is only handed to io.ReadFull / binary.Read / helpers", why)
	}
	if n < 4 {
		r.Instance(rule, 1)
		r.Fail(rule, "sam#binary-header-reads", "-", fmt.Sprintf("only %d calls that are handed the reader found in the binary header decoder (at least 4 confirmed by reading): the rule's anchor moved", n))
	}
}

// ---- CHUNK-ADVANCE --------------------------------------------------------------------

func ruleChunkAdvance(c *Ctx, r *Rep, tier string) {
	rule := "CHUNK-ADVANCE"
	fn := c.Func("bgzf/index", "(*ChunkReader).Read")
	chunksF := c.Field("bgzf/index", "ChunkReader", "chunks")
	isEmptyTest := func(b *ssa.BasicBlock) (emptyEdge int, ok bool) {
		iff := ifOf(b)
		if iff == nil || b.Succs[0] == b.Succs[1] {
			return 0, false
		}
		bo, isBo := iff.Cond.(*ssa.BinOp)
		if !isBo {
			return 0, false
		}
		arg, isLen := isLenCall(bo.X)
		if !isLen {
			return 0, false
		}
		if f, _ := loadedField(arg); f != chunksF {
			return 0, false
		}
		k, isK := constInt(bo.Y)
		if !isK {
			return 0, false
		}
		switch {
		case bo.Op == token.EQL && k == 0, bo.Op == token.LSS && k == 1, bo.Op == token.LEQ && k == 0:
			return 0, true
		case bo.Op == token.NEQ && k == 0, bo.Op == token.GTR && k == 0, bo.Op == token.GEQ && k == 1:
			return 1, true
		}
		return 0, false
	}
	n := 0
	allInstrs(fn, func(ins ssa.Instruction) {
		ret, ok := ins.(*ssa.Return)
		if !ok || len(ret.Results) != 2 || !isGlobalLoad(retValue(ret, 1), "io", "EOF") {
			return
		}
		n++
		r.Instance(rule, 1)
		key := fmt.Sprintf("bgzf/index.(*ChunkReader).Read#eof~%d", n)
		shown := false
		for _, b := range fn.Blocks {
			if e, ok := isEmptyTest(b); ok && dominatedByEdge(fn, b, e, ret.Block()) {
				shown = true
			}
		}
		r.Check(shown, rule, key, c.Pos(ret.Pos()), "only where the list of chunks was found empty", fmt.Sprintf("io.EOF is returned at %s where chunks may remain: when the current chunk is exhausted on entry – an empty chunk, Begin == End – the reader says \"end\" for good and the chunks after it are never read", c.Pos(ret.Pos())))
	})
	if n < 2 {
		r.Instance(rule, 1)
		r.Fail(rule, "bgzf/index.(*ChunkReader).Read#eof-returns", c.Pos(fn.Pos()), fmt.Sprintf("only %d returns of io.EOF found (3 confirmed by reading): the rule's anchor moved", n))
	}
}

// ---- LAST-BASE ------------------------------------------------------------------------

func ruleLastBase(c *Ctx, r *Rep, tier string) {
	rule := "LAST-BASE"
	for _, site := range [][3]string{{"internal", "(*Index).Add", "IsValidIndexPos"}, {"csi", "(*Index).Add", "validIndexPos"}} {
		fn := c.Func(site[0], site[1])
		r.Instance(rule, 1)
		key := site[0] + "." + site[1] + "#end-validated"
		// does v come from End() – and through a "-1" on the way?
		var fromEnd func(v ssa.Value, depth int) (isEnd, minusOne bool)
		fromEnd = func(v ssa.Value, depth int) (bool, bool) {
			if depth > 6 {
				return false, false
			}
			switch x := v.(type) {
			case *ssa.Call:
				if x.Call.IsInvoke() && x.Call.Method.Name() == "End" {
					return true, false
				}
			case *ssa.BinOp:
				if k, isK := constInt(x.Y); isK && ((x.Op == token.SUB && k == 1) || (x.Op == token.ADD && k == -1)) {
					e, _ := fromEnd(x.X, depth+1)
					return e, e
				}
			case *ssa.Phi:
				anyEnd, allMinus := false, true
				for _, ed := range x.Edges {
					e, m := fromEnd(ed, depth+1)
					if e {
						anyEnd = true
						if !m {
							allMinus = false
						}
					}
				}
				return anyEnd, anyEnd && allMinus
			case *ssa.Convert:
				return fromEnd(x.X, depth+1)
			}
			return false, false
		}
		found, why := 0, ""
		allInstrs(fn, func(ins ssa.Instruction) {
			call, ok := ins.(*ssa.Call)
			if !ok {
				return
			}
			g := staticCallee(&call.Call)
			if g == nil || g.Name() != site[2] || len(call.Call.Args) == 0 {
				return
			}
			isEnd, minus := fromEnd(call.Call.Args[0], 0)
			if !isEnd {
				return
			}
			found++
			if !minus {
				why = fmt.Sprintf("%s, a predicate on 0-based positions, is applied to End() itself at %s: End is exclusive, so a record that covers the last base the index can hold (Pos = 2^29-2, 1M; the last position of every CSI geometry) is refused as outside the indexable range", site[2], c.Pos(call.Pos()))
			}
		})
		if found == 0 {
			why = "no validation of a value that comes from End() found in Add: the rule's anchor moved (undecided)"
		}
		r.Check(why == "", rule, key, c.Pos(fn.Pos()), "the last base End()-1 is what is validated", why)
	}
}

// ---- NEAR-CMP -------------------------------------------------------------------------

func ruleNearCmp(c *Ctx, r *Rep, tier string) {
	rule := "NEAR-CMP"
	outer := c.Func("bgzf/index", "CompressorStrategy")
	r.Instance(rule, 1)
	key := "bgzf/index.CompressorStrategy#threshold-use"
	uses, why := 0, ""
	for _, f := range withAnon(outer) {
		if f == outer {
			continue
		}
		for _, fv := range f.FreeVars {
			if b, ok := fv.Type().(*types.Pointer); !ok || !isInt64(b.Elem()) {
				continue
			}
			for _, ref := range *fv.Referrers() {
				ld, ok := ref.(*ssa.UnOp)
				if !ok || ld.Op != token.MUL {
					continue
				}
				for _, u := range *ld.Referrers() {
					uses++
					bo, isBo := u.(*ssa.BinOp)
					if !isBo {
						continue
					}
					switch bo.Op {
					case token.LSS, token.LEQ, token.GTR, token.GEQ, token.EQL, token.NEQ:
					default:
						why = fmt.Sprintf("the threshold enters arithmetic (%s at %s): offset + near overflows for thresholds near MaxInt64 – CompressorStrategy(math.MaxInt64), \"merge everything\", merges nothing – compare the distance with the threshold instead", bo.Op, c.Pos(bo.Pos()))
					}
				}
			}
		}
	}
	if uses == 0 {
		why = "no use of the threshold found in the strategy's closure: the rule's anchor moved (undecided)"
	}
	r.Check(why == "", rule, key, c.Pos(outer.Pos()), "the threshold is only compared", why)
}
