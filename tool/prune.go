// PRUNE-ROLE: the pruning comparisons in Chunks keep a candidate chunk iff its
// *End* lies beyond the reference offset, and the reference offset belongs to
// the structure the chunk came from (BAI: the tile's linear-index entry; CSI:
// the left offset of the very bin whose chunks are being filtered).
package main

import (
	"fmt"
	"go/token"
	"go/types"
	"strings"

	"golang.org/x/tools/go/ssa"
)

// fieldOfVOffsetArg: v = vOffset(X) where X is a load of field F of something;
// returns F's name and the value the field was selected from.
func fieldOfVOffsetArg(v ssa.Value) (string, ssa.Value) {
	call, ok := v.(*ssa.Call)
	if !ok {
		return "", nil
	}
	g := staticCallee(&call.Call)
	if g == nil || g.Name() != "vOffset" {
		return "", nil
	}
	arg := call.Call.Args[0]
	switch x := arg.(type) {
	case *ssa.UnOp:
		if fa, ok := x.X.(*ssa.FieldAddr); ok {
			return fieldVarOfAddr(fa).Name(), fa.X
		}
		return "", x.X
	case *ssa.Field:
		return fieldVarOfField(x).Name(), x.X
	}
	return "", arg
}

// binIndexOf: v derives from bins[c].<field> (through loads, ranges, extracts):
// returns the index value c.
func binIndexOf(v ssa.Value, depth int) ssa.Value {
	if depth > 10 || v == nil {
		return nil
	}
	switch x := v.(type) {
	case *ssa.IndexAddr:
		// &bins[c]: the element is the bin struct (it has a chunks field)
		if pt, ok := x.Type().Underlying().(*types.Pointer); ok {
			if st, ok := pt.Elem().Underlying().(*types.Struct); ok {
				for i := 0; i < st.NumFields(); i++ {
					if n := st.Field(i).Name(); n == "chunks" || n == "Chunks" {
						return x.Index
					}
				}
			}
		}
		return binIndexOf(x.X, depth+1)
	case *ssa.FieldAddr:
		return binIndexOf(x.X, depth+1)
	case *ssa.UnOp:
		return binIndexOf(x.X, depth+1)
	case *ssa.Field:
		return binIndexOf(x.X, depth+1)
	case *ssa.Extract:
		return binIndexOf(x.Tuple, depth+1)
	case *ssa.Next:
		return binIndexOf(x.Iter, depth+1)
	case *ssa.Range:
		return binIndexOf(x.X, depth+1)
	case *ssa.Alloc:
		// a local copy (range value): where was it filled from?
		for _, ref := range *x.Referrers() {
			if st, ok := ref.(*ssa.Store); ok && st.Addr == ssa.Value(x) {
				if r := binIndexOf(st.Val, depth+1); r != nil {
					return r
				}
			}
		}
	case *ssa.Phi:
		for _, e := range x.Edges {
			if r := binIndexOf(e, depth+1); r != nil {
				return r
			}
		}
	case *ssa.Call:
		if g := staticCallee(&x.Call); g != nil && g.Name() == "vOffset" {
			return binIndexOf(x.Call.Args[0], depth+1)
		}
	}
	return nil
}

// ruleBinFind (BIN-FIND): in Add, every element of the bin list that is written
// through (chunk appended, End extended, count incremented) is addressed by the
// index at which a scan of that same list found the bin number: the counter of a
// range over the list, under the test "element's number == the record's bin".
// A position remembered elsewhere (a map filled while adding) goes stale when
// sort() reorders the list. Added after a blind second-round seed did exactly
// that and nothing reported it.
func ruleBinFind(c *Ctx, r *Rep, tier string) {
	rule := "BIN-FIND"
	for _, pkg := range []string{"internal", "csi"} {
		fn := c.Func(pkg, "(*Index).Add")
		n := 0
		seen := map[string]bool{}
		allInstrs(fn, func(ins ssa.Instruction) {
			ia, ok := ins.(*ssa.IndexAddr)
			if !ok {
				return
			}
			lk := symKey(ia.X)
			if !strings.HasSuffix(lk, ".bins") && !strings.HasSuffix(lk, ".Bins") {
				return
			}
			// written through?
			written := false
			var walk func(v ssa.Value, d int)
			walk = func(v ssa.Value, d int) {
				if d > 4 || v.Referrers() == nil {
					return
				}
				for _, u := range *v.Referrers() {
					switch x := u.(type) {
					case *ssa.Store:
						if x.Addr == v {
							written = true
						}
					case *ssa.FieldAddr:
						walk(x, d+1)
					case *ssa.IndexAddr:
						if x.X == v {
							walk(x, d+1)
						}
					case *ssa.UnOp:
						// a loaded slice header (…chunks) indexed and stored through
						walk(x, d+1)
					}
				}
			}
			walk(ia, 0)
			if !written {
				return
			}
			key := fmt.Sprintf("%s.(*Index).Add#%s[%s]", pkg, lk, symKey(ia.Index))
			if seen[key] {
				return
			}
			seen[key] = true
			n++
			r.Instance(rule, 1)
			why := ""
			inc, isInc := ia.Index.(*ssa.BinOp)
			var phi *ssa.Phi
			if isInc && inc.Op == token.ADD {
				phi, _ = inc.X.(*ssa.Phi)
			}
			if phi == nil || phi.Comment != "rangeindex" {
				why = fmt.Sprintf("the bin that is updated is addressed by %s, not by the position at which a scan of %s found the record's bin number: a remembered position is stale once sort() has reordered the list, and the chunk is filed under another bin", symKey(ia.Index), lk)
			} else {
				// the loop ranges over the same list, and the update sits under "number == b"
				okLoop, okEq := false, false
				if iff := ifOf(phi.Block()); iff != nil {
					if cmp, ok := iff.Cond.(*ssa.BinOp); ok && cmp.Op == token.LSS && symKey(cmp.Y) == "len("+lk+")" {
						okLoop = true
					}
				}
				for _, b := range fn.Blocks {
					iff := ifOf(b)
					if iff == nil {
						continue
					}
					bo, ok := iff.Cond.(*ssa.BinOp)
					if !ok || bo.Op != token.EQL {
						continue
					}
					// the element's number: selected from the list element or from the
					// range variable that copies it (inside this loop)
					kx, ky := strings.ToLower(symKey(bo.X)), strings.ToLower(symKey(bo.Y))
					if (strings.HasSuffix(kx, ".bin") || strings.HasSuffix(ky, ".bin")) && phi.Block().Dominates(b) && dominatedByEdge(fn, b, 0, ia.Block()) {
						okEq = true
					}
				}
				if !okLoop {
					why = "the index is the counter of a loop over another list than " + lk
				} else if !okEq {
					why = "the update is not under the test 'this element's number is the record's bin'"
				}
			}
			r.Check(why == "", rule, key, c.Pos(ia.Pos()), "addressed by the scan position under number == bin", why)
		})
		if n == 0 {
			r.Instance(rule, 1)
			r.Fail(rule, pkg+".(*Index).Add#bin-updates", c.Pos(fn.Pos()), "no update of an existing bin found in Add")
		}
	}
}

func rulePruneRole(c *Ctx, r *Rep, tier string) {
	rule := "PRUNE-ROLE"
	for _, cfg := range []struct {
		pkg     string
		sameBin bool
	}{{"internal", false}, {"csi", true}} {
		fn := c.Func(cfg.pkg, "(*Index).Chunks")
		r.Instance(rule, 1)
		key := cfg.pkg + ".(*Index).Chunks#prune"
		why := ""
		n := 0
		allInstrs(fn, func(ins ssa.Instruction) {
			bo, ok := ins.(*ssa.BinOp)
			if !ok {
				return
			}
			switch bo.Op {
			case token.GTR, token.GEQ, token.LSS, token.LEQ:
			default:
				return
			}
			fx, _ := fieldOfVOffsetArg(bo.X)
			_, isVX := bo.X.(*ssa.Call)
			fy, _ := fieldOfVOffsetArg(bo.Y)
			// a comparison of two virtual offsets (one may be a hoisted local)
			xv, yv := bo.X, bo.Y
			isVO := func(v ssa.Value) bool {
				call, ok := v.(*ssa.Call)
				return ok && staticCallee(&call.Call) != nil && staticCallee(&call.Call).Name() == "vOffset"
			}
			if !isVO(xv) && !isVO(yv) {
				return
			}
			_ = isVX
			// sort comparators (Less) are not in Chunks; every such comparison here is a pruning test
			n++
			chunkField, op := fx, bo.Op
			chunkSide, refSide := xv, yv
			if fx != "End" && fx != "Begin" && (fy == "End" || fy == "Begin") {
				chunkField, chunkSide, refSide = fy, yv, xv
				switch op {
				case token.GTR:
					op = token.LSS
				case token.LSS:
					op = token.GTR
				case token.GEQ:
					op = token.LEQ
				case token.LEQ:
					op = token.GEQ
				}
			}
			if chunkField != "End" {
				why += fmt.Sprintf(" the pruning test at %s looks at the chunk's %s, not its End: a chunk that starts before the reference offset but extends past it (merged chunks, overlapping layouts) is dropped although it holds overlapping records;", c.Pos(bo.Pos()), chunkField)
			}
			if op != token.GTR && op != token.GEQ {
				why += fmt.Sprintf(" the pruning test at %s keeps chunks whose End is %s the reference offset;", c.Pos(bo.Pos()), op)
			}
			if cfg.sameBin {
				ci := binIndexOf(chunkSide, 0)
				ri := binIndexOf(refSide, 0)
				if ri == nil {
					// a hoisted local: find its definition
					if ph, ok := refSide.(*ssa.Phi); ok {
						ri = binIndexOf(ph, 0)
					}
				}
				if ci == nil || ri == nil || ci != ri {
					why += fmt.Sprintf(" at %s the chunks of one bin are pruned with the left offset of a different bin (in this package left is the first chunk filed under that very bin, not the first record overlapping it): edge-crossing records in ancestor bins are dropped;", c.Pos(bo.Pos()))
				}
			}
		})
		if n == 0 {
			r.Pass(rule, key, c.Pos(fn.Pos()), "no pruning comparison: every candidate chunk is returned")
			continue
		}
		r.Check(why == "", rule, key, c.Pos(fn.Pos()), fmt.Sprintf("%d pruning comparison(s): chunk.End > reference offset of the chunk's own tile/bin", n), why)
	}
}
