// `htsverif manifest` prints MANIFEST.json from the rule registry, so that the
// manifest can never claim a property whose rules are not built.
package main

import (
	"encoding/json"
	"fmt"
	"os"
	"sort"
	"strings"
)

// notApplicable: properties for which no sound structural clause is claimed.
var notApplicable = map[string]string{}

var techniques = map[string]string{}

var _ = os.Args

const goEnvPrefix = "GOFLAGS=-mod=mod GOPROXY=off GOSUMDB=off GOTOOLCHAIN=local GOWORK=off"

func cmdManifest() {
	type level struct {
		Category  string `json:"category"`
		Text      string `json:"text"`
		DesignRef string `json:"design_ref"`
	}
	type check struct {
		PropertyID string `json:"property_id"`
		Quick      string `json:"quick_cmd"`
		Thorough   string `json:"thorough_cmd"`
		Evidence   string `json:"evidence_file"`
		Replay     string `json:"replay_cmd_template"`
		Engine     string `json:"engine"`
		Level      level  `json:"level_claimed"`
		Note       string `json:"level_note"`
		Technique  string `json:"technique"`
	}
	type na struct {
		PropertyID string `json:"property_id"`
		Reason     string `json:"reason"`
	}
	var ids []string
	for id := range registry {
		ids = append(ids, id)
	}
	sort.Strings(ids)
	var checks []check
	for _, id := range ids {
		p := registry[id]
		var rules []string
		for _, r := range p.Rules {
			rules = append(rules, r.Name)
		}
		text := "Decided statically on every run, for all inputs/schedules at once: " + p.Explanation
		if p.NotDecided != "" {
			text += " NOT decided (value-level, left to other technique families): " + p.NotDecided
		}
		tech := techniques[id]
		if tech == "" {
			tech = "static analysis over go/ssa: " + strings.Join(rules, ", ")
		}
		checks = append(checks, check{
			PropertyID: id,
			Quick:      "bin/htsverif check " + id + " --tier quick",
			Thorough:   "bin/htsverif check " + id + " --tier thorough",
			Evidence:   "/verif/evidence/" + id + ".json",
			Replay:     "bin/htsverif replay {path}",
			Engine:     "htsverif",
			Level:      level{Category: p.Level, Text: text, DesignRef: "DESIGN.md §4 " + id},
			Note:       "Trusted: Go type checker, go/ssa construction (x/tools v0.29.0), call-graph construction, the spec constants and library contracts frozen in tool/*.go; " + strings.Join(p.Assumptions, "; "),
			Technique:  tech,
		})
	}
	nas := []na{} // never null in the JSON: the schema wants an array
	var naIDs []string
	for id := range notApplicable {
		naIDs = append(naIDs, id)
	}
	sort.Strings(naIDs)
	for _, id := range naIDs {
		if registry[id] == nil {
			nas = append(nas, na{id, notApplicable[id]})
		}
	}
	m := map[string]any{
		"version":   1,
		"setup_cmd": "cd /verif/tool && " + goEnvPrefix + " go build -o /verif/bin/htsverif .",
		"hooks": map[string]any{
			"guard":            "verif",
			"enable":           "none needed: the checks read /repo's source (go/packages, default build configuration); no instrumentation is compiled in",
			"baseline_off_cmd": "cd /repo && " + goEnvPrefix + " go test -vet=off -count=1 -timeout 25m ./...",
			"source_commits":   []string{},
			"add_only":         true,
		},
		"engines": []map[string]any{{
			"name": "htsverif", "path": "tool", "serves_properties": ids,
			"kind_free_text": "repository-specific static analyser over go/packages + go/ssa (x/tools v0.29.0): path/pairing rules, lock discipline, ownership, error discipline, decoder guards, wire/table agreement, bit-provenance abstract interpretation",
		}},
		"checks":         checks,
		"not_applicable": nas,
		"notes":          "One analyser binary; every check loads /repo's current working tree, decides its obligations from the type-checked source / SSA and writes evidence/<id>.json. known_findings.txt lists genuine defects recorded rather than repaired, and the repaired ones as fixed: lines. See DESIGN.md.",
	}
	b, _ := json.MarshalIndent(m, "", " ")
	fmt.Println(string(b))
}

func init() {
	// Properties without a registered check, with the reason. (A registered
	// property is always listed as claimed; entries here only matter for ids
	// that have no PropDef.) All twenty properties have a check now: C17 is
	// claimed for its structural part only (see tool/c17.go).
	for id, why := range map[string]string{} {
		notApplicable[id] = why
	}
}
