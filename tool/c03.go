// C03: block caches are transparent – ownership of blocks between reader and
// cache, and lock discipline around Reader.cache.
package main

func init() {
	var la *lockAnalysis
	var laCtx *Ctx
	getLA := func(c *Ctx) *lockAnalysis {
		if la == nil || laCtx != c {
			la = newLockAnalysis(c, []string{"bgzf", "bgzf/cache"})
			laCtx = c
		}
		return la
	}
	var om *ownModel
	var omCtx *Ctx
	getOM := func(c *Ctx) *ownModel {
		if om == nil || omCtx != c {
			om, omCtx = newOwnModel(c, htsOwnCfg), c
		}
		return om
	}
	register(&PropDef{
		ID: "C03", Title: "Block caches are transparent: same reads with any cache, capacity and read-ahead", Level: "other",
		Rules: []RuleDef{
			{Name: "OWN-1", What: "a block handed to the cache (Cache.Put directly or through cachePut/keep, recognised by summary) is not used afterwards unless the cache reported it as not retained; Reader.current is re-assigned before any use and before return", Floor: 4,
				Run: func(c *Ctx, r *Rep, tier string) { getOM(c).ruleMovedMeansGone(r, "OWN-1") },
				Canary: func(cc *Ctx, r *Rep) {
					newOwnModel(cc, ownCfg{pkg: "ownc", reader: "Reader", current: "current", cacheIface: "Cache", blockIface: "Block", using: "using", decType: "dec", mutators: htsOwnCfg.mutators}).ruleMovedMeansGone(r, "OWN-1")
				}, WantFail: []string{"ownc.(*Reader).BadSeek#put:ownc.(*Reader).keep", "ownc.(*Reader).BadSwap#put:ownc.(*Reader).cachePut"}, WantPassMin: 2},
			{Name: "OWN-2", What: "every Cache implementation's Get deletes the table entry of the block it returns", Floor: 4,
				Run: func(c *Ctx, r *Rep, tier string) { ruleGetHandsOver(c, r, "OWN-2", discoverCaches(c, hts_cacheCfg)) }},
			{Name: "OWN-3", What: "a block obtained from Cache.Get reaches the reader only after ownedBy(reader) was tested", Floor: 1,
				Run: func(c *Ctx, r *Rep, tier string) { getOM(c).ruleOwnershipTest(r, "OWN-3") }},
			{Name: "LOCK-2", What: "Reader.cache (and the writer's error latch) are accessed only with their mutex held, in every function including the read-ahead goroutine", Floor: 8,
				Run: func(c *Ctx, r *Rep, tier string) {
					cfg := buildLockCfg(c, "bgzf")
					getLA(c).ruleGuarded(r, "LOCK-2", cfg)
				}},
			{Name: "LOCK-1", What: "no re-acquisition of a held mutex in bgzf and bgzf/cache", Floor: 20,
				Run: func(c *Ctx, r *Rep, tier string) { getLA(c).ruleNoReacquire(r, "LOCK-1") }},
			{Name: "LOCK-3", What: "every acquisition released on every path (bgzf, bgzf/cache)", Floor: 30,
				Run: func(c *Ctx, r *Rep, tier string) { getLA(c).ruleReleaseOnExit(r, "LOCK-3") }},
			{Name: "LOCK-4", What: "the held→acquired graph over Reader.mu, Writer.m and the cache mutexes (dynamic Cache calls resolved to every implementation) is acyclic", Floor: 3,
				Run: func(c *Ctx, r *Rep, tier string) { getLA(c).ruleLockOrder(r, "LOCK-4") }},
			{Name: "KEY-BASE", What: "every cache table entry is made under the Base() of the block it holds; a node's block is set only when the node is created (added after a blind second seed round)", Floor: 4, Run: ruleKeyBase},
			{Name: "CACHE-PUT-CAP", What: "Put inserts only with room left or after an eviction; with the table full an unused block is handed back (shared with C14)", Floor: 4,
				Run: func(c *Ctx, r *Rep, tier string) {
					rulePutCapacity(c, r, "CACHE-PUT-CAP", "CACHE-PUT-REFUSE", discoverCaches(c, hts_cacheCfg))
				}},
			{Name: "CACHE-PUT-REFUSE", What: "with the table full, an unused block is handed back as (b,false) without eviction or insertion", Floor: 3,
				Run: func(c *Ctx, r *Rep, tier string) {}},
			{Name: "EVICT-MATCH", What: "the block Put reports as evicted is the block whose entry it removed (shared with C14)", Floor: 4, Run: ruleEvictMatch},
			{Name: "CACHE-REWIND", What: "a block served from the cache is rewound to its start on every path (shared with C13)", Floor: 1, Run: ruleCacheRewind},
			{Name: "HASDATA-GUARD", What: "nothing is handed to Cache.Put unless hasData() was found true on the way (added after sixth-round seed C03-h)", Floor: 2, Run: ruleHasDataGuard},
			{Name: "PATH-BLOCKSEEK", What: "(*block).seek positions the buffer on every path (shared with C02; under C03 since sixth-round seed C03-g: a skipped seek(0) makes a cached block look empty)", Floor: 2, Run: ruleBlockSeek},
			{Name: "SEEK-REDIRECT", What: "a Seek served from the cache redirects the read-ahead worker (or is limited to the synchronous mode)", Floor: 1, Run: ruleSeekRedirect},
			{Name: "PATH-NEXTBLOCK", What: "nextBlock reports a read-ahead result (data or error) only for the block whose base was wanted: with a cache the goroutine skips cached members and can be at the end of the file while the Reader is behind it (shared with C02, C09; here since fourteenth-round seed C03-o)", Floor: 1, Run: ruleNextBlock},
			{Name: "PATH-SEEK", What: "Seek sets lastChunk = {off,off} on every successful return, also the one served from the cache: LastChunk, Begin and a transaction opened next report the same interval with and without a cache (shared with C02, C13; here since sixteenth-round seed C03-r)", Floor: 1, Run: rulePathSeek},
			{Name: "FAILED-CURRENT", What: "nextBlock makes the failed block current before it returns its error: a Seek afterwards, also one served from the cache, re-points the parked read-ahead goroutine (shared with C02, C09)", Floor: 1, Run: ruleFailedCurrent},
			{Name: "ERR-OVERWRITE", What: "a possibly failing store to Reader.err is read before the field is assigned again (shared with C09; the hang of seed C09-n needs a cache)", Floor: 2, Run: ruleErrOverwrite},
			{Name: "BLOCK-HOLDERS", What: "a Block is stored only into the holders the ownership rules follow (Reader.current, decompressor.blk, the caches' entries), and is never sent on a channel or put into a slice: OWN-1/2/3 are complete only for a closed list of holders (added after twelfth-round seed C03-m)", Floor: 3, Run: ruleBlockHolders},
			{Name: "KEEP-OTHER-BASE", What: "nextBlock puts a passed-over read-ahead result into the cache only where its base was found different from the wanted one: the synchronous fall-back steps over cached blocks and must not find the wanted one there (added after tenth-round seed C03-l)", Floor: 1, Run: ruleKeepOtherBase},
			{Name: "GEN-BIND", What: "read-ahead generations: a result read for the latest instruction never looks stale – the generation sent on control is the Reader's, the goroutine stamps it from the instruction whose offset it reads (shared with C09; a Seek served from the cache relies on it)", Floor: 2, Run: ruleGenBind},
			{Name: "SYNC-REDIRECT", What: "after nextBlock's synchronous fall-back (the read-ahead skipped a block that has since left the cache, or read one the Reader found in the cache) the goroutine is re-pointed on every path (shared with C09)", Floor: 1, Run: ruleSyncRedirect},
			{Name: "BASE-DROPS-DATA", What: "a block given a new base has no data (and cannot be cached) until a read into it succeeded", Floor: 2, Run: ruleBaseDropsData},
			{Name: "OWNER-ON-SUCCESS", What: "block.readFrom detaches the block before decoding into it and re-attaches it only when the decode succeeded (added after a blind second seed round)", Floor: 1, Run: ruleOwnerOnSuccess},
		},
		Explanation: "A block that is at the same time in a cache's table and in the reader's hands is recycled as the next decompression target while the table still maps its old base – exactly the wrong-data outcome the property forbids. OWN-1 (reader side, all hand-over sites, Reader.current tracked as one location, checked as an inductive invariant per function) and OWN-2 (cache side, all implementations) are the structural statement of \"never aliased\"; OWN-3 the cross-reader contamination test; LOCK-2 that the cache field is never read while SetCache writes it (including from the read-ahead goroutine); LOCK-1/3/4 that attaching a cache cannot make a call block for ever through lock misuse.",
		NotDecided:  "hit/miss policy effects, equality of LastChunk values with an uncached run, that a retained block's data is still intact when it is handed back (follows from OWN-1/2 only).",
		Assumptions: []string{"Block methods Read, ReadByte, seek, readFrom, setBase, setHeader, setOwner are the mutating ones (table in own1.go)"},
	})
}
