// Three C11 rules written for defects of the unchanged tree that a sixth-round
// sub-agent reported (all repaired):
//
//	CIGAR-SCAN   sam.ParseCigar: when the scan for the operation letter runs off
//	             the end of the text, the function returns – it does not go on to
//	             build an operation from the previous one's leftovers.
//	NIL-AUX      the result of AuxFields.Get (nil when the record has no such
//	             field) is not indexed: every method call on it, also through
//	             helpers it is handed to, is behind a nil test.
//	IDX-SIGN     in the index builders a reference id that comes from the record
//	             (an interface call) is shown non-negative before it indexes the
//	             list of references.
package main

import (
	"fmt"
	"go/token"
	"go/types"

	"golang.org/x/tools/go/ssa"
)

// ---- CIGAR-SCAN -----------------------------------------------------------------------

func ruleCigarScan(c *Ctx, r *Rep, tier string) {
	rule := "CIGAR-SCAN"
	fn := c.Func("sam", "ParseCigar")
	r.Instance(rule, 1)
	isLenOfText := func(v ssa.Value) bool {
		call, ok := v.(*ssa.Call)
		if !ok {
			return false
		}
		arg, ok := isLenCall(call)
		return ok && arg == ssa.Value(fn.Params[0])
	}
	// loop heads `phi < len(text)`; the inner one is dominated by the other
	var heads []*ssa.BasicBlock
	for _, b := range fn.Blocks {
		if iff := ifOf(b); iff != nil {
			if bo, ok := iff.Cond.(*ssa.BinOp); ok && bo.Op == token.LSS && isLenOfText(bo.Y) {
				if _, isPhi := bo.X.(*ssa.Phi); isPhi {
					heads = append(heads, b)
				}
			}
		}
	}
	var inner *ssa.BasicBlock
	for _, h := range heads {
		for _, g := range heads {
			if g != h && g.Dominates(h) {
				inner = h
			}
		}
	}
	why := ""
	if inner == nil {
		why = "the scan for the operation letter (a loop inside the loop over the text) was not found: undecided"
	} else {
		isOp := func(ins ssa.Instruction) bool {
			call, ok := ins.(*ssa.Call)
			if !ok {
				return false
			}
			g := staticCallee(&call.Call)
			return g != nil && g.Name() == "NewCigarOp"
		}
		scanCursor := ifOf(inner).Cond.(*ssa.BinOp).X
		// walk from the exhausted exit, following branches that a phi decides
		// by the edge it was entered through
		type st struct{ b, pred *ssa.BasicBlock }
		seen := map[st]bool{}
		var reach func(b, pred *ssa.BasicBlock) bool
		reach = func(b, pred *ssa.BasicBlock) bool {
			if seen[st{b, pred}] {
				return false
			}
			seen[st{b, pred}] = true
			for _, ins := range b.Instrs {
				if isOp(ins) {
					return true
				}
				if _, isRet := ins.(*ssa.Return); isRet {
					return false
				}
			}
			iff := ifOf(b)
			if iff != nil && b.Succs[0] != b.Succs[1] {
				cond, neg := iff.Cond, false
				if u, ok := cond.(*ssa.UnOp); ok && u.Op == token.NOT {
					cond, neg = u.X, true
				}
				// a test of the scan's own cursor against the text's length: on
				// this walk the scan was exhausted, the cursor is len(text)
				if bo, ok := cond.(*ssa.BinOp); ok && bo.X == scanCursor && isLenOfText(bo.Y) {
					truth, known := false, true
					switch bo.Op {
					case token.EQL, token.GEQ:
						truth = true
					case token.LSS, token.NEQ:
						truth = false
					default:
						known = false
					}
					if known {
						if neg {
							truth = !truth
						}
						if truth {
							return reach(b.Succs[0], b)
						}
						return reach(b.Succs[1], b)
					}
				}
				if p, ok := cond.(*ssa.Phi); ok && p.Block() == b && pred != nil {
					for i, pb := range b.Preds {
						if pb == pred {
							if k, isK := p.Edges[i].(*ssa.Const); isK && k.Value != nil {
								truth := k.Value.String() == "true"
								if neg {
									truth = !truth
								}
								if truth {
									return reach(b.Succs[0], b)
								}
								return reach(b.Succs[1], b)
							}
						}
					}
				}
			}
			for _, s := range b.Succs {
				if reach(s, b) {
					return true
				}
			}
			return false
		}
		if reach(inner.Succs[1], inner) {
			why = "when the text ends in digits the scan for the operation letter finds none, and the function goes on to build an operation anyway – from the count the previous operation left behind (zero or negative: NewCigarOp panics)"
		}
	}
	r.Check(why == "", rule, "sam.ParseCigar#scan-exhausted", c.Pos(fn.Pos()), "a length without operation letter ends in a return", why)
}

// ---- NIL-AUX --------------------------------------------------------------------------

func ruleNilAux(c *Ctx, r *Rep, tier string) {
	rule := "NIL-AUX"
	auxT := c.Named("sam", "Aux")
	// sources: module functions with result type Aux that can return nil
	var sources []*ssa.Function
	for _, fn := range c.SrcFuncs() {
		res := fn.Signature.Results()
		if res.Len() != 1 || !types.Identical(res.At(0).Type(), auxT) {
			continue
		}
		nilRet := false
		allInstrs(fn, func(ins ssa.Instruction) {
			if ret, ok := ins.(*ssa.Return); ok && isNilConst(retValue(ret, 0)) {
				nilRet = true
			}
		})
		if nilRet {
			sources = append(sources, fn)
		}
	}
	if len(sources) == 0 {
		r.Instance(rule, 1)
		r.Fail(rule, "sam#maybe-nil-aux", "-", "no function returning a possibly nil Aux found (AuxFields.Get): the rule's anchor moved")
		return
	}
	isSource := map[*ssa.Function]bool{}
	for _, s := range sources {
		isSource[s] = true
	}
	// values that may be a nil Aux
	type item struct {
		v  ssa.Value
		fn *ssa.Function
	}
	var work []item
	for _, fn := range c.SrcFuncs() {
		for _, f := range withAnon(fn) {
			f := f
			allInstrs(f, func(ins ssa.Instruction) {
				if call, ok := ins.(*ssa.Call); ok && isSource[staticCallee(&call.Call)] {
					work = append(work, item{call, f})
				}
			})
		}
	}
	seenParam := map[*ssa.Parameter]bool{}
	n := 0
	for len(work) > 0 {
		it := work[0]
		work = work[1:]
		for _, ref := range *it.v.Referrers() {
			call, ok := ref.(*ssa.Call)
			if !ok {
				continue
			}
			g := staticCallee(&call.Call)
			if g == nil || len(call.Call.Args) == 0 {
				continue
			}
			for ai, a := range call.Call.Args {
				if a != it.v {
					continue
				}
				isRecv := ai == 0 && g.Signature.Recv() != nil && types.Identical(g.Signature.Recv().Type(), auxT)
				if !isRecv {
					// handed to a helper: its parameter may be nil too
					if ai < len(g.Params) && len(g.Blocks) > 0 && modulePrefix(g) == modulePrefix(it.fn) && !seenParam[g.Params[ai]] {
						seenParam[g.Params[ai]] = true
						work = append(work, item{g.Params[ai], g})
					}
					continue
				}
				n++
				r.Instance(rule, 1)
				guarded := false
				for _, b := range it.fn.Blocks {
					ce, ok := classifyErrIf(b, func(v ssa.Value) bool { return v == it.v })
					if ok && ce.isNil && b.Succs[0] != b.Succs[1] && dominatedByEdge(it.fn, b, 1-ce.yes, call.Block()) {
						guarded = true
					}
				}
				// a length test protects as well: len(nil) is 0
				if !guarded {
					bc := &boundsCtx{c: c, fn: it.fn}
					guarded = bc.lenLB(it.v, call.Block(), 0) >= 1
				}
				key := fmt.Sprintf("%s#%s", c.FnName(it.fn), g.Name())
				r.Check(guarded, rule, key, c.Pos(call.Pos()), "behind a nil test of the field", fmt.Sprintf("%s() is called on an aux field that may be absent (AuxFields.Get returns nil): the method indexes the field's bytes and panics for a record that lacks the tag", g.Name()))
			}
		}
	}
	if n == 0 {
		r.Instance(rule, 1)
		r.Fail(rule, "sam#maybe-nil-aux-uses", "-", "no method call on a possibly absent aux field found: the rule's anchor moved")
	}
}

// ---- IDX-SIGN -------------------------------------------------------------------------

func ruleIdxSign(c *Ctx, r *Rep, tier string) {
	rule := "IDX-SIGN"
	n := 0
	for _, pkg := range []string{"internal", "csi", "tabix", "bam"} {
		for _, fn := range c.FuncsIn(pkg) {
			bc := &boundsCtx{c: c, fn: fn}
			idx := 0
			allInstrs(fn, func(ins ssa.Instruction) {
				ia, ok := ins.(*ssa.IndexAddr)
				if !ok {
					return
				}
				// an index that comes from the record: the result of an interface
				// call. (A parameter of an exported function is its caller's
				// business: the sort.Interface methods and ReferenceStats(id)
				// have documented ranges.)
				src := stripConv(ia.Index)
				call, isCall := src.(*ssa.Call)
				if !isCall || !call.Call.IsInvoke() {
					return
				}
				n++
				idx++
				r.Instance(rule, 1)
				key := fmt.Sprintf("%s#index:%s", c.FnName(fn), symKey(src))
				if idx > 1 {
					key += fmt.Sprintf("~%d", idx)
				}
				lb := bc.lowerBound(ia.Index, ia.Block(), 0)
				r.Check(lb >= 0, rule, key, c.Pos(ia.Pos()), "index shown non-negative on every path", fmt.Sprintf("%s indexes %s without having been shown non-negative: a record whose reference has no id (-1: parsed without a header) panics with index out of range [-1]", symKey(src), symKey(ia.X)))
			})
		}
	}
	// Second part (after the defect hunt of the seventh round: ReferenceStats(id)
	// for a reference the index does not have, Chunks with a negative start):
	// in an exported method with an ok or error result – one that can say "no" –
	// an index or slice bound computed from an integer parameter is shown to be
	// in range before it is used. The methods of sort.Interface and
	// heap.Interface are called by those packages with indices in range.
	for _, pkg := range []string{"internal", "csi", "tabix", "bam"} {
		for _, fn := range c.FuncsIn(pkg) {
			if fn.Parent() != nil || fn.Object() == nil || !fn.Object().Exported() || fn.Signature.Recv() == nil {
				continue
			}
			switch fn.Name() {
			case "Len", "Less", "Swap", "Push", "Pop":
				continue
			}
			res := fn.Signature.Results()
			canRefuse := false
			for i := 0; i < res.Len(); i++ {
				t := res.At(i).Type()
				if b, ok := t.Underlying().(*types.Basic); ok && b.Kind() == types.Bool {
					canRefuse = true
				}
				if types.Identical(t, types.Universe.Lookup("error").Type()) {
					canRefuse = true
				}
			}
			if !canRefuse {
				continue
			}
			bc := &boundsCtx{c: c, fn: fn}
			// does v derive from an integer parameter by arithmetic with constants and clamps?
			var fromParam func(v ssa.Value, depth int) *ssa.Parameter
			fromParam = func(v ssa.Value, depth int) *ssa.Parameter {
				if depth > 6 {
					return nil
				}
				switch x := stripConv(v).(type) {
				case *ssa.Parameter:
					if b, ok := x.Type().Underlying().(*types.Basic); ok && b.Info()&types.IsInteger != 0 && b.Info()&types.IsUnsigned == 0 && x != fn.Params[0] {
						return x
					}
				case *ssa.BinOp:
					if _, isK := x.Y.(*ssa.Const); isK {
						return fromParam(x.X, depth+1)
					}
				case *ssa.Phi:
					for _, e := range x.Edges {
						if p := fromParam(e, depth+1); p != nil {
							return p
						}
					}
				}
				return nil
			}
			idx := 0
			check := func(at ssa.Instruction, index, of ssa.Value, isIndex bool) {
				p := fromParam(index, 0)
				if p == nil {
					return
				}
				n++
				idx++
				r.Instance(rule, 1)
				key := fmt.Sprintf("%s#param-index:%s", c.FnName(fn), paramKey(p))
				if idx > 1 {
					key += fmt.Sprintf("~%d", idx)
				}
				if lb := bc.lowerBound(index, at.Block(), 0); lb < 0 {
					r.Fail(rule, key, c.Pos(at.Pos()), fmt.Sprintf("%s, computed from the caller's %s, indexes %s without having been shown non-negative: the method has a result to say no with, and panics instead (a reference id of -1, a region that starts before the reference)", symKey(index), paramKey(p), symKey(of)))
					return
				}
				if isIndex && stripConv(index) == ssa.Value(p) {
					// the parameter itself as index: also below the length
					below := false
					for _, b := range fn.Blocks {
						iff := ifOf(b)
						if iff == nil || b.Succs[0] == b.Succs[1] {
							continue
						}
						bo, ok := iff.Cond.(*ssa.BinOp)
						if !ok {
							continue
						}
						isLenOf := func(v ssa.Value) bool {
							a, ok := isLenCall(v)
							return ok && sameExpr(a, of, 0)
						}
						edge := -1
						switch {
						case stripConv(bo.X) == ssa.Value(p) && isLenOf(bo.Y):
							switch bo.Op {
							case token.LSS:
								edge = 0
							case token.GEQ:
								edge = 1
							}
						case isLenOf(bo.X) && stripConv(bo.Y) == ssa.Value(p):
							switch bo.Op {
							case token.GTR:
								edge = 0
							case token.LEQ:
								edge = 1
							}
						}
						if edge >= 0 && dominatedByEdge(fn, b, edge, at.Block()) {
							below = true
						}
					}
					if !below {
						r.Fail(rule, key, c.Pos(at.Pos()), fmt.Sprintf("the caller's %s indexes %s without having been compared with its length: an index with fewer references than the header makes the method panic although it has a result to say no with", paramKey(p), symKey(of)))
						return
					}
				}
				r.Pass(rule, key, c.Pos(at.Pos()), "shown in range on every path")
			}
			allInstrs(fn, func(ins ssa.Instruction) {
				switch x := ins.(type) {
				case *ssa.IndexAddr:
					of := x.X
					if ld, ok := of.(*ssa.UnOp); ok {
						of = ld
					}
					check(ins, x.Index, of, true)
				case *ssa.Slice:
					if x.Low != nil {
						check(ins, x.Low, x.X, false)
					}
				}
			})
		}
	}
	if n < 2 {
		r.Instance(rule, 1)
		r.Fail(rule, "index#external-indices", "-", fmt.Sprintf("only %d indices taken from the record found in the index packages (2 confirmed by reading): the rule's anchor moved", n))
	}
}
