// C19: FAI index and File – structural part.
package main

import (
	"fmt"
	"go/token"
	"go/types"
	"math"
	"regexp"
	"strings"

	"golang.org/x/tools/go/ssa"
)

// ---- COL-FAI: writer columns = reader columns -------------------------------------------

var verbRE = regexp.MustCompile(`%[-+# 0-9.]*[a-zA-Z]`)

func ruleColFai(c *Ctx, r *Rep, tier string) {
	rule := "COL-FAI"
	wfn, rfn := c.Func("fai", "WriteTo"), c.Func("fai", "ReadFrom")
	// writer: the Fprintf call
	var format string
	var wFields []string
	var wPos token.Pos
	nCalls := 0
	allInstrs(wfn, func(ins ssa.Instruction) {
		call, ok := ins.(*ssa.Call)
		if !ok {
			return
		}
		g := staticCallee(&call.Call)
		if g == nil || g.Pkg == nil || g.Pkg.Pkg.Path() != "fmt" || g.Name() != "Fprintf" {
			return
		}
		nCalls++
		wPos = call.Pos()
		format, _ = constStringOf(call.Call.Args[1])
		for _, e := range varargElems(call.Call.Args[2]) {
			f, _ := loadedField(e)
			if f == nil {
				wFields = append(wFields, "?"+symKey(e))
			} else {
				wFields = append(wFields, f.Name())
			}
		}
	})
	r.Instance(rule, 1)
	verbs := verbRE.FindAllString(format, -1)
	seps := verbRE.Split(format, -1)
	why := ""
	if nCalls != 1 {
		why = fmt.Sprintf("%d Fprintf calls in WriteTo", nCalls)
	} else if len(verbs) != len(wFields) {
		why = fmt.Sprintf("format %q has %d verbs for %d arguments", format, len(verbs), len(wFields))
	} else {
		for i, s := range seps {
			want := "\t"
			if i == 0 {
				want = ""
			} else if i == len(seps)-1 {
				want = "\n"
			}
			if s != want {
				why += fmt.Sprintf(" separator %d is %q, want %q;", i, s, want)
			}
		}
	}
	r.Check(why == "", rule, "fai.WriteTo#line-shape", c.Pos(wPos), fmt.Sprintf("one line per record: %d tab-separated columns %v, newline-terminated", len(verbs), wFields), why)

	// reader: which column feeds which field
	rCols := map[string]int{}
	bases := map[string]int64{}
	var csvRead *ssa.Call
	allInstrs(rfn, func(ins ssa.Instruction) {
		if call, ok := ins.(*ssa.Call); ok {
			if g := staticCallee(&call.Call); g != nil && g.Name() == "Read" && g.Pkg != nil && g.Pkg.Pkg.Path() == "encoding/csv" {
				csvRead = call
			}
		}
	})
	if csvRead == nil {
		unresolved("fai.ReadFrom: no csv Read call")
	}
	fromRec := func(v ssa.Value) bool {
		ex, ok := strip(v).(*ssa.Extract)
		return ok && ex.Tuple == ssa.Value(csvRead) && ex.Index == 0
	}
	recT := c.Named("fai", "Record")
	allInstrs(rfn, func(ins ssa.Instruction) {
		st, ok := ins.(*ssa.Store)
		if !ok {
			return
		}
		fa, ok := st.Addr.(*ssa.FieldAddr)
		if !ok {
			return
		}
		al, ok := fa.X.(*ssa.Alloc)
		if !ok || !types.Identical(al.Type().(*types.Pointer).Elem(), recT) {
			return
		}
		f := fieldVarOfAddr(fa).Name()
		col := -1
		switch x := strip(st.Val).(type) {
		case *ssa.UnOp:
			if ia, ok := x.X.(*ssa.IndexAddr); ok && fromRec(ia.X) {
				if k, ok := constInt(ia.Index); ok {
					col = int(k)
				}
			}
		case *ssa.Call:
			g := staticCallee(&x.Call)
			if g != nil && strings.HasPrefix(g.Name(), "mustAtoi") && len(x.Call.Args) == 3 && fromRec(x.Call.Args[0]) {
				if k, ok := constInt(x.Call.Args[1]); ok {
					col = int(k)
				}
				// base of the conversion
				allInstrs(g, func(i2 ssa.Instruction) {
					if c2, ok := i2.(*ssa.Call); ok {
						if h := staticCallee(&c2.Call); h != nil && h.Name() == "ParseInt" {
							if b, ok := constInt(c2.Call.Args[1]); ok {
								bases[f] = b
							}
							// the text converted is fields[index]
							okArg := false
							if u, ok := c2.Call.Args[0].(*ssa.UnOp); ok {
								if ia, ok := u.X.(*ssa.IndexAddr); ok {
									_, p1 := ia.X.(*ssa.Parameter)
									_, p2 := ia.Index.(*ssa.Parameter)
									okArg = p1 && p2
								}
							}
							if !okArg {
								bases[f] = -1
							}
						}
					}
				})
			}
		}
		rCols[f] = col
	})
	for i, wf := range wFields {
		r.Instance(rule, 1)
		key := fmt.Sprintf("fai.WriteTo/ReadFrom#column-%d", i)
		col, ok := rCols[wf]
		why := ""
		switch {
		case !ok:
			why = fmt.Sprintf("column %d is written from Record.%s, which ReadFrom never fills", i, wf)
		case col != i:
			why = fmt.Sprintf("WriteTo writes Record.%s as column %d, ReadFrom takes it from column %d", wf, i, col)
		}
		if why == "" && i < len(verbs) {
			v := verbs[i][len(verbs[i])-1]
			if b, isInt := bases[wf]; isInt {
				if b != 10 || (v != 'd' && v != 'v') {
					why = fmt.Sprintf("column %d: written with %s, parsed in base %d", i, verbs[i], b)
				}
			} else if v != 's' && v != 'v' {
				why = fmt.Sprintf("column %d: a string field written with %s", i, verbs[i])
			}
		}
		r.Check(why == "", rule, key, c.Pos(wPos), fmt.Sprintf("Record.%s: written as column %d, read from column %d", wf, i, col), why)
	}
	// csv configuration
	r.Instance(rule, 1)
	{
		comma, fields := int64(-1), int64(-1)
		allInstrs(rfn, func(ins ssa.Instruction) {
			if st, ok := ins.(*ssa.Store); ok {
				if fa, ok := st.Addr.(*ssa.FieldAddr); ok {
					switch fieldVarOfAddr(fa).Name() {
					case "Comma":
						comma, _ = constInt(st.Val)
					case "FieldsPerRecord":
						fields, _ = constInt(st.Val)
					}
				}
			}
		})
		why := ""
		if comma != '\t' {
			why = fmt.Sprintf("reader splits on %q", rune(comma))
		} else if int(fields) != len(wFields) {
			why = fmt.Sprintf("reader demands %d fields, writer produces %d", fields, len(wFields))
		}
		r.Check(why == "", rule, "fai.ReadFrom#csv-config", c.Pos(rfn.Pos()), "tab separated, 5 fields per record", why)
	}
	// quoting: the reader's tokenizer gives '"' a meaning, the writer emits names raw
	r.Instance(rule, 1)
	{
		usesCsvWriter := false
		allInstrs(wfn, func(ins ssa.Instruction) {
			if cc := callCommon(ins); cc != nil {
				if g := staticCallee(cc); g != nil && g.Pkg != nil && g.Pkg.Pkg.Path() == "encoding/csv" {
					usesCsvWriter = true
				}
			}
		})
		lazy := false
		allInstrs(rfn, func(ins ssa.Instruction) {
			if st, ok := ins.(*ssa.Store); ok {
				if fa, ok := st.Addr.(*ssa.FieldAddr); ok && fieldVarOfAddr(fa).Name() == "LazyQuotes" {
					lazy = true
				}
			}
		})
		_ = lazy // LazyQuotes does not help for a name that starts with a quote
		r.Check(usesCsvWriter, rule, "fai.ReadFrom#csv-quotes", c.Pos(csvRead.Pos()), "writer and reader agree on quoting", "ReadFrom tokenises with encoding/csv, for which '\"' opens or breaks a field, while WriteTo prints the name verbatim: an index with a sequence name containing a double quote cannot be read back")
	}
}

// ---- CUR-FAI / ROLE-FAI: NewIndex's byte accounting ------------------------------------------

func ruleCurFai(c *Ctx, r *Rep, tier string) {
	rule := "CUR-FAI"
	fn := c.Func("fai", "NewIndex")
	var scan *ssa.Call
	allInstrs(fn, func(ins ssa.Instruction) {
		if call, ok := ins.(*ssa.Call); ok {
			if g := staticCallee(&call.Call); g != nil && g.Name() == "Scan" && g.Pkg != nil && g.Pkg.Pkg.Path() == "bufio" {
				scan = call
			}
		}
	})
	if scan == nil {
		unresolved("fai.NewIndex: no Scanner.Scan call")
	}
	var off *ssa.Phi
	for _, ins := range scan.Block().Instrs {
		if p, ok := ins.(*ssa.Phi); ok && isInt64(p.Type()) {
			off = p
		}
	}
	if off == nil {
		unresolved("fai.NewIndex: no loop-carried int64 (the running file offset) at the Scan loop head")
	}
	rawLen := func(v ssa.Value) bool {
		return symKey(v) == "len("+symKey(scan.Call.Args[0])+".Bytes())"
	}
	// every edge into the loop head from inside the loop carries offset + len(raw line)
	for i, e := range off.Edges {
		pred := off.Block().Preds[i]
		if k, ok := constInt(e); ok && k == 0 && !scan.Block().Dominates(pred) {
			continue // entry
		}
		r.Instance(rule, 1)
		key := fmt.Sprintf("fai.NewIndex#offset-edge~%d", i)
		ok := false
		if bo, isBo := e.(*ssa.BinOp); isBo && bo.Op == token.ADD {
			if (bo.X == ssa.Value(off) && rawLen(bo.Y)) || (bo.Y == ssa.Value(off) && rawLen(bo.X)) {
				ok = true
			}
		}
		pos := c.Pos(fn.Pos())
		if len(pred.Instrs) > 0 {
			pos = c.Pos(pred.Instrs[len(pred.Instrs)-1].Pos())
		}
		r.Check(ok, rule, key, pos, "this way round the loop adds the raw length of the scanned line to offset exactly once", fmt.Sprintf("on the loop edge from block %d offset becomes %s, not offset + len(sc.Bytes()): the Start of every later record is off by the bytes of the lines that take this way (blank lines, for instance)", pred.Index, symKey(e)))
	}

	// roles: Start = offset + raw length (at the header line); BytesPerLine from raw,
	// BasesPerLine and Length from the trimmed line
	raw := "len(" + symKey(scan.Call.Args[0]) + ".Bytes())"
	trimmed := "len(TrimSpace(" + symKey(scan.Call.Args[0]) + ".Bytes()))"
	want := map[string][]string{
		"Start":        {pAtom(symKey(off)).add(pAtom(raw), 1).canon()},
		"BytesPerLine": {pAtom(raw).canon()},
		"BasesPerLine": {pAtom(trimmed).canon()},
		"Length":       {pAtom(trimmed).add(pAtom("local:Record.Length"), 1).canon()},
	}
	seen := map[string]int{}
	allInstrs(fn, func(ins ssa.Instruction) {
		st, ok := ins.(*ssa.Store)
		if !ok {
			return
		}
		fa, ok := st.Addr.(*ssa.FieldAddr)
		if !ok {
			return
		}
		al, ok := fa.X.(*ssa.Alloc)
		if !ok || !isRecordVar(al) {
			return
		}
		f := fieldVarOfAddr(fa).Name()
		w, isRole := want[f]
		if !isRole {
			return
		}
		r.Instance(rule, 1)
		seen[f]++
		got := polyOf(st.Val, nil).canon()
		r.Check(got == w[0], rule, fmt.Sprintf("fai.NewIndex#rec.%s~%d", f, seen[f]), c.Pos(st.Pos()), "rec."+f+" = "+w[0], fmt.Sprintf("rec.%s is assigned %s, want %s (raw line length counts the terminator bytes, the trimmed length counts bases)", f, got, w[0]))
	})
	for f := range want {
		if seen[f] == 0 {
			r.Instance(rule, 1)
			r.Fail(rule, "fai.NewIndex#rec."+f+"~1", c.Pos(fn.Pos()), "rec."+f+" is never assigned")
		}
	}
	// Length grows exactly once per sequence line: paths of the loop body that reach the next Scan
	r.Instance(rule, 1)
	{
		w := NewWalker(c)
		w.MaxVisits = 1
		w.Effect = func(ins ssa.Instruction) (string, bool) {
			if st, ok := ins.(*ssa.Store); ok {
				if fa, ok := st.Addr.(*ssa.FieldAddr); ok {
					if al, ok := fa.X.(*ssa.Alloc); ok && isRecordVar(al) {
						switch fieldVarOfAddr(fa).Name() {
						case "Length":
							return "length", true
						case "Start":
							return "start", true
						}
						return "", false
					}
				}
				// rec = Record{} : a whole-struct reset
				if al, ok := st.Addr.(*ssa.Alloc); ok && isRecordVar(al) {
					return "reset", true
				}
			}
			if ins == ssa.Instruction(scan) {
				return "scan", true
			}
			return "", false
		}
		w.Stop = func(ins ssa.Instruction) bool { return ins == ssa.Instruction(scan) }
		bad := ""
		n := 0
		body := scan.Block().Succs[0]
		for _, pe := range w.Walk(fn, Loc{body, -1}) {
			if pe.At != ssa.Instruction(scan) {
				continue // error returns
			}
			n++
			l, s := pe.Counts["length"], pe.Counts["start"]
			// a line is blank (neither), a header line (Start once, Length untouched or reset), or a sequence line (Length once)
			if !((l == 0 && s == 0) || (l == 0 && s == 1) || (l == 1 && s == 0)) {
				bad = fmt.Sprintf("path %s: %d assignments of Length and %d of Start in one line", traceStr(pe.Trace), l, s)
			}
		}
		if n < 3 {
			bad = fmt.Sprintf("only %d ways round the loop found", n)
		}
		r.Check(bad == "", rule, "fai.NewIndex#per-line", c.Pos(scan.Pos()), fmt.Sprintf("%d ways round the loop: a line assigns Start once (header), Length once (sequence) or neither (blank)", n), bad)
	}
}

// ---- GEOM-ACCEPT ------------------------------------------------------------------------------

func ruleGeomAccept(c *Ctx, r *Rep, tier string) {
	rule := "GEOM-ACCEPT"
	fn := c.Func("fai", "ReadFrom")
	var start *ssa.Store
	var accept *ssa.MapUpdate
	allInstrs(fn, func(ins ssa.Instruction) {
		if st, ok := ins.(*ssa.Store); ok {
			// the record variable r is filled field by field or from a composite
			// literal, depending on the go/ssa version: the last such store counts
			if al, ok := st.Addr.(*ssa.Alloc); ok && isRecordVar(al) {
				start = st
			}
			if fa, ok := st.Addr.(*ssa.FieldAddr); ok {
				if al, ok := fa.X.(*ssa.Alloc); ok && isRecordVar(al) {
					start = st
				}
			}
		}
		if mu, ok := ins.(*ssa.MapUpdate); ok {
			accept = mu
		}
	})
	if start == nil || accept == nil {
		var seen []string
		allInstrs(fn, func(ins ssa.Instruction) {
			if st, ok := ins.(*ssa.Store); ok {
				seen = append(seen, fmt.Sprintf("%T:%s", st.Addr, symKey(st.Addr)))
			}
		})
		unresolved("fai.ReadFrom: record variable r (%v) / map insertion (%v) not found; stores: %v", start != nil, accept != nil, seen)
	}
	r.Instance(rule, 1)
	vals := []int64{-1, 0, 1, 2, 3}
	why := ""
	n, nProd := 0, 0
	rejectsBad := map[string]bool{}
outer:
	for _, L := range vals {
		for _, S := range vals {
			for _, B := range vals {
				for _, Y := range vals {
					env := map[string]int64{"local:Record.Length": L, "local:Record.Start": S, "local:Record.BasesPerLine": B, "local:Record.BytesPerLine": Y}
					sr := symExecAt(fn, locOf(start), func(i ssa.Instruction) bool { return i == ssa.Instruction(accept) }, env)
					n++
					if sr.Undec != "" {
						why = "acceptance depends on " + sr.Undec + ", not only on comparisons of the four numeric columns"
						break outer
					}
					accepted := sr.Stopped != nil
					// what NewIndex can produce: no sequence lines at all, or lines of B ≥ 1 bases in Y ≥ B bytes holding L ≥ 1 bases
					producible := L >= 0 && S >= 0 && ((B == 0 && Y == 0 && L == 0) || (B >= 1 && Y >= B && L >= 1))
					if producible {
						nProd++
						if !accepted {
							why += fmt.Sprintf(" Length=%d Start=%d BasesPerLine=%d BytesPerLine=%d is rejected, but NewIndex produces such records (a last line without terminator has BytesPerLine == BasesPerLine);", L, S, B, Y)
							if len(why) > 400 {
								break outer
							}
						}
					}
					// what Seq.Read cannot survive
					if !accepted {
						continue
					}
					switch {
					case L < 0:
						rejectsBad["Length < 0"] = true
					case S < 0:
						rejectsBad["Start < 0"] = true
					case B < 0:
						rejectsBad["BasesPerLine < 0"] = true
					case L > 0 && B == 0:
						rejectsBad["Length > 0 with BasesPerLine == 0 (Seq.Read makes no progress)"] = true
					case Y < B:
						rejectsBad["BytesPerLine < BasesPerLine"] = true
					}
				}
			}
		}
	}
	for k := range rejectsBad {
		why += " accepts " + k + ";"
	}
	r.Check(why == "", rule, "fai.ReadFrom#geometry", c.Pos(start.Pos()), fmt.Sprintf("%d orderings of the four columns: all %d producible geometries accepted, impossible ones rejected", n, nProd), why)
	// the comparisons only involve constants the domain {-1..3} separates
	r.Instance(rule, 1)
	{
		bad := ""
		// constants of the acceptance test: those the domain {-1..3} separates,
		// and the largest integer (overflow guards, which no geometry of a real
		// file comes near and which OFFSET-FITS of C11 examines)
		var consts func(v ssa.Value, depth int, out *[]int64)
		consts = func(v ssa.Value, depth int, out *[]int64) {
			if depth > 8 {
				return
			}
			switch x := v.(type) {
			case *ssa.Const:
				if k, ok := constInt(x); ok {
					*out = append(*out, k)
				}
			case *ssa.BinOp:
				consts(x.X, depth+1, out)
				consts(x.Y, depth+1, out)
			case *ssa.Convert:
				consts(x.X, depth+1, out)
			}
		}
		allInstrs(fn, func(ins ssa.Instruction) {
			bo, ok := ins.(*ssa.BinOp)
			if !ok {
				return
			}
			switch bo.Op {
			case token.EQL, token.NEQ, token.LSS, token.LEQ, token.GTR, token.GEQ:
			default:
				return
			}
			if !strings.Contains(symKey(bo), "local:Record.") {
				return
			}
			var ks []int64
			consts(bo, 0, &ks)
			for _, k := range ks {
				if (k < -1 || k > 2) && k != math.MaxInt64 {
					bad = fmt.Sprintf("%s involves the constant %d: outside the enumerated domain", symKey(bo), k)
				}
			}
		})
		r.Check(bad == "", rule, "fai.ReadFrom#domain", c.Pos(fn.Pos()), "constants in the acceptance test lie within the enumerated domain", bad)
	}
}

// ruleSeqLineAccept (part of GEOM-ACCEPT): NewIndex's handling of a sequence
// line, evaluated over every line shape a well-formed file can present – it
// must go on to the next line, never return an error. Added after a
// second-round seed (a "terminator consistency" test that also fires for a
// full-width last line without final newline) was missed.
func ruleSeqLineAccept(c *Ctx, r *Rep, tier string) {
	rule := "GEOM-ACCEPT"
	fn := c.Func("fai", "NewIndex")
	var scan *ssa.Call
	allInstrs(fn, func(ins ssa.Instruction) {
		if call, ok := ins.(*ssa.Call); ok {
			if g := staticCallee(&call.Call); g != nil && g.Name() == "Scan" && g.Pkg != nil && g.Pkg.Pkg.Path() == "bufio" {
				scan = call
			}
		}
	})
	if scan == nil {
		unresolved("fai.NewIndex: no Scan")
	}
	// the test "b[0] == '>'": its false successor starts the sequence-line branch
	var seqStart *ssa.BasicBlock
	for _, b := range fn.Blocks {
		iff := ifOf(b)
		if iff == nil {
			continue
		}
		if bo, ok := iff.Cond.(*ssa.BinOp); ok && bo.Op == token.EQL {
			if k, isK := constInt(bo.Y); isK && k == '>' {
				seqStart = b.Succs[1]
			}
		}
	}
	if seqStart == nil {
		unresolved("fai.NewIndex: header-line test not found")
	}
	sc := symKey(scan.Call.Args[0])
	raw, trimmed := "len("+sc+".Bytes())", "len(TrimSpace("+sc+".Bytes()))"
	r.Instance(rule, 1)
	why := ""
	n := 0
	try := func(B, Y, lb, rawLen int64, what string) {
		n++
		env := map[string]int64{raw: rawLen, trimmed: lb, "local:Record.BytesPerLine": Y, "local:Record.BasesPerLine": B, "phi:bool": 0}
		sr := symExecAt(fn, Loc{seqStart, -1}, func(i ssa.Instruction) bool { return i == ssa.Instruction(scan) }, env)
		switch {
		case sr.Undec != "" && sr.Undec != "panic":
			if len(why) < 300 {
				why += " the handling of a sequence line depends on " + sr.Undec + ";"
			}
		case sr.Stopped == nil:
			if len(why) < 300 {
				why += fmt.Sprintf(" %s (line of %d bases in %d bytes, record so far %d bases per line in %d bytes) is refused;", what, lb, rawLen, B, Y)
			}
		}
	}
	for _, W := range []int64{1, 2, 3} {
		for _, T := range []int64{1, 2} {
			// first sequence line of a record
			for _, t := range []int64{T, 0} {
				try(0, 0, W, W+t, "a first sequence line")
			}
			// later lines: full or short, terminated like the first or (last line of the file) not at all
			for lb := int64(1); lb <= W; lb++ {
				for _, t := range []int64{T, 0} {
					what := "a full-width line"
					if lb < W {
						what = "a short last line"
					}
					if t == 0 {
						what += " at the end of a file without final newline"
					}
					try(W, W+T, lb, lb+t, what)
				}
			}
		}
	}
	r.Check(why == "", rule, "fai.NewIndex#sequence-line-shapes", c.Pos(seqStart.Instrs[0].Pos()), fmt.Sprintf("%d well-formed line shapes (widths 1–3, LF/CRLF, last line with and without terminator) all accepted", n), "NewIndex returns an error for a well-formed file:"+why)
}

// ---- POS-FORMULA ---------------------------------------------------------------------------------

// retsByGuard: the returns of fn, with the guard "BasesPerLine <= 0" edge they sit under (or not).
func returnsOutsideGuard(fn *ssa.Function) (out []*ssa.Return, guard *ssa.BasicBlock) {
	for _, b := range fn.Blocks {
		iff := ifOf(b)
		if iff == nil {
			continue
		}
		if bo, ok := iff.Cond.(*ssa.BinOp); ok && (bo.Op == token.LEQ || bo.Op == token.LSS || bo.Op == token.EQL) && symKey(bo.X) == "$0.BasesPerLine" {
			if k, ok := constInt(bo.Y); ok && k <= 1 {
				guard = b
			}
		}
	}
	allInstrs(fn, func(ins ssa.Instruction) {
		ret, ok := ins.(*ssa.Return)
		if !ok {
			return
		}
		if guard != nil && dominatedByEdge(fn, guard, 0, ret.Block()) {
			return
		}
		out = append(out, ret)
	})
	return
}

func rulePosFormula(c *Ctx, r *Rep, tier string) {
	rule := "POS-FORMULA"
	B, Y, S, L, p := pAtom("$0.BasesPerLine"), pAtom("$0.BytesPerLine"), pAtom("$0.Start"), pAtom("$0.Length"), pAtom("$1")
	// position
	{
		fn := c.Func("fai", "(Record).position")
		r.Instance(rule, 1)
		want := S.add(pQuo(p, B).mul(Y), 1).add(pRem(p, B), 1)
		rets, _ := returnsOutsideGuard(fn)
		why := ""
		if len(rets) != 1 {
			why = fmt.Sprintf("%d returns outside the BasesPerLine <= 0 guard", len(rets))
		} else if got := polyOf(retValue(rets[0], 0), nil); !got.eq(want) {
			why = "position(p) = " + got.canon() + ", want " + want.canon()
		}
		r.Check(why == "", rule, "fai.(Record).position#formula", c.Pos(fn.Pos()), "Start + ⌊p/BasesPerLine⌋·BytesPerLine + p mod BasesPerLine", why)
	}
	// endOfLineOffset
	{
		fn := c.Func("fai", "(Record).endOfLineOffset")
		r.Instance(rule, 1)
		rets, _ := returnsOutsideGuard(fn)
		lastLine := pQuo(p, B).add(pQuo(L, B), -1) // zero on the last line
		wantLast := L.add(p, -1)
		wantFull := B.add(pRem(p, B), -1)
		why := ""
		var sel *ssa.BasicBlock
		yes := 0
		for _, b := range fn.Blocks {
			iff := ifOf(b)
			if iff == nil {
				continue
			}
			bo, ok := iff.Cond.(*ssa.BinOp)
			if !ok {
				continue
			}
			// line(p) ≤ line(Length) always, so "<" is "≠" and "≥" is "=":
			// every spelling of "p is on the last line" is accepted
			d := polyOf(bo.X, nil).add(polyOf(bo.Y, nil), -1)
			op := bo.Op
			if d.eq(poly{}.add(lastLine, -1)) {
				// operands the other way round: mirror the operator
				switch op {
				case token.LSS:
					op = token.GTR
				case token.GTR:
					op = token.LSS
				case token.LEQ:
					op = token.GEQ
				case token.GEQ:
					op = token.LEQ
				}
			} else if !d.eq(lastLine) {
				continue
			}
			switch op {
			case token.EQL, token.GEQ:
				sel, yes = b, 0
			case token.NEQ, token.LSS:
				sel, yes = b, 1
			}
		}
		if sel == nil {
			why = "no test 'p/BasesPerLine == Length/BasesPerLine' (is p on the last line?) found"
		} else if len(rets) != 2 {
			why = fmt.Sprintf("%d returns outside the guard, want 2", len(rets))
		} else {
			for _, ret := range rets {
				got := polyOf(retValue(ret, 0), nil)
				switch {
				case dominatedByEdge(fn, sel, yes, ret.Block()):
					if !got.eq(wantLast) {
						why += " on the last line it returns " + got.canon() + ", want " + wantLast.canon() + ";"
					}
				case dominatedByEdge(fn, sel, 1-yes, ret.Block()):
					if !got.eq(wantFull) {
						why += " on a full line it returns " + got.canon() + ", want " + wantFull.canon() + ";"
					}
				default:
					why += " a return is on neither side of the last-line test;"
				}
			}
		}
		r.Check(why == "", rule, "fai.(Record).endOfLineOffset#formula", c.Pos(fn.Pos()), "last line: Length − p; full line: BasesPerLine − p mod BasesPerLine", why)
	}
	// Position (exported): bounds 0 <= p < Length, then position(p)
	{
		fn := c.Func("fai", "(Record).Position")
		r.Instance(rule, 1)
		why := ""
		for _, pv := range []int64{-1, 0, 1, 2, 3} {
			for _, lv := range []int64{0, 1, 2} {
				sr := symExec(fn, map[string]int64{"$1": pv, "$0.Length": lv, "$0.position($1)": 77})
				inRange := pv >= 0 && pv < lv
				switch {
				case sr.Undec == "panic":
					if inRange {
						why += fmt.Sprintf(" panics for p=%d, Length=%d;", pv, lv)
					}
				case sr.Undec != "":
					why = "depends on " + sr.Undec
				default:
					if !inRange {
						why += fmt.Sprintf(" accepts p=%d for Length=%d;", pv, lv)
					} else if len(sr.Rets) != 1 || sr.Rets[0] != 77 {
						why += " does not return position(p);"
					}
				}
			}
		}
		r.Check(why == "", rule, "fai.(Record).Position#range", c.Pos(fn.Pos()), "panics unless 0 <= p < Length, else position(p)", why)
	}
}

// ---- READ-BOUND: Seq.Read ---------------------------------------------------------------------------

func isMinFunc(fn *ssa.Function) bool {
	if fn == nil || len(fn.Params) != 2 || len(fn.Blocks) == 0 {
		return false
	}
	for _, ab := range [][2]int64{{0, 1}, {1, 0}, {1, 1}} {
		sr := symExec(fn, map[string]int64{paramKey(fn.Params[0]): ab[0], paramKey(fn.Params[1]): ab[1]})
		m := ab[0]
		if ab[1] < m {
			m = ab[1]
		}
		if sr.Undec != "" || len(sr.Rets) != 1 || !sr.Known[0] || sr.Rets[0] != m {
			return false
		}
	}
	return true
}

// upperBounds: normal forms of expressions v is known to be ≤.
func upperBounds(v ssa.Value, depth int) map[string]bool {
	out := map[string]bool{}
	if depth > 8 {
		return out
	}
	switch x := v.(type) {
	case *ssa.Call:
		var args []ssa.Value
		if g := staticCallee(&x.Call); g != nil && isMinFunc(g) {
			args = x.Call.Args
		} else if b, ok := x.Call.Value.(*ssa.Builtin); ok && b.Name() == "min" {
			args = x.Call.Args
		}
		if args != nil {
			for _, a := range args {
				for k := range upperBounds(a, depth+1) {
					out[k] = true
				}
			}
			return out
		}
	case *ssa.Phi:
		first := true
		for _, e := range x.Edges {
			ub := upperBounds(e, depth+1)
			if first {
				out, first = ub, false
				continue
			}
			for k := range out {
				if !ub[k] {
					delete(out, k)
				}
			}
		}
		return out
	case *ssa.Convert:
		return upperBounds(x.X, depth+1)
	}
	out[polyOf(v, nil).canon()] = true
	return out
}

func ruleReadBound(c *Ctx, r *Rep, tier string) {
	rule := "READ-BOUND"
	fn := c.Func("fai", "(*Seq).Read")
	var call *ssa.Call
	allInstrs(fn, func(ins ssa.Instruction) {
		if cl, ok := ins.(*ssa.Call); ok && cl.Call.IsInvoke() && cl.Call.Method.Name() == "ReadAt" {
			call = cl
		}
	})
	if call == nil {
		unresolved("fai.(*Seq).Read: no ReadAt call")
	}
	curF, endF := c.Field("fai", "Seq", "cur"), c.Field("fai", "Seq", "end")
	storesCur := func(ins ssa.Instruction) bool {
		if st, ok := ins.(*ssa.Store); ok {
			if fa, ok := st.Addr.(*ssa.FieldAddr); ok && fieldVarOfAddr(fa) == curF {
				return true
			}
		}
		return false
	}
	// 1. the count
	r.Instance(rule, 1)
	{
		why := ""
		sl, ok := call.Call.Args[0].(*ssa.Slice)
		if !ok || sl.Low != nil || sl.High == nil {
			why = "the buffer handed to ReadAt is not b[:n]"
		} else {
			ub := upperBounds(sl.High, 0)
			need := map[string]string{
				pAtom("$0.Record.endOfLineOffset($0.cur)").canon():                                       "the bases left on the cursor's line (or the terminator bytes are returned as bases)",
				pAtom("len(" + symKey(sl.X) + ")").canon():                                               "the caller's buffer",
				pAtom("$0.Record.position($0.end)").add(pAtom("$0.Record.position($0.cur)"), -1).canon(): "the bytes up to the end of the requested range",
			}
			for k, what := range need {
				if !ub[k] {
					var have []string
					for h := range ub {
						have = append(have, h)
					}
					why += fmt.Sprintf(" the count is not bounded by %s (%s) on every path; bounds found: %v;", k, what, have)
				}
			}
		}
		r.Check(why == "", rule, "fai.(*Seq).Read#count", c.Pos(call.Pos()), "ReadAt count ≤ min(bases left on this line, bytes to range end, len(b)) on every path", why)
	}
	// 2. the offset is position(s.cur), s.cur unchanged between the three evaluations and the call
	r.Instance(rule, 1)
	{
		why := ""
		if symKey(call.Call.Args[1]) != "$0.Record.position($0.cur)" {
			why = "ReadAt offset is " + symKey(call.Call.Args[1]) + ", not position(s.cur)"
		}
		if di := defInstr(call.Call.Args[1]); di == nil || !instrDominates(di, call) {
			why = "the offset is not computed before the call that uses it"
		} else if s, found := pathTo(locOf(di), storesCur, is(call), nil); found {
			why = "s.cur is assigned at " + c.Pos(s.Pos()) + " between computing the offset and the ReadAt call"
		}
		nEnd := 0
		allInstrs(fn, func(ins ssa.Instruction) {
			if st, ok := ins.(*ssa.Store); ok {
				if fa, ok := st.Addr.(*ssa.FieldAddr); ok && (fieldVarOfAddr(fa) == endF || fieldVarOfAddr(fa).Name() == "Record") {
					nEnd++
				}
			}
		})
		if nEnd > 0 {
			why += " Read assigns s.end or s.Record;"
		}
		r.Check(why == "", rule, "fai.(*Seq).Read#offset", c.Pos(call.Pos()), "offset = position(s.cur), evaluated in the same iteration with s.cur unchanged", why)
	}
	// 3. cursor bookkeeping: s.cur += n, total += n, b = b[n:] with n the count ReadAt returned
	r.Instance(rule, 1)
	{
		var n0 ssa.Value
		for _, ref := range *call.Referrers() {
			if ex, ok := ref.(*ssa.Extract); ok && ex.Index == 0 {
				n0 = ex
			}
		}
		why := ""
		nStores := 0
		allInstrs(fn, func(ins ssa.Instruction) {
			if !storesCur(ins) {
				return
			}
			nStores++
			st := ins.(*ssa.Store)
			got := polyOf(st.Val, nil).canon()
			if n0 == nil || got != pAtom(symKey(n0)).add(pAtom("$0.cur"), 1).canon() {
				why += " s.cur is assigned " + got + ";"
			}
			if ins.Block() != call.Block() || !instrDominates(call, ins) {
				why += " s.cur is not advanced right after the ReadAt;"
			}
		})
		if nStores != 1 {
			why += fmt.Sprintf(" %d assignments of s.cur;", nStores)
		}
		// loop-carried b and n
		for _, ins := range fn.Blocks[0].Instrs {
			_ = ins
		}
		var bPhi, nPhi *ssa.Phi
		allInstrs(fn, func(ins ssa.Instruction) {
			if p, ok := ins.(*ssa.Phi); ok {
				// by role: the buffer parameter as it shrinks, and the running count (an int)
				switch symKey(p) {
				case "phi:$1":
					bPhi = p
				case "phi:int":
					nPhi = p
				}
			}
		})
		if bPhi == nil || nPhi == nil || n0 == nil {
			why += " loop-carried b / n not found;"
		} else {
			for i, e := range bPhi.Edges {
				if !call.Block().Dominates(bPhi.Block().Preds[i]) {
					continue
				}
				sl, ok := e.(*ssa.Slice)
				if !ok || sl.X != ssa.Value(bPhi) || sl.Low != n0 || sl.High != nil {
					why += " b is not advanced by the count read (b = b[n:]);"
				}
			}
			for i, e := range nPhi.Edges {
				if !call.Block().Dominates(nPhi.Block().Preds[i]) {
					continue
				}
				if polyOf(e, nil).canon() != pAtom(symKey(n0)).add(pAtom("phi:int"), 1).canon() {
					why += " the running total is not advanced by the count read;"
				}
			}
			// returns
			allInstrs(fn, func(ins ssa.Instruction) {
				ret, ok := ins.(*ssa.Return)
				if !ok || len(ret.Results) != 2 {
					return
				}
				cnt := polyOf(retValue(ret, 0), nil).canon()
				switch {
				case isEOFLoad(retValue(ret, 1)):
					if cnt != "1·phi:int" {
						why += " the count returned with io.EOF is " + cnt + ";"
					}
				case instrDominates(call, ret):
					if cnt != pAtom(symKey(n0)).add(pAtom("phi:int"), 1).canon() {
						why += " the count returned after a ReadAt is " + cnt + " (the bytes of the last ReadAt must be included);"
					}
				default:
					if cnt != "0" {
						why += " early return with count " + cnt + ";"
					}
				}
			})
		}
		r.Check(why == "", rule, "fai.(*Seq).Read#bookkeeping", c.Pos(fn.Pos()), "cursor, running total and buffer advance by the count ReadAt returned, before the error test; returned counts include it", why)
	}
	// 4. io.EOF only when cur >= end
	r.Instance(rule, 1)
	{
		why := "no return of io.EOF"
		allInstrs(fn, func(ins ssa.Instruction) {
			ret, ok := ins.(*ssa.Return)
			if !ok || len(ret.Results) != 2 || !isEOFLoad(retValue(ret, 1)) {
				return
			}
			why = "io.EOF is returned although bases of the range may remain (not on the exit edge of 's.cur < s.end')"
			for _, b := range fn.Blocks {
				iff := ifOf(b)
				if iff == nil {
					continue
				}
				bo, ok := iff.Cond.(*ssa.BinOp)
				if !ok {
					continue
				}
				x, y := symKey(bo.X), symKey(bo.Y)
				exit := -1
				switch {
				case bo.Op == token.LSS && x == "$0.cur" && y == "$0.end", bo.Op == token.GTR && x == "$0.end" && y == "$0.cur":
					exit = 1
				case bo.Op == token.GEQ && x == "$0.cur" && y == "$0.end", bo.Op == token.LEQ && x == "$0.end" && y == "$0.cur":
					exit = 0
				}
				if exit >= 0 && dominatedByEdge(fn, b, exit, ret.Block()) {
					why = ""
				}
			}
		})
		r.Check(why == "", rule, "fai.(*Seq).Read#eof", c.Pos(fn.Pos()), "io.EOF only on the exit edge of s.cur < s.end", why)
	}
	// 5. min is min
	r.Instance(rule, 1)
	r.Check(isMinFunc(c.Func("fai", "min")), rule, "fai.min#orderings", c.Pos(c.Func("fai", "min").Pos()), "min(a,b) for a<b, a>b, a=b", "fai.min does not return the smaller argument")
}

// ---- RANGE-GUARD: SeqRange / Seq ------------------------------------------------------------------------

func ruleRangeGuard(c *Ctx, r *Rep, tier string) {
	rule := "RANGE-GUARD"
	fn := c.Func("fai", "(*File).SeqRange")
	r.Instance(rule, 1)
	why := ""
	n := 0
	vals := []int64{-1, 0, 1, 2, 3}
outer:
	for _, s := range vals {
		for _, e := range vals {
			for _, l := range []int64{0, 1, 2} {
				for _, found := range []int64{0, 1} {
					env := map[string]int64{"$2": s, "$3": e, "$0.Index[$1]#0.Length": l, "$0.Index[$1]#1": found}
					sr := symExec(fn, env)
					n++
					if sr.Undec != "" {
						why = "depends on " + sr.Undec
						break outer
					}
					okRet := len(sr.Rets) == 2 && sr.Known[1] && sr.Rets[1] == 0
					want := found == 1 && 0 <= s && s <= e && e <= l
					if okRet != want {
						why += fmt.Sprintf(" start=%d end=%d Length=%d found=%d: success=%v, want %v;", s, e, l, found, okRet, want)
						if len(why) > 300 {
							break outer
						}
					}
					if okRet && want {
						eff := strings.Join(sr.Effects, "; ")
						for _, need := range []string{"local:complit.cur = $2", "local:complit.start = $2", "local:complit.end = $3", "local:complit.Record = $0.Index[$1]#0", "local:complit.r = $0.r"} {
							if !strings.Contains(eff, "store "+need) {
								why = "the Seq handle is not built with " + need + " (effects: " + eff + ")"
								break outer
							}
						}
					}
				}
			}
		}
	}
	r.Check(why == "", rule, "fai.(*File).SeqRange#orderings", c.Pos(fn.Pos()), fmt.Sprintf("%d orderings: succeeds iff the name exists and 0 <= start <= end <= Length; handle = {cur: start, start, end}", n), why)

	fn = c.Func("fai", "(*File).Seq")
	r.Instance(rule, 1)
	why = ""
	for _, found := range []int64{0, 1} {
		sr := symExec(fn, map[string]int64{"$0.Index[$1]#1": found})
		if sr.Undec != "" {
			why = "depends on " + sr.Undec
			break
		}
		okRet := len(sr.Rets) == 2 && sr.Known[1] && sr.Rets[1] == 0
		if okRet != (found == 1) {
			why += fmt.Sprintf(" found=%d: success=%v;", found, okRet)
		}
		if okRet {
			eff := strings.Join(sr.Effects, "; ")
			for _, need := range []string{"local:complit.end = $0.Index[$1]#0.Length", "local:complit.Record = $0.Index[$1]#0", "local:complit.r = $0.r"} {
				if !strings.Contains(eff, "store "+need) {
					why = "the Seq handle is not built with " + need + " (effects: " + eff + ")"
				}
			}
			for _, not := range []string{"local:complit.cur", "local:complit.start"} {
				if strings.Contains(eff, "store "+not) {
					why = "Seq sets " + not
				}
			}
		}
	}
	r.Check(why == "", rule, "fai.(*File).Seq#whole", c.Pos(fn.Pos()), "whole sequence: {cur: 0, start: 0, end: Length}", why)
}

func init() {
	register(&PropDef{
		ID: "C19", Title: "FAI index and File return exactly the requested subsequence", Level: "other",
		Rules: []RuleDef{
			{Name: "SCAN-LIMIT", What: "fai.NewIndex's line scanner has its token limit raised before the first Scan: a sequence written on one line of 64 KiB or more is a well-formed FASTA (the unchanged tree refused it; repaired f9b9f59)", Floor: 1, Run: ruleScanLimit([]string{"fai"})},
			{Name: "CSV-FIELDS", What: "ReadFrom asks encoding/csv for exactly the five columns it indexes (shared with C11)", Floor: 1, Run: ruleCSVFields},
			{Name: "COL-FAI", What: "WriteTo's columns and ReadFrom's columns are the same fields in the same order and base; csv configuration; quoting", Floor: 8, Run: ruleColFai},
			{Name: "CUR-FAI", What: "NewIndex: every way round the scan loop adds the raw line length to offset once; Start/BytesPerLine use raw lengths, BasesPerLine/Length trimmed lengths; one assignment per line", Floor: 7, Run: ruleCurFai},
			{Name: "GEOM-ACCEPT", What: "ReadFrom's acceptance test, over every ordering of the four numeric columns: accepts all geometries NewIndex produces, rejects those Seq.Read cannot survive; NewIndex accepts every well-formed sequence-line shape", Floor: 3, Run: func(c *Ctx, r *Rep, tier string) { ruleGeomAccept(c, r, tier); ruleSeqLineAccept(c, r, tier) }},
			{Name: "POS-FORMULA", What: "position / endOfLineOffset equal the layout formulas (polynomial normal form); Position's range check", Floor: 3, Run: rulePosFormula},
			{Name: "READ-BOUND", What: "Seq.Read: ReadAt count bounded by line rest, range end and buffer on every path; offset = position(cur); cursor/total/buffer advance by the returned count; io.EOF only at cur >= end", Floor: 5, Run: ruleReadBound},
			{Name: "RANGE-GUARD", What: "SeqRange succeeds iff 0 <= start <= end <= Length (all orderings) and builds the handle from its arguments; Seq covers [0, Length)", Floor: 2, Run: ruleRangeGuard},
			{Name: "PARSE-WIDTH", What: "the index columns are parsed with the bit size of the field they are stored in (int: 0, int64: 64): a smaller size refuses the line WriteTo wrote for a sequence of 2^31 bases or more (added after seventh-round seed C19-g)", Floor: 2, Run: ruleParseWidth([]string{"fai"}, 2)},
		},
		Explanation: "Reading a range is: translate base index to file offset (position), read at most to the end of the line/range/buffer, advance by what was read. The rules fix each of these by construction: the two layout formulas are compared, in polynomial normal form, with the .fai layout definition; the count handed to ReadAt has the three required upper bounds on every path (through verified min functions and phis); the cursor arithmetic is the canonical one; NewIndex's offset accounting is exact on every way round its loop and each Record field is fed from the right one of raw/trimmed length; the text form maps the same fields to the same columns in both directions and the reader's acceptance test is evaluated over every ordering of the numbers it compares.",
		NotDecided:  "that position∘endOfLineOffset walk exactly the bases for every geometry (arithmetic over all values: the formulas are matched against the definition, not proved to compose), behaviour on files that are not well formed (ragged lines), ReaderAt implementations returning short reads without error.",
	})
}

func isInt64(t types.Type) bool {
	b, ok := t.Underlying().(*types.Basic)
	return ok && b.Kind() == types.Int64
}

// isRecordVar: a local variable of type fai.Record (whatever it is called).
func isRecordVar(al *ssa.Alloc) bool {
	n, ok := al.Type().(*types.Pointer).Elem().(*types.Named)
	return ok && n.Obj().Name() == "Record" && allocKey(al) == "local:Record"
}
