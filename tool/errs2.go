// ERR-EDGE: once an error value is known to be non-nil (the non-nil edge of a
// test against nil), every path to a return reports it: the returned error is
// that value, wraps it, is another error constant, or the path deliberately
// converted io.EOF. A path that falls back into the success continuation, or
// returns a constant nil, swallows the failure.
package main

import (
	"fmt"
	"go/token"
	"go/types"

	"golang.org/x/tools/go/ssa"
)

func isErrorTyped(v ssa.Value) bool { return types.Identical(v.Type(), errorType) }

// reportsError: ret (resolved along the path) reports error e.
func reportsError(ret ssa.Value, e ssa.Value, depth int) bool {
	if depth > 5 || ret == nil {
		return false
	}
	if ret == e {
		return true
	}
	if isNilConst(ret) {
		return false
	}
	switch x := ret.(type) {
	case *ssa.UnOp:
		if x.Op == token.MUL {
			if _, isG := x.X.(*ssa.Global); isG {
				return true // a sentinel error variable
			}
			// a latch: load of the field e was loaded from / stored to
			if f, _ := loadedField(x); f != nil {
				if ef, _ := loadedField(e); ef == f {
					return true
				}
				for _, ref := range *e.Referrers() {
					if st, ok := ref.(*ssa.Store); ok {
						if fa, isFa := st.Addr.(*ssa.FieldAddr); isFa && fieldVarOfAddr(fa) == f {
							return true
						}
					}
				}
			}
		}
	case *ssa.Call:
		switch calleeFullName(&x.Call) {
		case "errors.New", "fmt.Errorf":
			return true
		}
		for _, a := range x.Call.Args {
			if a == e || reportsError(a, e, depth+1) {
				return true
			}
			// variadic wrap: fmt.Errorf("…%w", err) packs err into a slice
			if sl, ok := a.(*ssa.Slice); ok {
				if al, ok := sl.X.(*ssa.Alloc); ok {
					for _, ref := range *al.Referrers() {
						if ia, ok := ref.(*ssa.IndexAddr); ok {
							for _, r2 := range *ia.Referrers() {
								if st, ok := r2.(*ssa.Store); ok && reportsError(st.Val, e, depth+1) {
									return true
								}
							}
						}
					}
				}
			}
		}
		// the result of an unrelated later call does not report e
		return false
	case *ssa.MakeInterface:
		return reportsError(x.X, e, depth+1) || true // a concrete error value built here
	case *ssa.Phi:
		for _, ed := range x.Edges {
			if reportsError(ed, e, depth+1) {
				return true
			}
		}
	case *ssa.Extract:
		if call, ok := x.Tuple.(*ssa.Call); ok {
			return reportsError(call, e, depth+1)
		}
		return false
	case *ssa.Parameter, *ssa.FreeVar:
		return true
	}
	return false
}

func ruleErrEdge(pkgs []string) func(c *Ctx, r *Rep, tier string) {
	return func(c *Ctx, r *Rep, tier string) {
		rule := "ERR-EDGE"
		for _, pkg := range pkgs {
			for _, fn := range c.FuncsIn(pkg) {
				ei := errResultIndex(fn.Signature)
				if ei < 0 {
					continue
				}
				for _, b := range fn.Blocks {
					i := ifOf(b)
					if i == nil || b.Succs[0] == b.Succs[1] {
						continue
					}
					bo, ok := i.Cond.(*ssa.BinOp)
					if !ok || (bo.Op != token.NEQ && bo.Op != token.EQL) || !isErrorTyped(bo.X) {
						continue
					}
					// comparison with a sentinel other than io.EOF: on the equal edge the
					// function must not return a constant nil error (a specific failure
					// turned into success); io.EOF → nil is the usual "input exhausted" idiom
					if u, isU := bo.Y.(*ssa.UnOp); isU && u.Op == token.MUL {
						if g, isG := u.X.(*ssa.Global); isG && !(g.Name() == "EOF" && g.Pkg != nil && g.Pkg.Pkg.Path() == "io") {
							ke := 0
							if bo.Op == token.NEQ {
								ke = 1
							}
							r.Instance(rule, 1)
							w := NewWalker(c)
							w.Inline = 0
							bad := ""
							for _, pe := range w.Walk(fn, Loc{b.Succs[ke], -1}) {
								if _, isRet := pe.At.(*ssa.Return); isRet && ei < len(pe.Ret) && isNilConst(pe.Ret[ei]) {
									bad = fmt.Sprintf("an error equal to %s is turned into a nil error on the path to %s", g.Name(), c.Pos(pe.At.Pos()))
								}
							}
							// also: the error variable re-assigned nil on that edge and returned later through a phi
							r.Check(bad == "", rule, fmt.Sprintf("%s#sentinel-%s", c.FnName(fn), g.Name()), c.Pos(i.Pos()), "the sentinel is not converted into success", bad)
						}
						continue
					}
					if !isNilConst(bo.Y) {
						continue
					}
					e := bo.X
					k := 0
					if bo.Op == token.EQL {
						k = 1
					}
					r.Instance(rule, 1)
					key := fmt.Sprintf("%s#err-known-non-nil", c.FnName(fn))
					// producer of the error value
					producer := ""
					if ex, isEx := e.(*ssa.Extract); isEx {
						if call, isCall := ex.Tuple.(*ssa.Call); isCall {
							producer = calleeFullName(&call.Call)
						}
					} else if call, isCall := e.(*ssa.Call); isCall {
						producer = calleeFullName(&call.Call)
					} else if ph, isPhi := e.(*ssa.Phi); isPhi {
						for _, ed := range ph.Edges {
							if ex, isEx := ed.(*ssa.Extract); isEx {
								if call, isCall := ex.Tuple.(*ssa.Call); isCall {
									producer = calleeFullName(&call.Call)
								}
							}
						}
					}
					if why, ok := errEdgeExempt[c.FnName(fn)+"#"+producer]; ok {
						r.Pass(rule, key, c.Pos(i.Pos()), "exempt: "+why)
						continue
					}
					w := NewWalker(c)
					w.Inline = 0
					w.MaxVisits = 2
					w.AssumeNonNil = []ssa.Value{e}
					// deferred report: the error is stored in an error-typed struct field
					// which some function of the package returns as its error result
					// (bam.Merger.err: nextBySortOrder returns the record it already holds
					// and Read returns the kept error on the next call)
					w.Effect = func(ins ssa.Instruction) (string, bool) {
						st, ok := ins.(*ssa.Store)
						if !ok {
							return "", false
						}
						fa, ok := st.Addr.(*ssa.FieldAddr)
						if !ok || !isErrorTyped(st.Val) {
							return "", false
						}
						if strip(st.Val) != strip(e) && symKey(st.Val) != symKey(e) {
							return "", false
						}
						if f := fieldVarOfAddr(fa); f != nil && fieldReturnedAsError(c, pkg, f) {
							return "latched", true
						}
						return "", false
					}
					w.Edge = func(from *ssa.BasicBlock, succ int) (string, bool) {
						fi := ifOf(from)
						if fi == nil {
							return "", false
						}
						fb, ok := fi.Cond.(*ssa.BinOp)
						if !ok || (fb.Op != token.EQL && fb.Op != token.NEQ) {
							return "", false
						}
						// comparison with a sentinel (io.EOF …): a deliberate classification
						isSentinel := func(v ssa.Value) bool {
							u, ok := v.(*ssa.UnOp)
							if !ok || u.Op != token.MUL {
								return false
							}
							_, isG := u.X.(*ssa.Global)
							return isG
						}
						if isErrorTyped(fb.X) && (isSentinel(fb.Y) || isSentinel(fb.X)) {
							ke := 0
							if fb.Op == token.NEQ {
								ke = 1
							}
							if succ == ke {
								return "classified", true
							}
						}
						return "", false
					}
					// re-assignment of the tested variable's latch on the path (e.g. err = nil after handling) is a new value
					start := Loc{b.Succs[k], -1}
					bad := ""
					for _, pe := range walkFrom(w, fn, start) {
						if _, isRet := pe.At.(*ssa.Return); !isRet || ei >= len(pe.Ret) {
							continue
						}
						if pe.Counts["classified"] > 0 || pe.Counts["latched"] > 0 {
							continue
						}
						if !reportsError(pe.Ret[ei], e, 0) {
							bad = fmt.Sprintf("the error tested non-nil at %s can reach the return at %s where the error result does not report it (%s): the failure is swallowed", c.Pos(i.Pos()), c.Pos(pe.At.Pos()), traceStr(pe.Trace))
						}
					}
					r.Check(bad == "", rule, key, c.Pos(i.Pos()), "every path from the non-nil edge returns the error, a wrap of it, another error, or passed a sentinel classification", bad)
				}
			}
		}
	}
}

// fieldReturnedAsError: some function of pkg returns a load of field f as its
// error result.
func fieldReturnedAsError(c *Ctx, pkg string, f *types.Var) bool {
	found := false
	for _, fn := range c.FuncsIn(pkg) {
		ei := errResultIndex(fn.Signature)
		if ei < 0 || found {
			continue
		}
		allInstrs(fn, func(ins ssa.Instruction) {
			if ret, ok := ins.(*ssa.Return); ok && ei < len(ret.Results) {
				if lf, _ := loadedField(retValue(ret, ei)); lf == f {
					found = true
				}
			}
		})
	}
	return found
}

// walkFrom: Walker.Walk from the beginning of a block.
func walkFrom(w *Walker, fn *ssa.Function, start Loc) []PathEnd {
	return w.Walk(fn, start)
}

// errEdgeExempt: "function#producer of the error" → reason.
var errEdgeExempt = map[string]string{
	"bgzf.(*Reader).Seek#(*github.com/biogo/hts/bgzf.decompressor).wait":      "the failed result belongs to a speculative read-ahead of another position; Seek re-reads the sought block synchronously and reports that read's error",
	"bgzf.(*Reader).nextBlock#(*github.com/biogo/hts/bgzf.decompressor).wait": "inside the receive loop the error of a read-ahead result for a different base is discarded with the result; the error of the matching result is returned after the loop (PATH-NEXTBLOCK)",
}
