// C11, continued: what a decoder lets through must be something the accessors
// can handle. Three rules written after sub-agents reported defects of the
// unchanged tree that none of the index/sign rules sees:
//
//	ACCEPT-AGREE  the (type, array subtype) pairs bam.parseAux lets through are
//	              exactly those sam.Aux.Value decodes (both sets derived by
//	              partial evaluation of the two functions' branch conditions
//	              under a binding of the type and subtype bytes)
//	SHIFT-FITS    a shift whose amount comes from a decoded field is bounded
//	              below the width of the shifted type (csi.ReadFrom: depth)
//	OFFSET-FITS   fai.ReadFrom bounds the operands of the unchecked product and
//	              sum in Record.position
package main

import (
	"fmt"
	"go/ast"
	"go/constant"
	"go/token"
	"go/types"
	"sort"
	"strings"

	"golang.org/x/tools/go/ssa"
)

// ---- partial evaluation of branch conditions ----------------------------------------

// pev evaluates SSA values that depend only on constants, package-level constant
// tables and the bytes bound by `bytes` (offset within the field → value). It is
// used as an edge filter: a branch whose condition evaluates takes that edge
// only, every other branch takes both.
type pev struct {
	c      *Ctx
	root   *ssa.Function
	bytes  map[int64]int64
	tables map[*ssa.Global]map[int64]int64
}

type pframe struct {
	params map[*ssa.Parameter]ssa.Value
	up     *pframe
}

func (p *pev) resolve(v ssa.Value, fr *pframe) (ssa.Value, *pframe) {
	for {
		par, ok := v.(*ssa.Parameter)
		if !ok || fr == nil {
			return v, fr
		}
		a, ok := fr.params[par]
		if !ok {
			return v, fr
		}
		v, fr = a, fr.up
	}
}

// byteOffset: v is a load of data[k] or data[cursor+k] where data is a
// parameter of the root function (the field being examined).
func (p *pev) byteOffset(v ssa.Value, fr *pframe) (int64, bool) {
	u, ok := v.(*ssa.UnOp)
	if !ok || u.Op != token.MUL {
		return 0, false
	}
	ia, ok := u.X.(*ssa.IndexAddr)
	if !ok {
		return 0, false
	}
	base, bfr := p.resolve(ia.X, fr)
	par, ok := base.(*ssa.Parameter)
	if !ok || bfr != nil || par.Parent() != p.root {
		return 0, false
	}
	idx, ifr := p.resolve(ia.Index, fr)
	if k, ok := constInt(idx); ok {
		return k, true
	}
	if bo, ok := idx.(*ssa.BinOp); ok && bo.Op == token.ADD && ifr == nil {
		if _, isPhi := bo.X.(*ssa.Phi); isPhi {
			if k, ok := constInt(bo.Y); ok {
				return k, true
			}
		}
	}
	return 0, false
}

func truncTo(t types.Type, v int64) int64 {
	if b, ok := t.Underlying().(*types.Basic); ok {
		if w, sg, ok := basicWidth(b); ok && w < 64 {
			m := uint64(1)<<uint(w) - 1
			u := uint64(v) & m
			if sg && u>>(uint(w)-1) == 1 {
				return int64(u) - int64(1)<<uint(w)
			}
			return int64(u)
		}
	}
	return v
}

func (p *pev) val(v ssa.Value, fr *pframe, depth int) (int64, bool) {
	if depth > 12 {
		return 0, false
	}
	v, fr = p.resolve(v, fr)
	switch x := v.(type) {
	case *ssa.Const:
		if x.Value == nil {
			return 0, false
		}
		switch x.Value.Kind() {
		case constant.Bool:
			if constant.BoolVal(x.Value) {
				return 1, true
			}
			return 0, true
		case constant.Int:
			k, ok := constant.Int64Val(x.Value)
			return k, ok
		}
		return 0, false
	case *ssa.UnOp:
		switch x.Op {
		case token.MUL:
			if k, ok := p.byteOffset(x, fr); ok {
				b, ok := p.bytes[k]
				return b, ok
			}
			if ia, ok := x.X.(*ssa.IndexAddr); ok {
				if g, ok := ia.X.(*ssa.Global); ok {
					if tab := p.table(g); tab != nil {
						if i, ok := p.val(ia.Index, fr, depth+1); ok {
							return tab[i], true
						}
					}
				}
			}
		case token.NOT:
			if a, ok := p.val(x.X, fr, depth+1); ok {
				return 1 - a, true
			}
		case token.SUB:
			if a, ok := p.val(x.X, fr, depth+1); ok {
				return truncTo(x.Type(), -a), true
			}
		}
		return 0, false
	case *ssa.Convert:
		if a, ok := p.val(x.X, fr, depth+1); ok {
			return truncTo(x.Type(), a), true
		}
		return 0, false
	case *ssa.ChangeType:
		return p.val(x.X, fr, depth+1)
	case *ssa.BinOp:
		a, ok1 := p.val(x.X, fr, depth+1)
		b, ok2 := p.val(x.Y, fr, depth+1)
		if !ok1 || !ok2 {
			return 0, false
		}
		bi := func(c bool) (int64, bool) {
			if c {
				return 1, true
			}
			return 0, true
		}
		switch x.Op {
		case token.ADD:
			return truncTo(x.Type(), a+b), true
		case token.SUB:
			return truncTo(x.Type(), a-b), true
		case token.MUL:
			return truncTo(x.Type(), a*b), true
		case token.AND:
			return a & b, true
		case token.OR:
			return a | b, true
		case token.XOR:
			return truncTo(x.Type(), a^b), true
		case token.EQL:
			return bi(a == b)
		case token.NEQ:
			return bi(a != b)
		case token.LSS:
			return bi(a < b)
		case token.LEQ:
			return bi(a <= b)
		case token.GTR:
			return bi(a > b)
		case token.GEQ:
			return bi(a >= b)
		}
		return 0, false
	case *ssa.Phi:
		have := false
		var r int64
		for _, e := range x.Edges {
			if e == ssa.Value(x) {
				continue
			}
			a, ok := p.val(e, fr, depth+2)
			if !ok || (have && a != r) {
				return 0, false
			}
			r, have = a, true
		}
		return r, have
	case *ssa.Call:
		// a one-block accessor of the module (Aux.Type): evaluate its result
		g := staticCallee(&x.Call)
		if g == nil || len(g.Blocks) != 1 || modulePrefix(g) != modulePrefix(p.root) {
			return 0, false
		}
		ret, ok := g.Blocks[0].Instrs[len(g.Blocks[0].Instrs)-1].(*ssa.Return)
		if !ok || len(ret.Results) != 1 || len(g.Params) != len(x.Call.Args) {
			return 0, false
		}
		nf := &pframe{params: map[*ssa.Parameter]ssa.Value{}, up: fr}
		for i, par := range g.Params {
			nf.params[par] = x.Call.Args[i]
		}
		return p.val(ret.Results[0], nf, depth+1)
	}
	return 0, false
}

// table: the constant contents of a package-level array that nothing but its
// declaration writes.
func (p *pev) table(g *ssa.Global) map[int64]int64 {
	if t, ok := p.tables[g]; ok {
		return t
	}
	p.tables[g] = nil
	if g.Object() == nil {
		return nil
	}
	if _, ok := g.Type().(*types.Pointer).Elem().Underlying().(*types.Array); !ok {
		return nil
	}
	written := false
	for _, f := range p.c.SrcFuncs() {
		allInstrs(f, func(ins ssa.Instruction) {
			if st, ok := ins.(*ssa.Store); ok {
				if ia, ok := st.Addr.(*ssa.IndexAddr); ok && ia.X == ssa.Value(g) && f.Name() != "init" {
					written = true
				}
				if st.Addr == ssa.Value(g) && f.Name() != "init" {
					written = true
				}
			}
		})
	}
	if written {
		return nil
	}
	var out map[int64]int64
	for _, pkg := range p.c.Pkgs {
		if pkg.Types != g.Object().Pkg() {
			continue
		}
		for _, f := range pkg.Syntax {
			ast.Inspect(f, func(n ast.Node) bool {
				vs, ok := n.(*ast.ValueSpec)
				if !ok {
					return true
				}
				for i, nm := range vs.Names {
					if pkg.TypesInfo.Defs[nm] != g.Object() || i >= len(vs.Values) {
						continue
					}
					cl, ok := vs.Values[i].(*ast.CompositeLit)
					if !ok {
						continue
					}
					tab := map[int64]int64{}
					next := int64(0)
					good := true
					for _, el := range cl.Elts {
						val := el
						if kv, ok := el.(*ast.KeyValueExpr); ok {
							tv := pkg.TypesInfo.Types[kv.Key]
							if tv.Value == nil {
								good = false
								break
							}
							k, _ := constant.Int64Val(constant.ToInt(tv.Value))
							next, val = k, kv.Value
						}
						tv := pkg.TypesInfo.Types[val]
						if tv.Value == nil || tv.Value.Kind() != constant.Int {
							good = false
							break
						}
						k, _ := constant.Int64Val(tv.Value)
						tab[next] = k
						next++
					}
					if good {
						out = tab
					}
				}
				return true
			})
		}
	}
	p.tables[g] = out
	return out
}

func (p *pev) edges() edgeFn {
	return func(from, to *ssa.BasicBlock) bool {
		iff := ifOf(from)
		if iff == nil || from.Succs[0] == from.Succs[1] {
			return true
		}
		v, ok := p.val(iff.Cond, nil, 0)
		if !ok {
			return true
		}
		if v != 0 {
			return to == from.Succs[0]
		}
		return to == from.Succs[1]
	}
}

func byteSet(s []int64) string {
	sort.Slice(s, func(i, j int) bool { return s[i] < s[j] })
	var parts []string
	for _, b := range s {
		if b >= 0x21 && b < 0x7f {
			parts = append(parts, string(rune(b)))
		} else {
			parts = append(parts, fmt.Sprintf("\\x%02x", b))
		}
	}
	return "{" + strings.Join(parts, " ") + "}"
}

// ruleAcceptAgree (ACCEPT-AGREE).
func ruleAcceptAgree(c *Ctx, r *Rep, tier string) {
	rule := "ACCEPT-AGREE"
	walker := c.Func("bam", "parseAux")
	value := c.Func("sam", "Aux.Value")
	errT := types.Universe.Lookup("error").Type().Underlying().(*types.Interface)

	isAppend := func(ins ssa.Instruction) bool {
		_, ok := isBuiltinCall(ins, "append")
		return ok
	}
	isValueRet := func(ins ssa.Instruction) bool {
		ret, ok := ins.(*ssa.Return)
		if !ok || len(ret.Results) != 1 {
			return false
		}
		switch x := ret.Results[0].(type) {
		case *ssa.MakeInterface:
			return !types.Implements(x.X.Type(), errT)
		case *ssa.ChangeInterface:
			return !types.Implements(x.X.Type(), errT)
		}
		return true
	}
	tables := map[*ssa.Global]map[int64]int64{}
	// a return is both target and barrier in Value: look at returns directly
	letsRet := func(fn *ssa.Function, bind map[int64]int64) bool {
		p := &pev{c: c, root: fn, bytes: bind, tables: tables}
		_, ok := pathTo(entryLoc(fn), isValueRet, isReturn, p.edges())
		return ok
	}
	var tAcc, tVal, sAcc, sVal []int64
	for b := int64(0); b < 256; b++ {
		pw := &pev{c: c, root: walker, bytes: map[int64]int64{2: b}, tables: tables}
		if _, ok := pathTo(entryLoc(walker), isAppend, isReturn, pw.edges()); ok {
			tAcc = append(tAcc, b)
		}
		if letsRet(value, map[int64]int64{2: b}) {
			tVal = append(tVal, b)
		}
		pw = &pev{c: c, root: walker, bytes: map[int64]int64{2: 'B', 3: b}, tables: tables}
		if _, ok := pathTo(entryLoc(walker), isAppend, isReturn, pw.edges()); ok {
			sAcc = append(sAcc, b)
		}
		if letsRet(value, map[int64]int64{2: 'B', 3: b}) {
			sVal = append(sVal, b)
		}
	}
	specT := []int64{'A', 'c', 'C', 's', 'S', 'i', 'I', 'f', 'Z', 'H', 'B'}
	specS := []int64{'c', 'C', 's', 'S', 'i', 'I', 'f'}
	r.Instance(rule, 2)
	why := ""
	if byteSet(tAcc) != byteSet(tVal) {
		why = fmt.Sprintf("the walker lets through types %s, Aux.Value decodes %s", byteSet(tAcc), byteSet(tVal))
	} else if byteSet(tAcc) != byteSet(specT) {
		why = fmt.Sprintf("both sides handle %s, the format defines %s", byteSet(tAcc), byteSet(specT))
	}
	r.Check(why == "", rule, "bam.parseAux#types", c.Pos(walker.Pos()), "types let through = types decoded = "+byteSet(specT), why)
	why = ""
	if byteSet(sAcc) != byteSet(sVal) {
		why = fmt.Sprintf("the walker lets through array element types %s, Aux.Value decodes %s: the others come back as an error value that the SAM formatter hands to reflect", byteSet(sAcc), byteSet(sVal))
	} else if byteSet(sAcc) != byteSet(specS) {
		why = fmt.Sprintf("both sides handle %s, the format defines %s", byteSet(sAcc), byteSet(specS))
	}
	r.Check(why == "", rule, "bam.parseAux#array-subtypes", c.Pos(walker.Pos()), "array element types let through = decoded = "+byteSet(specS), why)
}

// ---- DST-FITS --------------------------------------------------------------------------

// ruleDstFits: hex.Decode(dst, src) writes DecodedLen(len(src)) bytes and panics
// if dst is shorter. Every call in the library has a destination made for the
// source (make([]byte, hex.DecodedLen(len(src)))), or a fixed array and a
// dominating comparison that bounds the source's decoded length by the array's.
// (An @SQ M5 value of more than 32 hex digits made NewHeader panic.)
func ruleDstFits(c *Ctx, r *Rep, tier string) {
	rule := "DST-FITS"
	n := 0
	sameSrc := func(a, b ssa.Value) bool {
		a, b = stripConv(a), stripConv(b)
		return a == b || sameExpr(a, b, 0)
	}
	for _, fn := range c.SrcFuncs() {
		for _, f := range withAnon(fn) {
			bc := &boundsCtx{c: c, fn: f}
			idx := 0
			allInstrs(f, func(ins ssa.Instruction) {
				call, ok := ins.(*ssa.Call)
				if !ok || calleeFullName(&call.Call) != "encoding/hex.Decode" {
					return
				}
				n++
				idx++
				r.Instance(rule, 1)
				key := c.FnName(f) + "#hex.Decode"
				if idx > 1 {
					key += fmt.Sprintf("~%d", idx)
				}
				dst, src := call.Call.Args[0], call.Call.Args[1]
				// the decoded lengths of this source computed in f
				var decLens, lens []ssa.Value
				allInstrs(f, func(x ssa.Instruction) {
					cl, ok := x.(*ssa.Call)
					if !ok {
						return
					}
					if arg, isLen := isLenCall(cl); isLen && sameSrc(arg, src) {
						lens = append(lens, cl)
					}
					if calleeFullName(&cl.Call) == "encoding/hex.DecodedLen" {
						if inner, ok := cl.Call.Args[0].(*ssa.Call); ok {
							if arg, isLen := isLenCall(inner); isLen && sameSrc(arg, src) {
								decLens = append(decLens, cl)
							}
						}
					}
				})
				how := ""
				switch d := dst.(type) {
				case *ssa.MakeSlice:
					for _, dl := range decLens {
						if d.Len == dl {
							how = "destination made with hex.DecodedLen(len(src))"
						}
					}
				case *ssa.Slice:
					if pt, ok := d.X.Type().Underlying().(*types.Pointer); ok && d.Low == nil && d.High == nil {
						if at, ok := pt.Elem().Underlying().(*types.Array); ok {
							for _, dl := range decLens {
								if bc.upperBound(dl, call.Block(), 0) <= at.Len() {
									how = fmt.Sprintf("decoded length ≤ %d on every way to the call", at.Len())
								}
							}
							for _, l := range lens {
								if bc.upperBound(l, call.Block(), 0) <= 2*at.Len()+1 {
									how = fmt.Sprintf("len(src) ≤ %d on every way to the call", 2*at.Len()+1)
								}
							}
						}
					}
				}
				r.Check(how != "", rule, key, c.Pos(call.Pos()), how, "hex.Decode into a destination that is not shown to hold DecodedLen(len(src)) bytes: a longer value than expected panics (index out of range) instead of giving an error")
			})
		}
	}
	if n == 0 {
		r.Instance(rule, 1)
		r.Fail(rule, "module#hex.Decode", "-", "no call of hex.Decode found: the rule's anchor is gone (undecided)")
	}
}

// ---- SHIFT-FITS ------------------------------------------------------------------------

// ruleShiftFits: in the CSI reader every shift by a computed amount is shown to
// stay below the width of the shifted type. (The amount is a function of the
// decoded depth; without a bound the bin limit wraps, and Chunks loops once per
// level of a depth of up to 2^31.)
func ruleShiftFits(c *Ctx, r *Rep, tier string) {
	rule := "SHIFT-FITS"
	for _, name := range []string{"ReadFrom"} {
		fn := c.Func("csi", name)
		bc := &boundsCtx{c: c, fn: fn}
		n := 0
		allInstrs(fn, func(ins ssa.Instruction) {
			bo, ok := ins.(*ssa.BinOp)
			if !ok || bo.Op != token.SHL {
				return
			}
			if _, isC := constInt(bo.Y); isC {
				return
			}
			n++
			r.Instance(rule, 1)
			w := int64(64)
			if b, ok := bo.Type().Underlying().(*types.Basic); ok {
				if bw, _, ok := basicWidth(b); ok {
					w = int64(bw)
				}
			}
			ub := bc.upperBound(bo.Y, bo.Block(), 0)
			key := fmt.Sprintf("csi.%s#shift:%s", name, symKey(bo.Y))
			r.Check(ub < w, rule, key, c.Pos(bo.Pos()), fmt.Sprintf("shift amount ≤ %d < %d", ub, w),
				fmt.Sprintf("the shift amount %s has no upper bound below the %d bits of the shifted value on the way here: a decoded depth of up to 2^31 is accepted, the bin limit wraps and Chunks walks one level per unit of depth", symKey(bo.Y), w))
		})
		if n == 0 {
			r.Instance(rule, 1)
			r.Fail(rule, "csi."+name+"#shift", c.Pos(fn.Pos()), "no computed shift found in the CSI reader: the rule's anchor moved (undecided)")
		}
	}
}

// ---- OFFSET-FITS -----------------------------------------------------------------------

// edgeBoundExpr: on edge k of block b, the expression e is known to be ≤ (or <)
// the returned value.
func edgeBoundExpr(b *ssa.BasicBlock, k int, e ssa.Value) ssa.Value {
	i := ifOf(b)
	if i == nil {
		return nil
	}
	bo, ok := i.Cond.(*ssa.BinOp)
	if !ok {
		return nil
	}
	taken := k == 0
	x, y, op := bo.X, bo.Y, bo.Op
	if !sameExpr(stripConv(x), stripConv(e), 0) {
		if !sameExpr(stripConv(y), stripConv(e), 0) {
			return nil
		}
		// mirror: y op' x
		x, y = y, x
		switch op {
		case token.GTR:
			op = token.LSS
		case token.GEQ:
			op = token.LEQ
		case token.LSS:
			op = token.GTR
		case token.LEQ:
			op = token.GEQ
		}
	}
	switch op {
	case token.GTR, token.GEQ:
		if !taken {
			return y
		}
	case token.LSS, token.LEQ:
		if taken {
			return y
		}
	}
	return nil
}

func ruleOffsetFits(c *Ctx, r *Rep, tier string) {
	rule := "OFFSET-FITS"
	pos := c.Func("fai", "Record.position")
	// which fields enter an unchecked product / the final sum?
	mulField, addStart := false, false
	allInstrs(pos, func(ins ssa.Instruction) {
		bo, ok := ins.(*ssa.BinOp)
		if !ok {
			return
		}
		k := symKey(bo)
		if bo.Op == token.MUL && strings.Contains(k, "$0.BytesPerLine") {
			mulField = true
		}
		if bo.Op == token.ADD && strings.Contains(symKey(bo.X), "$0.Start") {
			addStart = true
		}
	})
	rd := c.Func("fai", "ReadFrom")
	var accept *ssa.MapUpdate
	allInstrs(rd, func(ins ssa.Instruction) {
		if mu, ok := ins.(*ssa.MapUpdate); ok {
			accept = mu
		}
	})
	if accept == nil {
		unresolved("fai.ReadFrom: the store of the accepted record not found")
	}
	bc := &boundsCtx{c: c, fn: rd}
	// loads of the record's fields in ReadFrom
	fieldLoads := func(name string) []ssa.Value {
		var out []ssa.Value
		allInstrs(rd, func(ins ssa.Instruction) {
			if u, ok := ins.(*ssa.UnOp); ok && u.Op == token.MUL {
				if fa, ok := u.X.(*ssa.FieldAddr); ok && fieldVarOfAddr(fa).Name() == name {
					if al, ok := fa.X.(*ssa.Alloc); ok && isRecordVar(al) {
						out = append(out, u)
					}
				}
			}
		})
		return out
	}
	// the product is formed only for BasesPerLine ≥ 1 (position returns Start
	// otherwise): records accepted on an edge that establishes BasesPerLine ≤ 0
	// need no bound
	guardedByBases := false
	{
		pbc := &boundsCtx{c: c, fn: pos}
		allInstrs(pos, func(ins ssa.Instruction) {
			if bo, ok := ins.(*ssa.BinOp); ok && bo.Op == token.QUO && strings.Contains(symKey(bo.Y), "BasesPerLine") {
				if pbc.lowerBound(bo.Y, bo.Block(), 0) >= 1 {
					guardedByBases = true
				}
			}
		})
	}
	type edge struct {
		b *ssa.BasicBlock
		k int
	}
	bounded := func(field string, mustMention []string) (bool, string) {
		cut := map[edge]string{}
		for _, b := range rd.Blocks {
			if ifOf(b) == nil || b.Succs[0] == b.Succs[1] {
				continue
			}
			for k := 0; k < 2; k++ {
				if guardedByBases {
					for _, bl := range fieldLoads("BasesPerLine") {
						if edgeUB(b, k, bl) <= 0 {
							cut[edge{b, k}] = "BasesPerLine ≤ 0"
						}
					}
				}
				for _, ld := range fieldLoads(field) {
					if u := edgeUB(b, k, ld); u < posInf {
						// a constant bound only helps if the other operands are bounded too
						all := true
						for _, m := range mustMention {
							one := false
							for _, ol := range fieldLoads(m) {
								if bc.upperBound(ol, accept.Block(), 0) < posInf {
									one = true
								}
							}
							all = all && one
						}
						if all {
							cut[edge{b, k}] = fmt.Sprintf("%s ≤ %d, %v bounded by constants", field, u, mustMention)
						}
					}
					if e := edgeBoundExpr(b, k, ld); e != nil {
						key := symKey(e)
						ok := true
						for _, m := range mustMention {
							if !strings.Contains(key, m) {
								ok = false
							}
						}
						if ok {
							cut[edge{b, k}] = field + " ≤ " + key
						}
					}
				}
			}
		}
		var hows []string
		seen := map[string]bool{}
		for _, h := range cut {
			if !seen[h] {
				seen[h] = true
				hows = append(hows, h)
			}
		}
		sort.Strings(hows)
		if len(hows) == 0 {
			return false, ""
		}
		avoid := func(from, to *ssa.BasicBlock) bool {
			for k, s := range from.Succs {
				if s == to {
					if _, isCut := cut[edge{from, k}]; !isCut {
						return true
					}
				}
			}
			return false
		}
		if _, reach := pathTo(entryLoc(rd), func(ins ssa.Instruction) bool { return ins == ssa.Instruction(accept) }, nil, avoid); reach {
			return false, ""
		}
		return true, "every way to the store passes one of: " + strings.Join(hows, "; ")
	}
	r.Instance(rule, 2)
	if !mulField {
		r.Check(true, rule, "fai.ReadFrom#bytes-per-line-bounded", c.Pos(rd.Pos()), "Record.position has no unchecked product with BytesPerLine: nothing to bound", "")
	} else {
		ok, how := bounded("BytesPerLine", []string{"Length"})
		r.Check(ok, rule, "fai.ReadFrom#bytes-per-line-bounded", c.Pos(accept.Pos()), how,
			"Record.position multiplies the line number by BytesPerLine without a check, and ReadFrom accepts the record without an upper bound on BytesPerLine that takes the number of lines (Length) into account: the offset of the last base overflows and Seq.Read slices with a negative bound")
	}
	if !addStart {
		r.Check(true, rule, "fai.ReadFrom#start-bounded", c.Pos(rd.Pos()), "Record.position does not add to Start: nothing to bound", "")
	} else {
		ok, how := bounded("Start", []string{"BytesPerLine"})
		r.Check(ok, rule, "fai.ReadFrom#start-bounded", c.Pos(accept.Pos()), how,
			"Record.position adds the in-record offset to Start without a check, and ReadFrom accepts the record without an upper bound on Start that takes the record's extent into account: the sum overflows")
	}
}
