// Rules added after the second, blind round of seeded changes for the BGZF
// properties (C02, C08, C09, C14) missed four of them.
package main

import (
	"fmt"
	"go/token"
	"go/types"
	"strings"

	"golang.org/x/tools/go/ssa"
)

// ruleBlockSeek (PATH-BLOCKSEEK): (*block).seek positions the block on every
// path: each return is dominated by the Seek of the block's buffer with the
// requested offset, and the in-block offset is stored only on its success
// edge. ("Nothing was read from it, so it is still at its start" is false for
// a block that was sought but not read.)
func ruleBlockSeek(c *Ctx, r *Rep, tier string) {
	rule := "PATH-BLOCKSEEK"
	fn := c.Func("bgzf", "(*block).seek")
	var seek *ssa.Call
	allInstrs(fn, func(ins ssa.Instruction) {
		if call, ok := ins.(*ssa.Call); ok && seek == nil {
			name := ""
			if call.Call.IsInvoke() {
				name = call.Call.Method.Name()
			} else if g := staticCallee(&call.Call); g != nil {
				name = g.Name()
			}
			if name == "Seek" && len(call.Call.Args) >= 1 && strings.HasPrefix(symKey(call), "$0.buf") {
				seek = call
			}
		}
	})
	r.Instance(rule, 1)
	why := ""
	if seek == nil {
		why = "no Seek of the block's buffer found"
	} else {
		if !strings.Contains(symKey(seek), "Seek($1,0)") {
			why = "the buffer is positioned with " + symKey(seek) + ", not Seek(offset, 0)"
		}
		allInstrs(fn, func(ins ssa.Instruction) {
			if ret, ok := ins.(*ssa.Return); ok && !instrDominates(seek, ret) {
				why = fmt.Sprintf("the return at %s is reached without positioning the buffer: Seek reports success and the next Read starts where an earlier seek left the block", c.Pos(ret.Pos()))
			}
		})
	}
	pos := c.Pos(fn.Pos())
	r.Check(why == "", rule, "bgzf.(*block).seek#always-positions", pos, "every return passes through b.buf.Seek(offset, 0)", why)
	// offset.Block follows, on the success edge only
	r.Instance(rule, 1)
	why = "the in-block offset is never recorded"
	allInstrs(fn, func(ins ssa.Instruction) {
		st, ok := ins.(*ssa.Store)
		if !ok {
			return
		}
		if !strings.HasSuffix(symAddrKey(st.Addr, nil, 0), "offset.Block") {
			return
		}
		why = ""
		if symKey(st.Val) != "$1" {
			why = "offset.Block is set to " + symKey(st.Val)
		}
		ok = false
		for _, b := range fn.Blocks {
			ce, isC := classifyErrIf(b, func(v ssa.Value) bool {
				ex, isEx := v.(*ssa.Extract)
				return isEx && seek != nil && ex.Tuple == ssa.Value(seek)
			})
			if isC && ce.isNil && dominatedByEdge(fn, b, ce.yes, st.Block()) {
				ok = true
			}
		}
		if !ok {
			why += " offset.Block is recorded although the Seek may have failed"
		}
	})
	r.Check(why == "", rule, "bgzf.(*block).seek#offset-follows", pos, "offset.Block = offset on the success edge of the Seek", why)
}

// ruleSeekOff (CUR-SEEKOFF): countReader.seek records the new offset only after
// the underlying Seek succeeded; a failed seek leaves the recorded offset where
// the stream still is (otherwise a retry of the same offset skips the real seek
// and decodes the block at the old position under the new base).
func ruleSeekOff(c *Ctx, r *Rep, tier string) {
	rule := "CUR-SEEKOFF"
	fn := c.Func("bgzf", "(*countReader).seek")
	offF := c.Field("bgzf", "countReader", "off")
	var seek *ssa.Call
	allInstrs(fn, func(ins ssa.Instruction) {
		if call, ok := ins.(*ssa.Call); ok && call.Call.IsInvoke() && call.Call.Method.Name() == "Seek" {
			seek = call
		}
	})
	if seek == nil {
		unresolved("bgzf.(*countReader).seek: no Seek call")
	}
	n := 0
	var invalidations []*ssa.Store
	allInstrs(fn, func(ins ssa.Instruction) {
		st, ok := ins.(*ssa.Store)
		if !ok {
			return
		}
		fa, ok := st.Addr.(*ssa.FieldAddr)
		if !ok || fieldVarOfAddr(fa) != offF {
			return
		}
		// an invalidation – a negative constant, which no block's offset equals – belongs
		// on the failure edge; it is judged by #failure-invalidates below
		if k, isK := constInt(st.Val); isK && k < 0 {
			invalidations = append(invalidations, st)
			return
		}
		n++
		r.Instance(rule, 1)
		ok = false
		for _, b := range fn.Blocks {
			ce, isC := classifyErrIf(b, func(v ssa.Value) bool { ex, isEx := v.(*ssa.Extract); return isEx && ex.Tuple == ssa.Value(seek) })
			if isC && ce.isNil && dominatedByEdge(fn, b, ce.yes, st.Block()) {
				ok = true
			}
		}
		r.Check(ok, rule, fmt.Sprintf("bgzf.(*countReader).seek#off~%d", n), c.Pos(st.Pos()), "recorded on the success edge of the underlying Seek", "the offset is recorded before (or regardless of) the underlying Seek: after a failed seek the reader believes it is at the new offset")
	})
	// a failed Seek may have moved the underlying reader (io.Seeker promises nothing
	// about the position after an error; the library's own test double moves and then
	// fails): where it is, is not known, and the recorded offset must match no block,
	// so that the next use seeks again. Left as it was, a Seek to the block the reader
	// was about to read finds "already there" and decodes from wherever the failed
	// Seek went (fourteenth-round sub-agent, on the unchanged tree).
	r.Instance(rule, 1)
	{
		why := ""
		for _, b := range fn.Blocks {
			ce, isC := classifyErrIf(b, func(v ssa.Value) bool { ex, isEx := v.(*ssa.Extract); return isEx && ex.Tuple == ssa.Value(seek) })
			if !isC || !ce.isNil || b.Succs[0] == b.Succs[1] {
				continue
			}
			isInval := func(x ssa.Instruction) bool {
				for _, iv := range invalidations {
					if ssa.Instruction(iv) == x {
						return true
					}
				}
				return false
			}
			if bad, ok := mustPass(Loc{b.Succs[1-ce.yes], -1}, isReturn, isInval, nil); !ok {
				why = "after the underlying Seek failed the function can return at " + c.Pos(bad.Pos()) + " with the recorded offset as it was: if the failed Seek moved the underlying reader, a later Seek to the recorded offset is skipped as \"already there\" and the block is decoded from the wrong place – wrong bytes, no error"
			}
		}
		for _, iv := range invalidations {
			okEdge := false
			for _, b := range fn.Blocks {
				ce, isC := classifyErrIf(b, func(v ssa.Value) bool { ex, isEx := v.(*ssa.Extract); return isEx && ex.Tuple == ssa.Value(seek) })
				if isC && ce.isNil && dominatedByEdge(fn, b, 1-ce.yes, iv.Block()) {
					okEdge = true
				}
			}
			if !okEdge {
				why = "the recorded offset is invalidated at " + c.Pos(iv.Pos()) + " on a path on which the underlying Seek did not fail"
			}
		}
		r.Check(why == "", rule, "bgzf.(*countReader).seek#failure-invalidates", c.Pos(fn.Pos()), "on the failure edge the recorded offset is set to a value no block has", why)
	}
	if n == 0 {
		r.Instance(rule, 1)
		r.Fail(rule, "bgzf.(*countReader).seek#off", c.Pos(fn.Pos()), "the offset is never recorded")
	}
	// … and the buffered bytes go with the offset: what was read ahead from the
	// old position is thrown away only where the new offset is recorded. Dropped
	// on the failure path too, the recorded offset P no longer says where the
	// next byte comes from (the raw position Q past the buffer), and the next
	// read of the block at P skips the seek and decodes from Q (tenth-round seed
	// C09-l).
	frF := c.Field("bgzf", "countReader", "fr")
	k := 0
	allInstrs(fn, func(ins ssa.Instruction) {
		discard := false
		switch x := ins.(type) {
		case *ssa.Store:
			if fa, ok := x.Addr.(*ssa.FieldAddr); ok && fieldVarOfAddr(fa) == frF {
				discard = true
			}
		case *ssa.Call:
			if x.Call.IsInvoke() && x.Call.Method.Name() == "Reset" {
				v := x.Call.Value
				for i := 0; i < 4; i++ {
					switch y := v.(type) {
					case *ssa.TypeAssert:
						v = y.X
						continue
					case *ssa.Extract:
						v = y.Tuple
						continue
					case *ssa.ChangeInterface:
						v = y.X
						continue
					}
					break
				}
				if f, _ := loadedField(v); f == frF {
					discard = true
				}
			}
		}
		if !discard {
			return
		}
		k++
		r.Instance(rule, 1)
		ok := false
		for _, b := range fn.Blocks {
			ce, isC := classifyErrIf(b, func(v ssa.Value) bool { ex, isEx := v.(*ssa.Extract); return isEx && ex.Tuple == ssa.Value(seek) })
			if isC && ce.isNil && dominatedByEdge(fn, b, ce.yes, ins.Block()) {
				ok = true
			}
		}
		if !ok && failureInvalidates(c, fn, seek, offF) {
			ok = true // the offset matches nothing after a failure: the next use seeks and resets the buffer anyway
		}
		r.Check(ok, rule, fmt.Sprintf("bgzf.(*countReader).seek#buffer~%d", k), c.Pos(ins.Pos()), "the read-ahead buffer is discarded on the success edge of the underlying Seek only (or the failure edge invalidates the offset)", "the buffered bytes are discarded whether or not the underlying Seek succeeded, the recorded offset is not: after a failed seek the offset says P, the next byte comes from past the dropped buffer, and a read of the block at P skips the seek")
	})
}

// ruleWriteArgOwned (OWN-WRITE-ARG): Writer.Write only copies from its argument.
// No slice of the caller's buffer is stored in a field, sent on a channel or
// handed to a goroutine: the compressors run after Write has returned.
func ruleWriteArgOwned(c *Ctx, r *Rep, tier string) {
	rule := "OWN-WRITE-ARG"
	fn := c.Func("bgzf", "(*Writer).Write")
	p := fn.Params[1]
	derived := map[ssa.Value]bool{p: true}
	for changed := true; changed; {
		changed = false
		allInstrs(fn, func(ins ssa.Instruction) {
			v, ok := ins.(ssa.Value)
			if !ok || derived[v] {
				return
			}
			switch x := ins.(type) {
			case *ssa.Slice:
				if derived[x.X] {
					derived[v], changed = true, true
				}
			case *ssa.Phi:
				for _, e := range x.Edges {
					if derived[e] {
						derived[v], changed = true, true
					}
				}
			case *ssa.ChangeType:
				if derived[x.X] {
					derived[v], changed = true, true
				}
			}
		})
	}
	r.Instance(rule, 1)
	why := ""
	copies := 0
	allInstrs(fn, func(ins ssa.Instruction) {
		switch x := ins.(type) {
		case *ssa.Store:
			if derived[x.Val] {
				why += fmt.Sprintf(" a slice of the caller's buffer is stored at %s (%s);", c.Pos(x.Pos()), symAddrKey(x.Addr, nil, 0))
			}
		case *ssa.Send:
			if derived[x.X] {
				why += fmt.Sprintf(" a slice of the caller's buffer is sent on a channel at %s;", c.Pos(x.Pos()))
			}
		case *ssa.MakeClosure:
			for _, b := range x.Bindings {
				if derived[b] {
					why += " a closure captures the caller's buffer;"
				}
			}
		case *ssa.Go:
			for _, a := range x.Call.Args {
				if derived[a] {
					why += " the caller's buffer is handed to a goroutine;"
				}
			}
		case *ssa.MakeInterface:
			if derived[x.X] {
				why += " the caller's buffer escapes into an interface value;"
			}
		case *ssa.Call:
			if cc, ok := isBuiltinCall(x, "copy"); ok {
				if derived[cc.Args[1]] && !derived[cc.Args[0]] {
					copies++
				}
				if derived[cc.Args[0]] {
					why += " Write copies *into* the caller's buffer;"
				}
				return
			}
			if _, ok := isBuiltinCall(x, "len"); ok {
				return
			}
			for _, a := range x.Call.Args {
				if derived[a] {
					why += fmt.Sprintf(" the caller's buffer is passed to %s at %s;", symKey(x), c.Pos(x.Pos()))
				}
			}
		}
	})
	if copies == 0 && why == "" {
		why = "no copy out of the caller's buffer found"
	}
	r.Check(why == "", rule, "bgzf.(*Writer).Write#arg", c.Pos(fn.Pos()), fmt.Sprintf("the argument is only measured, resliced and copied from (%d copy)", copies), "io.Writer: Write must not retain p –"+why+" the compressing goroutine reads it after Write has returned, so a caller that reuses its buffer corrupts the output silently")
}

// ruleEvictMatch (EVICT-MATCH): the block a cache's Put reports as evicted is
// the block whose entry that Put removed: the removed key and the returned
// value come from the same map iteration, or the returned value is the b field
// of the very node handed to remove.
func ruleEvictMatch(c *Ctx, r *Rep, tier string) {
	rule := "EVICT-MATCH"
	removeFn := c.FuncOpt("bgzf/cache", "remove")
	n := 0
	for _, fn := range c.FuncsIn("bgzf/cache") {
		if fn.Name() != "Put" || fn.Signature.Recv() == nil {
			continue
		}
		fn := fn
		k := 0
		allInstrs(fn, func(ins ssa.Instruction) {
			call, ok := ins.(*ssa.Call)
			if !ok {
				return
			}
			var want func(v ssa.Value) bool
			what := ""
			if cc, isDel := isBuiltinCall(call, "delete"); isDel {
				ex, isEx := cc.Args[1].(*ssa.Extract)
				if !isEx {
					// the key is not a range key: a computed victim
					n++
					k++
					r.Instance(rule, 1)
					r.Fail(rule, fmt.Sprintf("%s#evict~%d", c.FnName(fn), k), c.Pos(call.Pos()), fmt.Sprintf("the entry deleted is %s, which is not tied to the value reported as evicted (key and value must come from the same map iteration): Put can report a block that is still cached, or lose the evicted one", symKey(cc.Args[1])))
					return
				}
				next := ex.Tuple
				want = func(v ssa.Value) bool {
					e2, ok := strip(v).(*ssa.Extract)
					return ok && e2.Tuple == next && e2.Index == 2
				}
				what = "the value of the same map iteration"
			} else if removeFn != nil && staticCallee(&call.Call) == removeFn {
				nodeKey := symKey(call.Call.Args[0])
				want = func(v ssa.Value) bool { return symKey(v) == nodeKey+".b" }
				what = nodeKey + ".b"
			} else {
				return
			}
			n++
			k++
			r.Instance(rule, 1)
			key := fmt.Sprintf("%s#evict~%d", c.FnName(fn), k)
			w := NewWalker(c)
			w.Inline = 0
			why := ""
			for _, pe := range w.Walk(fn, locOf(call)) {
				if _, isRet := pe.At.(*ssa.Return); !isRet || len(pe.Ret) != 2 {
					continue
				}
				if !want(pe.Ret[0]) {
					why = fmt.Sprintf("after the removal at %s Put returns %s as the evicted block, want %s (path %s)", c.Pos(call.Pos()), symKey(pe.Ret[0]), what, traceStr(pe.Trace))
				}
			}
			r.Check(why == "", rule, key, c.Pos(call.Pos()), "the block returned as evicted is the one whose entry was removed", why)
		})
	}
	if n < 4 {
		r.Instance(rule, 1)
		r.Fail(rule, "bgzf/cache#evictions", "bgzf/cache/cache.go", fmt.Sprintf("%d evictions found in the Put methods, want at least 4", n))
	}
}

// ruleChunkClamp (CHUNK-CLAMP): index.ChunkReader.Read limits a read to the
// chunk end by want − cursor, where cursor is the reader's in-block position;
// that position may be subtracted exactly when the reader *is* in the block in
// which the chunk ends: the non-zero value of cursor is taken on the true edge
// of "LastChunk().End.File == chunks[0].End.File" and is LastChunk().End.Block.
func ruleChunkClamp(c *Ctx, r *Rep, tier string) {
	rule := "CHUNK-CLAMP"
	fn := c.Func("bgzf/index", "(*ChunkReader).Read")
	// the cursor is the loop-free join that is subtracted inside the bound of the
	// slice handed to the underlying Read (found by that role, not by its name)
	var cur *ssa.Phi
	allInstrs(fn, func(ins ssa.Instruction) {
		call, ok := ins.(*ssa.Call)
		if !ok || len(call.Call.Args) < 1 {
			return
		}
		if g := staticCallee(&call.Call); g == nil || g.Name() != "Read" {
			return
		}
		sl, ok := call.Call.Args[len(call.Call.Args)-1].(*ssa.Slice)
		if !ok || sl.High == nil {
			return
		}
		var walk func(v ssa.Value, d int)
		walk = func(v ssa.Value, d int) {
			if d > 6 {
				return
			}
			switch x := v.(type) {
			case *ssa.BinOp:
				if p, isPhi := x.Y.(*ssa.Phi); isPhi && x.Op == token.SUB {
					cur = p
				}
				walk(x.X, d+1)
				walk(x.Y, d+1)
			case *ssa.Call:
				for _, a := range x.Call.Args {
					walk(a, d+1)
				}
			case *ssa.Convert:
				walk(x.X, d+1)
			}
		}
		walk(sl.High, 0)
	})
	// a local that only ever holds the reader's LastChunk() (taken on entry, and
	// again after the reader was moved to the next chunk): positionOf says which
	// field of it a value reads
	isPosLocal := func(al *ssa.Alloc) bool {
		n, all := 0, true
		allInstrs(fn, func(ins ssa.Instruction) {
			if st, ok := ins.(*ssa.Store); ok && st.Addr == ssa.Value(al) {
				n++
				if !strings.HasSuffix(symKey(st.Val), ".LastChunk()") {
					all = false
				}
			}
		})
		return n > 0 && all
	}
	positionOf := func(v ssa.Value, field string) bool {
		if strings.HasSuffix(symKey(v), ".LastChunk().End."+field) {
			return true
		}
		ld, ok := stripConv(v).(*ssa.UnOp)
		if !ok || ld.Op != token.MUL {
			return false
		}
		f2, ok := ld.X.(*ssa.FieldAddr)
		if !ok || fieldVarOfAddr(f2) == nil || fieldVarOfAddr(f2).Name() != field {
			return false
		}
		f1, ok := f2.X.(*ssa.FieldAddr)
		if !ok || fieldVarOfAddr(f1) == nil || fieldVarOfAddr(f1).Name() != "End" {
			return false
		}
		al, ok := f1.X.(*ssa.Alloc)
		return ok && isPosLocal(al)
	}
	r.Instance(rule, 1)
	why := ""
	if cur == nil {
		why = "nothing is subtracted in the bound of the slice handed to Read: the reader's in-block position is not taken into account"
	} else {
		for i, e := range cur.Edges {
			if k, ok := constInt(e); ok && k == 0 {
				continue
			}
			if !positionOf(e, "Block") {
				why += " cursor takes " + symKey(e) + ", not the reader's in-block position LastChunk().End.Block;"
				continue
			}
			pred := cur.Block().Preds[i]
			ok := false
			for _, b := range fn.Blocks {
				iff := ifOf(b)
				if iff == nil {
					continue
				}
				bo, isBo := iff.Cond.(*ssa.BinOp)
				if !isBo || bo.Op != token.EQL {
					continue
				}
				end := func(v ssa.Value) bool { return symKey(v) == "$0.chunks[0].End.File" }
				if !((positionOf(bo.X, "File") && end(bo.Y)) || (positionOf(bo.Y, "File") && end(bo.X))) {
					continue
				}
				if dominatedByEdge(fn, b, 0, pred) || (b == pred && pred.Succs[0] == cur.Block()) || b.Succs[0] == pred {
					ok = true
				}
			}
			if !ok {
				why += " the in-block position is subtracted without the test 'the reader is in the block where the chunk ends' (LastChunk().End.File == chunks[0].End.File): in the last block of a chunk that began in an earlier block the clamp is too wide and the read runs past the chunk end;"
			}
		}
	}
	r.Check(why == "", rule, "bgzf/index.(*ChunkReader).Read#cursor", c.Pos(fn.Pos()), "cursor = LastChunk().End.Block exactly when the reader is in the chunk's end block, else 0", why)
	// the clamp itself: p[:min(len(p), want-cursor)]
	r.Instance(rule, 1)
	why = "no Read of the underlying reader with a clamped slice found"
	allInstrs(fn, func(ins ssa.Instruction) {
		call, ok := ins.(*ssa.Call)
		if !ok || len(call.Call.Args) < 1 {
			return
		}
		g := staticCallee(&call.Call)
		if g == nil || g.Name() != "Read" {
			return
		}
		sl, ok := call.Call.Args[len(call.Call.Args)-1].(*ssa.Slice)
		if !ok || sl.High == nil {
			return
		}
		ub := upperBounds(sl.High, 0)
		want := false
		for k := range ub {
			if cur != nil && strings.Contains(k, "-1·"+symKey(cur)) {
				want = true
			}
		}
		if want && ub[pAtom("len("+symKey(sl.X)+")").canon()] {
			why = ""
		} else {
			var have []string
			for k := range ub {
				have = append(have, k)
			}
			why = fmt.Sprintf("the slice handed to Read is bounded by %v, want min(len(p), want − cursor)", have)
		}
	})
	r.Check(why == "", rule, "bgzf/index.(*ChunkReader).Read#clamp", c.Pos(fn.Pos()), "Read(p[:min(len(p), want − cursor)])", why)
}

// ruleSetChunkSeeks (SETCHUNK-SEEKS): bam.Reader.SetChunk with a chunk always
// seeks to the chunk's Begin before it installs the chunk: a reader that is
// already somewhere inside the chunk must still start at its beginning.
func ruleSetChunkSeeks(c *Ctx, r *Rep, tier string) {
	rule := "SETCHUNK-SEEKS"
	fn := c.Func("bam", "(*Reader).SetChunk")
	fC := c.Field("bam", "Reader", "c")
	r.Instance(rule, 1)
	isSeek := func(ins ssa.Instruction) bool {
		call, ok := ins.(*ssa.Call)
		if !ok {
			return false
		}
		g := staticCallee(&call.Call)
		return g != nil && g.Name() == "Seek" && strings.HasSuffix(symKey(call), ".Seek($1.Begin)")
	}
	var store ssa.Instruction
	allInstrs(fn, func(ins ssa.Instruction) {
		if st, ok := ins.(*ssa.Store); ok {
			if fa, ok := st.Addr.(*ssa.FieldAddr); ok && fieldVarOfAddr(fa) == fC {
				store = ins
			}
		}
	})
	why := ""
	anchored := false
	if store == nil {
		why = "SetChunk does not store the chunk"
	} else {
		// from the c != nil edge
		for _, b := range fn.Blocks {
			ce, ok := classifyErrIf(b, func(v ssa.Value) bool { return symKey(v) == "$1" })
			if !ok || !ce.isNil {
				continue
			}
			anchored = true
			start := Loc{b.Succs[1-ce.yes], -1}
			if bad, found := pathTo(start, is(store), isSeek, nil); found {
				why = fmt.Sprintf("with a non-nil chunk the assignment at %s is reachable without Seek(c.Begin): a reader positioned inside the chunk keeps its position and the records between the chunk's Begin and that position are never returned", c.Pos(bad.Pos()))
			}
		}
	}
	if why == "" && !anchored {
		why = "no test of the chunk argument against nil found: the rule's anchor moved (undecided)"
	}
	r.Check(why == "", rule, "bam.(*Reader).SetChunk#seek-begin", c.Pos(fn.Pos()), "every path with a chunk passes Seek(c.Begin) before br.c = c", why)
}

// ruleKeyBase (KEY-BASE): a cache's table maps a base to the block with that
// base: every table entry is made under the key b.Base() of the very block (or of
// the block in the very node) stored, and a node's block is set only when the
// node is created – a block swapped into an existing node keeps the old key.
func ruleKeyBase(c *Ctx, r *Rep, tier string) {
	rule := "KEY-BASE"
	n := 0
	for _, fn := range c.FuncsIn("bgzf/cache") {
		fn := fn
		allInstrs(fn, func(ins ssa.Instruction) {
			switch x := ins.(type) {
			case *ssa.MapUpdate:
				if !strings.HasSuffix(symKey(x.Map), ".table") {
					return
				}
				n++
				r.Instance(rule, 1)
				key := fmt.Sprintf("%s#table[%s]", c.FnName(fn), symKey(x.Key))
				vk, kk := symKey(x.Value), symKey(x.Key)
				ok := kk == vk+".Base()"
				if !ok {
					// a node: its b field was stored from the block whose Base() is the key
					if al, isAl := strip(x.Value).(*ssa.Alloc); isAl {
						for _, ref := range *al.Referrers() {
							if fa, isFa := ref.(*ssa.FieldAddr); isFa && fieldVarOfAddr(fa).Name() == "b" {
								for _, r2 := range *fa.Referrers() {
									if st, isSt := r2.(*ssa.Store); isSt && kk == symKey(st.Val)+".Base()" {
										ok = true
									}
								}
							}
						}
					}
				}
				r.Check(ok, rule, key, c.Pos(x.Pos()), "entered under the Base() of the block it holds", fmt.Sprintf("the table entry %s is made for the value %s: key and block base can differ", kk, vk))
			case *ssa.Store:
				fa, ok := x.Addr.(*ssa.FieldAddr)
				if !ok || fieldVarOfAddr(fa).Name() != "b" {
					return
				}
				pt, _ := fa.X.Type().Underlying().(*types.Pointer)
				if pt == nil || !strings.HasSuffix(pt.Elem().String(), ".node") {
					return
				}
				n++
				r.Instance(rule, 1)
				key := fmt.Sprintf("%s#node.b=%s", c.FnName(fn), symKey(x.Val))
				_, fresh := fa.X.(*ssa.Alloc)
				r.Check(fresh, rule, key, c.Pos(x.Pos()), "a node's block is set when the node is created", fmt.Sprintf("the block of an existing node (%s) is replaced: the table still maps the old base to this node, so Get(oldBase) returns a block of another member", symKey(fa.X)))
			}
		})
	}
	if n < 4 {
		r.Instance(rule, 1)
		r.Fail(rule, "bgzf/cache#table-entries", "bgzf/cache/cache.go", fmt.Sprintf("%d table entries / node assignments found, want at least 4", n))
	}
}

// ruleOwnerOnSuccess (OWNER-ON-SUCCESS): (*block).readFrom detaches the block
// (owner = nil) before it decodes into it and re-attaches it only on the
// success edge of the decode: a nil owner is what makes the reader refuse a
// half-built block instead of caching it.
func ruleOwnerOnSuccess(c *Ctx, r *Rep, tier string) {
	rule := "OWNER-ON-SUCCESS"
	fn := c.Func("bgzf", "(*block).readFrom")
	var dec *ssa.Call
	allInstrs(fn, func(ins ssa.Instruction) {
		if call, ok := ins.(*ssa.Call); ok {
			if g := staticCallee(&call.Call); g != nil && g.Name() == "readToEOF" {
				dec = call
			}
		}
	})
	if dec == nil {
		unresolved("bgzf.(*block).readFrom: no readToEOF call")
	}
	r.Instance(rule, 1)
	why := ""
	cleared, restored := false, 0
	for _, f := range withAnon(fn) {
		f := f
		allInstrs(f, func(ins ssa.Instruction) {
			st, ok := ins.(*ssa.Store)
			if !ok {
				return
			}
			fa, ok := st.Addr.(*ssa.FieldAddr)
			if !ok || fieldVarOfAddr(fa).Name() != "owner" {
				return
			}
			if isNilConst(st.Val) {
				if f == fn && instrDominates(st, dec) {
					cleared = true
				}
				return
			}
			restored++
			if f != fn {
				why += " the owner is restored in a deferred function, i.e. on every exit including the failed decode;"
				return
			}
			ok = false
			for _, b := range fn.Blocks {
				ce, isC := classifyErrIf(b, func(v ssa.Value) bool { ex, isEx := v.(*ssa.Extract); return isEx && ex.Tuple == ssa.Value(dec) })
				if isC && ce.isNil && dominatedByEdge(fn, b, ce.yes, st.Block()) {
					ok = true
				}
			}
			if !ok {
				why += fmt.Sprintf(" the owner is restored at %s on a path where the decode may have failed;", c.Pos(st.Pos()))
			}
		})
	}
	if !cleared {
		why += " the block is not detached (owner = nil) before the decode;"
	}
	if restored == 0 {
		why += " the owner is never restored;"
	}
	r.Check(why == "", rule, "bgzf.(*block).readFrom#owner", c.Pos(fn.Pos()), "owner = nil before the decode, restored on its success edge only", "a block whose decode failed (new base, old data) must not look owned – it would be cached and served on a later hit:"+why)
}

// ruleBaseDropsData (BASE-DROPS-DATA): a block that is given a new base has no
// data until a read into it succeeds: setBase clears the buffer. (A block with
// the new base and the old member's data is accepted by Seek's "same block,
// has data" shortcut and can be cached.)
func ruleBaseDropsData(c *Ctx, r *Rep, tier string) {
	rule := "BASE-DROPS-DATA"
	fn := c.Func("bgzf", "(*block).setBase")
	effs := effectsOf(fn)
	r.Instance(rule, 1)
	ok := hasEff(effs, "store", "$0.buf", "nil") != nil && hasEff(effs, "store", "$0.base", "$1") != nil
	r.Check(ok, rule, "bgzf.(*block).setBase#invalidates", c.Pos(fn.Pos()), "b.base = n together with b.buf = nil", "setBase re-targets the block but keeps the previous member's data: after a failed read the block looks like a valid block of the new base (wrong bytes after a retried Seek; cacheable)")
	// hasData is what the shortcuts test
	r.Instance(rule, 1)
	hd := c.Func("bgzf", "(*block).hasData")
	sr := symExec(hd, map[string]int64{})
	r.Check(len(sr.RetKeys) == 1 && sr.RetKeys[0] == "($0.buf!=nil)", rule, "bgzf.(*block).hasData#buf", c.Pos(hd.Pos()), "hasData() = (b.buf != nil)", "hasData is "+strings.Join(sr.RetKeys, ",")+": the invalidation by setBase is not what the reader's shortcuts look at")
}

// ruleSeekRedirect (SEEK-REDIRECT): when Reader.Seek replaces the current block
// with one from the cache, the read-ahead worker has to be told where the reader
// now is (a send on control), as the other two branches of Seek do – or the
// branch must be limited to the synchronous mode. Otherwise the worker keeps
// reading ahead of the *old* position and the next block change finds only
// blocks it does not expect.
func ruleSeekRedirect(c *Ctx, r *Rep, tier string) {
	rule := "SEEK-REDIRECT"
	fn := c.Func("bgzf", "(*Reader).Seek")
	var swap *ssa.Call
	var final ssa.Instruction
	allInstrs(fn, func(ins ssa.Instruction) {
		if call, ok := ins.(*ssa.Call); ok {
			if g := staticCallee(&call.Call); g != nil && g.Name() == "cacheSwap" {
				swap = call
			}
			if symKey(call) == "$0.current.seek($1.Block)" {
				final = call
			}
		}
	})
	if swap == nil || final == nil {
		unresolved("bgzf.(*Reader).Seek: cacheSwap call / final in-block seek not found")
	}
	r.Instance(rule, 1)
	isSend := func(ins ssa.Instruction) bool { return sendsOnControl(ins, 0) }
	why := ""
	for _, b := range fn.Blocks {
		iff := ifOf(b)
		if iff == nil || iff.Cond != ssa.Value(swap) {
			continue
		}
		_ = b
	}
	{
		// from the cacheSwap call, along "the cache supplied the block" only (the
		// result may be tested more than once: `if ok && … {…}; if !ok {…}`)
		hitOnly := func(from, to *ssa.BasicBlock) bool {
			if iff := ifOf(from); iff != nil && iff.Cond == ssa.Value(swap) && from.Succs[0] != from.Succs[1] && to == from.Succs[1] {
				return false
			}
			return syncOnlyEdge(from, to)
		}
		if _, reach := pathTo(locOf(swap), is(final), isSend, hitOnly); reach {
			why = "after a cache hit Seek goes on to position the new current block without telling the read-ahead worker (no send on control, no restriction to the synchronous mode): the worker keeps reading ahead of the old position"
		}
	}
	r.Check(why == "", rule, "bgzf.(*Reader).Seek#cache-hit-redirect", c.Pos(swap.Pos()), "the cache-hit branch redirects the read-ahead worker", why)

	// A redirect on the cache-hit branch is not enough by itself: that branch takes
	// no decompressor out of the queue, so every result already queued is stale –
	// up to cap(working) of them come before the block the reader then asks for,
	// and nextBlock gives up after cap(working) results ("unexpected block").
	r.Instance(rule, 1)
	why = ""
	takesDec := func(ins ssa.Instruction) bool {
		switch x := ins.(type) {
		case *ssa.UnOp:
			if x.Op == token.ARROW {
				f, _ := loadedField(x.X)
				return f != nil && (f.Name() == "waiting" || f.Name() == "working")
			}
		case *ssa.Select:
			for _, st := range x.States {
				if f, _ := loadedField(st.Chan); f != nil && (f.Name() == "waiting" || f.Name() == "working") {
					return true
				}
			}
		}
		return false
	}
	redirectsWithoutDec := false
	for _, b := range fn.Blocks {
		iff := ifOf(b)
		if iff == nil || iff.Cond != ssa.Value(swap) {
			continue
		}
		if _, reach := pathTo(Loc{b.Succs[0], -1}, isSend, func(x ssa.Instruction) bool { return takesDec(x) || x == final }, nil); reach {
			redirectsWithoutDec = true
		}
	}
	if redirectsWithoutDec {
		nb := c.Func("bgzf", "(*Reader).nextBlock")
		for _, b := range nb.Blocks {
			iff := ifOf(b)
			if iff == nil {
				continue
			}
			bo, ok := iff.Cond.(*ssa.BinOp)
			if !ok || bo.Op != token.LSS {
				continue
			}
			if call, ok := bo.Y.(*ssa.Call); ok {
				if cc, ok := isBuiltinCall(call, "cap"); ok {
					if f, _ := loadedField(cc.Args[0]); f != nil && f.Name() == "working" {
						why = "Seek redirects the worker on a cache hit without taking a decompressor out of the queue, and nextBlock still gives up after cap(working) results: all of them can be stale (read ahead of the old position), the wanted block is the one after, and the reader panics with \"unexpected block\""
					}
				}
			}
		}
	}
	r.Check(why == "", rule, "bgzf.(*Reader).Seek#cache-hit-redirect-drain", c.Pos(swap.Pos()), "no redirect that leaves cap(working) stale results in front of a scan bounded by cap(working)", why)
}

// syncOnlyEdge: false for an edge that establishes the synchronous mode
// (bg.dec != nil / bg.control == nil): the redirect obligation ends there.
func syncOnlyEdge(from, to *ssa.BasicBlock) bool {
	ce, ok := classifyErrIf(from, func(v ssa.Value) bool {
		f, _ := loadedField(v)
		return f != nil && (f.Name() == "dec" || f.Name() == "control")
	})
	if !ok || !ce.isNil {
		return true
	}
	f, _ := loadedField(ce.subj)
	nilEdge := from.Succs[ce.yes]
	if f.Name() == "control" && to == nilEdge {
		return false
	}
	if f.Name() == "dec" && to != nilEdge {
		return false
	}
	return true
}

// sendsOnControl: a send on the reader's control channel, directly or in a
// package function the instruction calls (readAheadFrom).
func sendsOnControl(ins ssa.Instruction, depth int) bool {
	if s, ok := ins.(*ssa.Send); ok {
		f, _ := loadedField(s.Chan)
		return f != nil && f.Name() == "control"
	}
	call, ok := ins.(*ssa.Call)
	if !ok || depth > 2 {
		return false
	}
	g := staticCallee(&call.Call)
	if g == nil || len(g.Blocks) == 0 || g.Pkg == nil || !strings.HasSuffix(g.Pkg.Pkg.Path(), "/bgzf") {
		return false
	}
	found := false
	allInstrs(g, func(x ssa.Instruction) {
		if !found && sendsOnControl(x, depth+1) {
			found = true
		}
	})
	return found
}

// rulePipeStall (PIPE-STALL): the read-ahead loop looks at the decompressor's
// error before it derives the next offset from the block it may have failed to
// read. A failed read leaves a block without header, NextBase() is -1, the
// worker then blocks on control – which only Seek feeds – while nextBlock,
// which discards error results for blocks it did not ask for, blocks on working.
func rulePipeStall(c *Ctx, r *Rep, tier string) {
	rule := "PIPE-STALL"
	worker, tested, found := workerTestsErr(c)
	r.Instance(rule, 1)
	why := ""
	if !found {
		why = "nextBlockAt / NextBase calls not found in the read-ahead loop"
	} else if !tested {
		// the other way to keep the pipeline alive: the consumer. nextBlock goes
		// back to wait on working only after a result it has found stale (made for
		// an earlier instruction: a generation carried by the decompressor differs
		// from the reader's); for a result of the current instruction that is not
		// the block it wants – the failed one that ends the chain included – it
		// reads the wanted block itself and re-points the worker.
		if w2 := consumerNeverWaitsOnFresh(c); w2 != "" {
			why = "the next read-ahead offset is taken from dec.blk.NextBase() whether or not nextBlockAt failed: after a failure it is -1 and the worker waits on control, which nothing but Seek feeds, while the reader waits on working for a block nobody is reading (" + w2 + ")"
		}
	}
	r.Check(why == "", rule, "bgzf.NewReader$read-ahead#error-before-next", c.Pos(worker.Pos()), "the loop tests the decompressor's error before deriving the next offset, or nextBlock waits again only after a stale result and otherwise reads the wanted block itself and re-points the worker", why)
}

// consumerNeverWaitsOnFresh: "" if, in nextBlock, every way from the receive on
// working back to that receive passes the "stale" edge of a comparison of a
// field of the received decompressor with a field of the reader, and every way
// from the receive to a return that passes the "not the wanted block" edge
// without being stale reads a member itself (nextBlockAt) and sends on control.
func consumerNeverWaitsOnFresh(c *Ctx) string {
	fn := c.Func("bgzf", "(*Reader).nextBlock")
	var recv *ssa.UnOp
	allInstrs(fn, func(ins ssa.Instruction) {
		if u, ok := ins.(*ssa.UnOp); ok && u.Op == token.ARROW {
			if f, _ := loadedField(u.X); f != nil && f.Name() == "working" {
				recv = u
			}
		}
	})
	if recv == nil {
		return "no receive on working in nextBlock"
	}
	// the stale test: dec.<field> != bg.<field>, dec the received value
	staleEdge := func(from, to *ssa.BasicBlock) bool {
		iff := ifOf(from)
		if iff == nil || from.Succs[0] == from.Succs[1] {
			return false
		}
		bo, ok := iff.Cond.(*ssa.BinOp)
		if !ok || (bo.Op != token.NEQ && bo.Op != token.EQL) {
			return false
		}
		ofDec := func(v ssa.Value) bool {
			ld, ok := v.(*ssa.UnOp)
			if !ok || ld.Op != token.MUL {
				return false
			}
			fa, ok := ld.X.(*ssa.FieldAddr)
			return ok && fa.X == ssa.Value(recv)
		}
		ofReader := func(v ssa.Value) bool {
			ld, ok := v.(*ssa.UnOp)
			if !ok || ld.Op != token.MUL {
				return false
			}
			fa, ok := ld.X.(*ssa.FieldAddr)
			return ok && origin(fa.X) == ssa.Value(fn.Params[0])
		}
		if !((ofDec(bo.X) && ofReader(bo.Y)) || (ofDec(bo.Y) && ofReader(bo.X))) {
			return false
		}
		k := 0 // the edge on which they differ
		if bo.Op == token.EQL {
			k = 1
		}
		return to == from.Succs[k]
	}
	anyStale := false
	for _, b := range fn.Blocks {
		for _, s := range b.Succs {
			if staleEdge(b, s) {
				anyStale = true
			}
		}
	}
	if !anyStale {
		return "nextBlock has no way to tell a stale result from one made for the current instruction"
	}
	// the stale predicate may be computed once and tested later (`stale := …`): edges
	// on a boolean that is that comparison count as well
	staleCond := map[ssa.Value]bool{}
	allInstrs(fn, func(ins ssa.Instruction) {
		if bo, ok := ins.(*ssa.BinOp); ok && (bo.Op == token.NEQ || bo.Op == token.EQL) {
			staleCond[bo] = true
		}
	})
	notStale := func(from, to *ssa.BasicBlock) bool { return !staleEdge(from, to) }
	if _, again := pathTo(locOf(recv), func(x ssa.Instruction) bool { return x == ssa.Instruction(recv) }, nil, notStale); again {
		return "nextBlock can go back to wait on working after a result that was not stale"
	}
	return ""
}

// workerTestsErr: the read-ahead literal of NewReader; whether a test of the
// decompressor's error, placed after nextBlockAt, decides if NextBase is asked.
func workerTestsErr(c *Ctx) (worker *ssa.Function, tested, found bool) {
	nr := c.Func("bgzf", "NewReader")
	for _, f := range nr.AnonFuncs {
		has := false
		allInstrs(f, func(ins ssa.Instruction) {
			if call, ok := ins.(*ssa.Call); ok {
				if g := staticCallee(&call.Call); g != nil && g.Name() == "nextBlockAt" {
					has = true
				}
			}
		})
		if has {
			worker = f
		}
	}
	if worker == nil {
		unresolved("bgzf.NewReader: read-ahead literal not found")
	}
	var nba, nb *ssa.Call
	allInstrs(worker, func(ins ssa.Instruction) {
		if call, ok := ins.(*ssa.Call); ok {
			name := ""
			if g := staticCallee(&call.Call); g != nil {
				name = g.Name()
			} else if call.Call.IsInvoke() {
				name = call.Call.Method.Name()
			}
			switch name {
			case "nextBlockAt":
				nba = call
			case "NextBase":
				nb = call
			}
		}
	})
	if nba == nil || nb == nil {
		return worker, false, false
	}
	for _, b := range worker.Blocks {
		iff := ifOf(b)
		if iff == nil {
			continue
		}
		if condMentions(iff.Cond, "err", 0) && instrDominates(nba, iff) && (dominatedByEdge(worker, b, 0, nb.Block()) || dominatedByEdge(worker, b, 1, nb.Block())) {
			tested = true
		}
	}
	return worker, tested, true
}

var _ = types.Typ
var _ = token.ADD

// failureInvalidates: on every path from the failure edge of the underlying Seek
// to a return, the recorded offset is set to a negative constant.
func failureInvalidates(c *Ctx, fn *ssa.Function, seek *ssa.Call, offF *types.Var) bool {
	isInval := func(x ssa.Instruction) bool {
		st, ok := x.(*ssa.Store)
		if !ok {
			return false
		}
		fa, ok := st.Addr.(*ssa.FieldAddr)
		if !ok || fieldVarOfAddr(fa) != offF {
			return false
		}
		k, isK := constInt(st.Val)
		return isK && k < 0
	}
	found := false
	for _, b := range fn.Blocks {
		ce, isC := classifyErrIf(b, func(v ssa.Value) bool { ex, isEx := v.(*ssa.Extract); return isEx && ex.Tuple == ssa.Value(seek) })
		if !isC || !ce.isNil || b.Succs[0] == b.Succs[1] {
			continue
		}
		found = true
		if _, ok := mustPass(Loc{b.Succs[1-ce.yes], -1}, isReturn, isInval, nil); !ok {
			return false
		}
	}
	return found
}
