// C18: bam.Merger – structural part.
//
// What the rules below establish, for every input and every schedule of source
// errors, is the skeleton a loss-free ordered merge needs:
//   - every record that leaves the Merger was linked (Ref and MateRef) to the
//     merged header through the link table of the source it was read from,
//   - heads are linked before they are compared, the comparators look at
//     reference ids (header order), positions and names only,
//   - only sources with a head record enter the heap,
//   - a source leaves the merge only at io.EOF or with its error latched and
//     returned; io.EOF is returned only when no source is left,
//   - one step of the sorted merge pops one source, returns its old head and
//     reads that source exactly once; ties go to the lower source index,
//   - the heap.Interface methods have their canonical meaning.
//
// They do not decide that the output is sorted or a permutation of the inputs:
// that needs the container/heap algorithm and the inputs' own order.
package main

import (
	"fmt"
	"go/constant"
	"go/token"
	"go/types"
	"strings"

	"golang.org/x/tools/go/ssa"
)

func mergerFuncs(c *Ctx) []*ssa.Function {
	var out []*ssa.Function
	for _, fn := range c.FuncsIn("bam") {
		if strings.HasPrefix(c.Pos(fn.Pos()), "bam/merger.go:") {
			out = append(out, fn)
		}
	}
	if len(out) < 8 {
		unresolved("bam/merger.go: %d functions found", len(out))
	}
	return out
}

// nilTestEdges: If-terminated blocks of fn that compare a value selected by
// match with nil; returns for each the successor index on which the value is
// known to be non-nil (nonNil) resp. nil.
type condEdge struct {
	b      *ssa.BasicBlock
	yes    int // successor index on which the predicate holds
	subj   ssa.Value
	isNil  bool // predicate is "subj == nil" (else "subj == io.EOF")
	binop  *ssa.BinOp
	constK int64
}

func isEOFLoad(v ssa.Value) bool {
	u, ok := strip(v).(*ssa.UnOp)
	if !ok || u.Op != token.MUL {
		return false
	}
	g, ok := u.X.(*ssa.Global)
	return ok && g.Name() == "EOF" && g.Pkg.Pkg.Path() == "io"
}

// classifyErrIf: the If at the end of b tests subj == nil / subj == io.EOF.
func classifyErrIf(b *ssa.BasicBlock, in func(ssa.Value) bool) (ce condEdge, ok bool) {
	iff := ifOf(b)
	if iff == nil {
		return ce, false
	}
	bo, isBo := iff.Cond.(*ssa.BinOp)
	if !isBo || (bo.Op != token.EQL && bo.Op != token.NEQ) {
		return ce, false
	}
	x, y := bo.X, bo.Y
	if !in(x) {
		x, y = y, x
	}
	if !in(x) {
		return ce, false
	}
	ce = condEdge{b: b, subj: x, binop: bo}
	switch {
	case isNilConst(y):
		ce.isNil = true
	case isEOFLoad(y):
	default:
		return ce, false
	}
	if bo.Op == token.EQL {
		ce.yes = 0
	} else {
		ce.yes = 1
	}
	return ce, true
}

// ---- RELINK-BOTH -----------------------------------------------------------------

func ruleRelinkBoth(c *Ctx, r *Rep, tier string) {
	rule := "RELINK-BOTH"
	refF, mateF := c.Field("sam", "Record", "Ref"), c.Field("sam", "Record", "MateRef")
	linksF := c.Field("bam", "Merger", "refLinks")
	idFn := c.Func("sam", "(*Reference).ID")
	refIDFn := c.FuncOpt("sam", "(*Record).RefID")
	found := map[*types.Var]int{}
	for _, fn := range mergerFuncs(c) {
		fn := fn
		allInstrs(fn, func(ins ssa.Instruction) {
			st, ok := ins.(*ssa.Store)
			if !ok {
				return
			}
			fa, ok := st.Addr.(*ssa.FieldAddr)
			if !ok {
				return
			}
			f := fieldVarOfAddr(fa)
			if f != refF && f != mateF {
				return
			}
			r.Instance(rule, 1)
			key := c.FnName(fn) + "#store-" + f.Name()
			why := ""
			// value = refLinks[id][<own id>]
			var i1, i2 *ssa.IndexAddr
			if u, ok := strip(st.Val).(*ssa.UnOp); ok && u.Op == token.MUL {
				i2, _ = u.X.(*ssa.IndexAddr)
			}
			if i2 != nil {
				if u, ok := strip(i2.X).(*ssa.UnOp); ok && u.Op == token.MUL {
					i1, _ = u.X.(*ssa.IndexAddr)
				}
			}
			if i1 == nil {
				why = "the stored reference is not taken from refLinks[source][id]: " + symKey(st.Val)
			} else {
				if lf, _ := loadedField(i1.X); lf != linksF {
					why += " the outer table is not Merger.refLinks;"
				}
				if p, ok := strip(i1.Index).(*ssa.Parameter); !ok || !types.Identical(p.Type().Underlying(), types.Typ[types.Int]) {
					why += " the first index is not the source id parameter (" + symKey(i1.Index) + ");"
				}
				okIdx := false
				if call, ok := strip(i2.Index).(*ssa.Call); ok {
					g := staticCallee(&call.Call)
					if g == idFn && len(call.Call.Args) == 1 {
						if lf, base := loadedField(call.Call.Args[0]); lf == f && base == fa.X {
							okIdx = true
						}
					}
					if g != nil && g == refIDFn && f == refF && len(call.Call.Args) == 1 && call.Call.Args[0] == fa.X {
						okIdx = true
					}
				}
				if !okIdx {
					why += fmt.Sprintf(" the second index is %s, not the id of the record's own %s in its source header;", symKey(i2.Index), f.Name())
				}
			}
			// guarded by field != nil (ID() of a nil reference is -1)
			guarded := false
			for _, b := range fn.Blocks {
				ce, ok := classifyErrIf(b, func(v ssa.Value) bool {
					lf, base := loadedField(v)
					return lf == f && base == fa.X
				})
				if ok && ce.isNil && dominatedByEdge(fn, b, 1-ce.yes, st.Block()) {
					guarded = true
				}
			}
			if !guarded {
				why += fmt.Sprintf(" the store is not guarded by %s != nil (the id of a nil reference is -1: index out of range for unplaced records);", f.Name())
			}
			if why == "" {
				found[f]++
			}
			r.Check(why == "", rule, key, c.Pos(st.Pos()), fmt.Sprintf("rec.%s = refLinks[source][rec.%s.ID()] under rec.%s != nil", f.Name(), f.Name(), f.Name()), why)
		})
	}
	// each field is relinked whenever it is set and there is a link table: no way
	// from the entry to a return avoids the store, other than over the "no table"
	// edge or the field's own "== nil" edge (added after a second-round seed: an
	// early return for rec.Ref == nil skipped the mate of unplaced reads)
	if relink := c.FuncOpt("bam", "(*Merger).reassignReference"); relink != nil {
		for _, f := range []*types.Var{refF, mateF} {
			f := f
			r.Instance(rule, 1)
			skipEdge := map[[2]*ssa.BasicBlock]bool{}
			for _, b := range relink.Blocks {
				ce, ok := classifyErrIf(b, func(v ssa.Value) bool {
					lf, _ := loadedField(v)
					return lf == f || lf == linksF
				})
				if ok && ce.isNil {
					skipEdge[[2]*ssa.BasicBlock{b, b.Succs[ce.yes]}] = true
				}
			}
			isStore := func(ins ssa.Instruction) bool {
				st, ok := ins.(*ssa.Store)
				if !ok {
					return false
				}
				fa, ok := st.Addr.(*ssa.FieldAddr)
				return ok && fieldVarOfAddr(fa) == f
			}
			bad, found := pathTo(entryLoc(relink), isReturn, isStore, func(from, to *ssa.BasicBlock) bool { return !skipEdge[[2]*ssa.BasicBlock{from, to}] })
			pos := c.Pos(relink.Pos())
			if found {
				pos = c.Pos(bad.Pos())
			}
			r.Check(!found, rule, "bam.(*Merger).reassignReference#always-"+f.Name(), pos, "with a link table and a non-nil "+f.Name()+", every path stores the linked reference", fmt.Sprintf("reassignReference can return without relinking a non-nil %s (a test of something else – e.g. the record's other reference – decides it): such records leave the Merger pointing into their source header", f.Name()))
		}
	}
	for _, f := range []*types.Var{refF, mateF} {
		r.Instance(rule, 1)
		r.Check(found[f] > 0, rule, "bam.Merger#relinks-"+f.Name(), "bam/merger.go", "a link store for "+f.Name()+" exists", fmt.Sprintf("no code in bam/merger.go replaces Record.%s by the merged header's reference: records leave the Merger pointing into their source header (wrong ID, foreign owner)", f.Name()))
	}
}

// ---- sources of a record / id ----------------------------------------------------

type mergerModel struct {
	c                                 *Ctx
	readF, pushF, popF, relinkF, catF *ssa.Function
	nextF, mReadF, newF               *ssa.Function
	fID, fR, fHead, fErr              *types.Var
	mReaders, mErr, mLess             *types.Var
	w                                 *Walker
}

func newMergerModel(c *Ctx) *mergerModel {
	return &mergerModel{c: c,
		readF: c.Func("bam", "(*Reader).Read"), pushF: c.Func("bam", "(*Merger).push"), popF: c.Func("bam", "(*Merger).pop"),
		relinkF: c.Func("bam", "(*Merger).reassignReference"), catF: c.Func("bam", "(*Merger).cat"),
		nextF: c.Func("bam", "(*Merger).nextBySortOrder"), mReadF: c.Func("bam", "(*Merger).Read"), newF: c.Func("bam", "NewMerger"),
		fID: c.Field("bam", "reader", "id"), fR: c.Field("bam", "reader", "r"), fHead: c.Field("bam", "reader", "head"), fErr: c.Field("bam", "reader", "err"),
		mReaders: c.Field("bam", "Merger", "readers"), mErr: c.Field("bam", "Merger", "err"), mLess: c.Field("bam", "Merger", "less"),
		w: NewWalker(c)}
}

// readCallOf: v is the record result of a (*Reader).Read call on ρ.r.
func (m *mergerModel) readCallOf(v ssa.Value) (*ssa.Call, ssa.Value) {
	ex, ok := strip(v).(*ssa.Extract)
	if !ok {
		return nil, nil
	}
	call, ok := ex.Tuple.(*ssa.Call)
	if !ok || staticCallee(&call.Call) != m.readF || len(call.Call.Args) != 1 {
		return nil, nil
	}
	f, base := loadedField(call.Call.Args[0])
	if f != m.fR {
		return call, nil
	}
	return call, base
}

// recSource: the reader ρ a record value was taken from, and the instruction at
// which it was taken (the Read call or the load of ρ.head).
func (m *mergerModel) recSource(v ssa.Value) (ssa.Value, ssa.Instruction, string) {
	if call, base := m.readCallOf(v); call != nil {
		return base, call, "read"
	}
	if f, base := loadedField(v); f == m.fHead {
		if ins, ok := strip(v).(ssa.Instruction); ok {
			return base, ins, "head"
		}
	}
	return nil, nil, ""
}

func (m *mergerModel) idSource(v ssa.Value) (ssa.Value, ssa.Instruction) {
	if f, base := loadedField(v); f == m.fID {
		if ins, ok := strip(v).(ssa.Instruction); ok {
			return base, ins
		}
	}
	return nil, nil
}

// storesField: ins assigns field f (directly, or through a callee that may).
func (m *mergerModel) storesField(ins ssa.Instruction, f *types.Var) bool {
	if st, ok := ins.(*ssa.Store); ok {
		if fa, ok := st.Addr.(*ssa.FieldAddr); ok && fieldVarOfAddr(fa) == f {
			return true
		}
	}
	if cc := callCommon(ins); cc != nil {
		for _, g := range m.c.resolveCallees(cc) {
			if m.w.mayStore(g)[f] {
				return true
			}
		}
	}
	return false
}

func is(x ssa.Instruction) func(ssa.Instruction) bool {
	return func(i ssa.Instruction) bool { return i == x }
}

func either(a, b ssa.Instruction) func(ssa.Instruction) bool {
	return func(i ssa.Instruction) bool { return i == a || i == b }
}

// staleBetween: the instance of x that reaches `use` can be separated from the
// instance of y that reaches `use` by an assignment to field f:
// x … store f … y … use, with x not executed again in between.
func (m *mergerModel) staleBetween(fn *ssa.Function, x, y, use ssa.Instruction, f *types.Var) ssa.Instruction {
	var hit ssa.Instruction
	allInstrs(fn, func(s ssa.Instruction) {
		if hit != nil || !m.storesField(s, f) || s == x || s == y {
			return
		}
		// (y may run before s as well: it is y's last evaluation that reaches use)
		if _, ok := pathTo(locOf(x), is(s), is(x), nil); !ok {
			return
		}
		if _, ok := pathTo(locOf(s), is(y), is(x), nil); !ok {
			return
		}
		if _, ok := pathTo(locOf(y), is(use), is(x), nil); !ok {
			return
		}
		hit = s
	})
	return hit
}

// storeBetween: some path a … s … b with s assigning field f.
func (m *mergerModel) storeBetween(fn *ssa.Function, a, b ssa.Instruction, f *types.Var) ssa.Instruction {
	var hit ssa.Instruction
	allInstrs(fn, func(s ssa.Instruction) {
		if hit != nil || !m.storesField(s, f) || s == a || s == b {
			return
		}
		if _, ok := pathTo(locOf(a), is(s), is(b), nil); !ok {
			return
		}
		if _, ok := pathTo(locOf(s), is(b), nil, nil); !ok {
			return
		}
		hit = s
	})
	return hit
}

// fullRangeHeader: l loads the err field of ρ = Merger.readers[k] inside
// "for k := range <Merger.readers>" (go/ssa's rangeindex loop: k = phi(-1, k+1),
// header test k+1 < len(slice)). Returns the header's comparison: executing it
// means every reader is visited (the body leaves the loop early only by return,
// which exploreErr examines). nil if l is not of that shape.
func (m *mergerModel) fullRangeHeader(l ssa.Instruction) ssa.Instruction {
	u, ok := l.(*ssa.UnOp)
	if !ok {
		return nil
	}
	f, base := loadedField(u)
	if f != m.fErr {
		return nil
	}
	bu, ok := strip(base).(*ssa.UnOp)
	if !ok || bu.Op != token.MUL {
		return nil
	}
	ia, ok := bu.X.(*ssa.IndexAddr)
	if !ok {
		return nil
	}
	if sf, _ := loadedField(ia.X); sf != m.mReaders {
		return nil
	}
	// the counter: go/ssa's range form k = φ(−1, k+1) used as k+1, or a written
	// loop i = φ(0, i+1) used as i
	var phi *ssa.Phi
	var cur ssa.Value // the value compared with the length and used as index
	var wantStart int64
	if inc, ok := ia.Index.(*ssa.BinOp); ok && inc.Op == token.ADD {
		if k, ok := constInt(inc.Y); !ok || k != 1 {
			return nil
		}
		phi, _ = inc.X.(*ssa.Phi)
		cur, wantStart = inc, -1
	} else if p, ok := ia.Index.(*ssa.Phi); ok {
		phi, cur, wantStart = p, p, 0
	}
	if phi == nil {
		return nil
	}
	start := false
	for _, e := range phi.Edges {
		if k, ok := constInt(e); ok && k == wantStart {
			start = true
			continue
		}
		step, ok := e.(*ssa.BinOp)
		if !ok || step.Op != token.ADD || step.X != ssa.Value(phi) {
			return nil
		}
		if k, ok := constInt(step.Y); !ok || k != 1 {
			return nil
		}
	}
	iff := ifOf(phi.Block())
	if !start || iff == nil {
		return nil
	}
	cmp, ok := iff.Cond.(*ssa.BinOp)
	if !ok || cmp.Op != token.LSS || cmp.X != cur {
		return nil
	}
	ln, ok := cmp.Y.(*ssa.Call)
	if !ok {
		return nil
	}
	// (a written loop evaluates len(m.readers) and m.readers[k] from separate loads:
	// same expression; Merger.readers is not assigned inside such a loop – the
	// consuming-region check would see the store)
	if cc, isLen := isBuiltinCall(ln, "len"); !isLen || (cc.Args[0] != ia.X && symKey(cc.Args[0]) != symKey(ia.X)) {
		return nil
	}
	return cmp
}

func defInstr(v ssa.Value) ssa.Instruction {
	ins, _ := strip(v).(ssa.Instruction)
	return ins
}

// relinkCalls: all calls of reassignReference in merger.go.
type relinkCall struct {
	fn   *ssa.Function
	call *ssa.Call
	rho  ssa.Value // source reader of the record argument
	kind string
	at   ssa.Instruction // where the record was taken
}

func (m *mergerModel) relinkCalls() []relinkCall {
	var out []relinkCall
	for _, fn := range mergerFuncs(m.c) {
		fn := fn
		allInstrs(fn, func(ins ssa.Instruction) {
			call, ok := ins.(*ssa.Call)
			if !ok || staticCallee(&call.Call) != m.relinkF || len(call.Call.Args) != 3 {
				return
			}
			rho, at, kind := m.recSource(call.Call.Args[2])
			out = append(out, relinkCall{fn, call, rho, kind, at})
		})
	}
	return out
}

// ---- SAME-SOURCE -------------------------------------------------------------------

func ruleSameSource(c *Ctx, r *Rep, tier string) {
	rule := "SAME-SOURCE"
	m := newMergerModel(c)
	for _, rc := range m.relinkCalls() {
		r.Instance(rule, 1)
		key := c.FnName(rc.fn) + "#relink(" + symKey(rc.call.Call.Args[2]) + ")"
		idRho, idAt := m.idSource(rc.call.Call.Args[1])
		why := ""
		switch {
		case rc.rho == nil:
			why = "cannot tell which source the record " + symKey(rc.call.Call.Args[2]) + " was read from"
		case idRho == nil:
			why = "the source index " + symKey(rc.call.Call.Args[1]) + " is not the id field of a reader"
		case idRho == rc.rho:
		case symKey(idRho) != symKey(rc.rho):
			why = fmt.Sprintf("the record comes from %s but is linked through the table of %s", symKey(rc.rho), symKey(idRho))
		default:
			// same expression, evaluated twice: Merger.readers must not change in between
			a, b := defInstr(idRho), defInstr(rc.rho)
			_ = idAt
			if a == nil || b == nil {
				why = "cannot locate the two evaluations of " + symKey(rc.rho)
			} else if s := m.staleBetween(rc.fn, a, b, rc.call, m.mReaders); s != nil {
				why = fmt.Sprintf("the source index is read from %s before Merger.readers is reassigned at %s and the record is read from %s after it: records of a later source are linked through the table of an earlier one (wrong or out-of-range reference)", symKey(idRho), c.Pos(s.Pos()), symKey(rc.rho))
			} else if s := m.staleBetween(rc.fn, b, a, rc.call, m.mReaders); s != nil {
				why = fmt.Sprintf("the record is read from %s before Merger.readers is reassigned at %s and the source index is read after it", symKey(rc.rho), c.Pos(s.Pos()))
			}
		}
		r.Check(why == "", rule, key, c.Pos(rc.call.Pos()), "record and link table index come from the same reader "+symKey(rc.rho), why)
	}
}

// ---- HEAD-LINKED and HEAP-MEMBER-GUARD ------------------------------------------------

// heapEntries: places where a reader becomes a member of the heap:
// push(ρ) calls, and the elements of the slice installed before heap.Init.
type heapEntry struct {
	fn   *ssa.Function
	at   ssa.Instruction
	rho  ssa.Value
	what string
	bad  string
}

func varargElems(sl ssa.Value) []ssa.Value {
	s, ok := sl.(*ssa.Slice)
	if !ok {
		return nil
	}
	al, ok := s.X.(*ssa.Alloc)
	if !ok {
		return nil
	}
	var out []ssa.Value
	for _, ref := range *al.Referrers() {
		if ia, ok := ref.(*ssa.IndexAddr); ok {
			for _, r2 := range *ia.Referrers() {
				if st, ok := r2.(*ssa.Store); ok && st.Addr == ia {
					out = append(out, st.Val)
				}
			}
		}
	}
	return out
}

func (m *mergerModel) sliceMembers(v ssa.Value, seen map[ssa.Value]bool, out *[]heapEntry, fn *ssa.Function) {
	v = stripNoPhi(v)
	if seen[v] {
		return
	}
	seen[v] = true
	switch x := v.(type) {
	case *ssa.Phi:
		for _, e := range x.Edges {
			m.sliceMembers(e, seen, out, fn)
		}
	case *ssa.Slice:
		if x.High != nil {
			if k, ok := constInt(x.High); ok && k == 0 {
				return // empty
			}
		}
		*out = append(*out, heapEntry{fn: fn, at: x, bad: "the heap is initialised over " + symKey(x) + ", whose members were not filtered"})
	case *ssa.Call:
		if cc, ok := isBuiltinCall(x, "append"); ok && len(cc.Args) == 2 {
			m.sliceMembers(cc.Args[0], seen, out, fn)
			els := varargElems(cc.Args[1])
			if els == nil {
				*out = append(*out, heapEntry{fn: fn, at: x, bad: "append of an unknown slice " + symKey(cc.Args[1])})
			}
			for _, e := range els {
				*out = append(*out, heapEntry{fn: fn, at: x, rho: e, what: "append(" + symKey(e) + ") before heap.Init"})
			}
			return
		}
		*out = append(*out, heapEntry{fn: fn, at: x, bad: "the heap is initialised over " + symKey(x)})
	default:
		ins, _ := v.(ssa.Instruction)
		*out = append(*out, heapEntry{fn: fn, at: ins, bad: "the heap is initialised over " + symKey(v) + ", whose members were not filtered"})
	}
}

func (m *mergerModel) heapEntries() []heapEntry {
	var out []heapEntry
	for _, fn := range mergerFuncs(m.c) {
		fn := fn
		allInstrs(fn, func(ins ssa.Instruction) {
			call, ok := ins.(*ssa.Call)
			if !ok {
				return
			}
			g := staticCallee(&call.Call)
			if g == m.pushF && len(call.Call.Args) == 2 {
				out = append(out, heapEntry{fn: fn, at: call, rho: call.Call.Args[1], what: "push(" + symKey(call.Call.Args[1]) + ")"})
			}
			if g != nil && g.Name() == "Init" && g.Pkg != nil && g.Pkg.Pkg.Path() == "container/heap" {
				// the nearest preceding assignment of Merger.readers in the same block
				var st *ssa.Store
				for _, x := range call.Block().Instrs {
					if x == ins {
						break
					}
					if s, ok := x.(*ssa.Store); ok {
						if fa, ok := s.Addr.(*ssa.FieldAddr); ok && fieldVarOfAddr(fa) == m.mReaders {
							st = s
						}
					}
				}
				if st == nil {
					out = append(out, heapEntry{fn: fn, at: call, bad: "heap.Init is called without rebuilding Merger.readers from the sources that have a head record (all sources, including exhausted and failed ones, enter the heap)"})
					return
				}
				m.sliceMembers(st.Val, map[ssa.Value]bool{}, &out, fn)
			}
		})
	}
	return out
}

func ruleHeapMember(c *Ctx, r *Rep, tier string) {
	rule := "HEAP-MEMBER-GUARD"
	m := newMergerModel(c)
	n := 0
	for _, he := range m.heapEntries() {
		r.Instance(rule, 1)
		n++
		if he.bad != "" {
			pos := "bam/merger.go"
			if he.at != nil {
				pos = c.Pos(he.at.Pos())
			}
			r.Fail(rule, c.FnName(he.fn)+"#heap-content", pos, he.bad+": the comparison function is called with a nil head (panic) or a failed source is silently merged")
			continue
		}
		key := c.FnName(he.fn) + "#" + he.what
		// dominated by ρ.err == nil, ρ.err not assigned in between
		ok := false
		for _, b := range he.fn.Blocks {
			ce, isC := classifyErrIf(b, func(v ssa.Value) bool {
				f, base := loadedField(v)
				return f == m.fErr && (base == he.rho || symKey(base) == symKey(he.rho))
			})
			if !isC || !ce.isNil || !dominatedByEdge(he.fn, b, ce.yes, he.at.Block()) {
				continue
			}
			ld := defInstr(ce.subj)
			if ld != nil && m.storeBetween(he.fn, ld, he.at, m.fErr) == nil {
				ok = true
			}
		}
		r.Check(ok, rule, key, c.Pos(he.at.Pos()), "the reader enters the heap only on the edge where its err == nil (bam.Reader.Read returns a record with a nil error: READ-CONTRACT)", "a reader enters the heap without a test that its last Read succeeded: its head may be nil (the comparison function dereferences it) or stale")
	}
	if n == 0 {
		r.Fail(rule, "bam.Merger#heap-entries", "bam/merger.go", "no place where a reader enters the heap was found")
	}
}

func ruleHeadLinked(c *Ctx, r *Rep, tier string) {
	rule := "HEAD-LINKED"
	m := newMergerModel(c)
	calls := m.relinkCalls()
	linkedAt := func(fn *ssa.Function, rho ssa.Value, use ssa.Instruction) string {
		for _, rc := range calls {
			if rc.fn != fn || rc.rho == nil || rc.kind != "head" {
				continue
			}
			if rc.rho != rho && symKey(rc.rho) != symKey(rho) {
				continue
			}
			if !instrDominates(rc.call, use) {
				continue
			}
			// the head that was linked is the head that enters: no assignment of head between taking it and the use
			if s := m.storeBetween(fn, rc.at, use, m.fHead); s != nil {
				return fmt.Sprintf("the head linked at %s is replaced at %s before the reader enters the heap", c.Pos(rc.call.Pos()), c.Pos(s.Pos()))
			}
			return ""
		}
		return "no reassignReference call for this reader's head dominates this point: heads are compared (reference ids!) and later returned while they still point into their source header"
	}
	for _, he := range m.heapEntries() {
		if he.bad != "" {
			continue // reported by HEAP-MEMBER-GUARD
		}
		r.Instance(rule, 1)
		why := linkedAt(he.fn, he.rho, he.at)
		r.Check(why == "", rule, c.FnName(he.fn)+"#"+he.what, c.Pos(he.at.Pos()), "the head was linked to the merged header before the reader enters the heap", why)
	}
	// records returned by the concatenating merge: linked before the return
	allInstrs(m.catF, func(ins ssa.Instruction) {
		ret, ok := ins.(*ssa.Return)
		if !ok {
			return
		}
		rv := retValue(ret, 0)
		if isNilConst(rv) {
			return
		}
		r.Instance(rule, 1)
		key := c.FnName(m.catF) + "#return(" + symKey(rv) + ")"
		ok = false
		for _, rc := range calls {
			if rc.fn == m.catF && strip(rc.call.Call.Args[2]) == strip(rv) && instrDominates(rc.call, ret) {
				ok = true
			}
		}
		r.Check(ok, rule, key, c.Pos(ret.Pos()), "the returned record was linked first", "cat returns a record that was not passed through reassignReference")
	})
}

// ---- READ-CONTRACT: bam.(*Reader).Read never returns (nil, nil) ---------------------------

func ruleReadContract(c *Ctx, r *Rep, tier string) {
	rule := "READ-CONTRACT"
	fn := c.Func("bam", "(*Reader).Read")
	allInstrs(fn, func(ins ssa.Instruction) {
		ret, ok := ins.(*ssa.Return)
		if !ok {
			return
		}
		rec, e := retValue(ret, 0), retValue(ret, 1)
		r.Instance(rule, 1)
		key := fmt.Sprintf("%s#return(%s,%s)", c.FnName(fn), symKey(rec), symKey(e))
		switch {
		case isNilConst(rec):
			okE := isEOFLoad(e)
			if call, isCall := strip(e).(*ssa.Call); isCall {
				if g := staticCallee(&call.Call); g != nil && (g.Name() == "New" || g.Name() == "Errorf") {
					okE = true
				}
			}
			if !okE {
				for _, b := range fn.Blocks {
					ce, isC := classifyErrIf(b, func(v ssa.Value) bool {
						return strip(v) == strip(e) || (symKey(v) == symKey(e) && !strings.HasPrefix(symKey(e), "phi"))
					})
					if isC && ce.isNil && dominatedByEdge(fn, b, 1-ce.yes, ret.Block()) {
						okE = true
					}
				}
			}
			r.Check(okE, rule, key, c.Pos(ret.Pos()), "a nil record is returned only with a non-nil error", "Read may return (nil, nil): Merger treats err == nil as 'the source has a head record'")
		default:
			r.Check(isNonNilValue(strip(rec)) && isNilConst(e), rule, key, c.Pos(ret.Pos()), "a non-nil record with a nil error", "unexpected return shape: "+symKey(rec)+", "+symKey(e))
		}
	})
}

// ---- ERR-MERGER ---------------------------------------------------------------------------

// exploreErr walks forward from `from`. inX selects the values that stand for
// the error under consideration. Paths end harmlessly on the nil edge and on the
// io.EOF edge of a test of the error, at a store of it into Merger.err, and at a
// return of it. Any other return, and reaching `again`, is reported.
func (m *mergerModel) exploreErr(fn *ssa.Function, from Loc, inX func(ssa.Value) bool, again ssa.Instruction) (ssa.Instruction, string) {
	type item struct {
		b *ssa.BasicBlock
		i int
	}
	seen := map[*ssa.BasicBlock]bool{}
	work := []item{{from.B, from.I + 1}}
	for len(work) > 0 {
		it := work[len(work)-1]
		work = work[:len(work)-1]
		done := false
		for i := it.i; i < len(it.b.Instrs) && !done; i++ {
			ins := it.b.Instrs[i]
			if ins == again {
				return ins, "the source is read again (or the walk restarts) while its error has been neither returned nor kept"
			}
			switch x := ins.(type) {
			case *ssa.Store:
				if fa, ok := x.Addr.(*ssa.FieldAddr); ok && fieldVarOfAddr(fa) == m.mErr && inX(x.Val) {
					done = true
				}
			case *ssa.Return:
				n := len(x.Results)
				if n > 0 && inX(retValue(x, n-1)) {
					done = true
				} else {
					return ins, "this return is reached with the source's error neither io.EOF, nor returned, nor kept in Merger.err"
				}
			case *ssa.Panic:
				done = true
			}
		}
		if done {
			continue
		}
		ce, isC := classifyErrIf(it.b, inX)
		for k, s := range it.b.Succs {
			if isC && k == ce.yes {
				continue // err == nil, or err == io.EOF: nothing to report
			}
			if !seen[s] {
				seen[s] = true
				work = append(work, item{s, 0})
			}
		}
	}
	return nil, ""
}

func ruleErrMerger(c *Ctx, r *Rep, tier string) {
	rule := "ERR-MERGER"
	m := newMergerModel(c)
	sites := 0
	for _, fn := range mergerFuncs(c) {
		fn := fn
		var transfers []*ssa.Store
		handledBases := map[ssa.Value]bool{}
		allInstrs(fn, func(ins ssa.Instruction) {
			call, ok := ins.(*ssa.Call)
			if !ok || staticCallee(&call.Call) != m.readF {
				return
			}
			sites++
			r.Instance(rule, 1)
			key := c.FnName(fn) + "#" + symKey(call)
			var E *ssa.Extract
			for _, ref := range *call.Referrers() {
				if ex, ok := ref.(*ssa.Extract); ok && ex.Index == 1 {
					E = ex
				}
			}
			if E == nil {
				r.Fail(rule, key, c.Pos(call.Pos()), "the error result of this Read is discarded")
				return
			}
			// is E kept in a reader.err field?
			var base ssa.Value
			var store *ssa.Store
			for _, ref := range *E.Referrers() {
				if st, ok := ref.(*ssa.Store); ok {
					if fa, ok := st.Addr.(*ssa.FieldAddr); ok && fieldVarOfAddr(fa) == m.fErr {
						base, store = fa.X, st
					}
				}
			}
			loadsOfBase := 0
			if base != nil {
				allInstrs(fn, func(x ssa.Instruction) {
					if v, ok := x.(ssa.Value); ok {
						if f, b := loadedField(v); f == m.fErr && b == base {
							if _, isLoad := x.(*ssa.UnOp); isLoad {
								loadsOfBase++
							}
						}
					}
				})
			}
			if base != nil && loadsOfBase == 0 {
				// transfer: the error is parked in the reader for a later phase of this function
				transfers = append(transfers, store)
				r.Pass(rule, key, c.Pos(call.Pos()), "the error is stored in the reader's err field; the consuming loop is checked below")
				return
			}
			if base != nil {
				handledBases[base] = true
			}
			inX := func(v ssa.Value) bool {
				if strip(v) == ssa.Value(E) {
					return true
				}
				if base != nil {
					if f, b := loadedField(v); f == m.fErr && b == base {
						return true
					}
				}
				return false
			}
			start := locOf(call)
			if store != nil {
				start = locOf(store)
			}
			bad, how := m.exploreErr(fn, start, inX, call)
			if bad != nil {
				r.Fail(rule, key, c.Pos(bad.Pos()), how+": a failing input ends the merge as if it had ended cleanly (or is read again)")
			} else {
				r.Pass(rule, key, c.Pos(call.Pos()), "every path after the Read either tests err == nil / err == io.EOF, or returns the error, or keeps it in Merger.err")
			}
		})
		// consumption regions: loads of reader.err whose reader was not read in this function
		regions := 0
		var regionLoads []ssa.Instruction
		doneBase := map[ssa.Value]bool{}
		allInstrs(fn, func(x ssa.Instruction) {
			u, ok := x.(*ssa.UnOp)
			if !ok {
				return
			}
			f, base := loadedField(u)
			if f != m.fErr || handledBases[base] {
				return
			}
			regionLoads = append(regionLoads, x)
			if doneBase[base] {
				return
			}
			doneBase[base] = true
			regions++
			sites++
			r.Instance(rule, 1)
			key := c.FnName(fn) + "#consume(" + symKey(u) + ")"
			inX := func(v ssa.Value) bool {
				f, b := loadedField(v)
				return f == m.fErr && b == base
			}
			loc := locOf(x)
			loc.I-- // include x itself? start just before: the load has no effect
			bad, how := m.exploreErr(fn, loc, inX, nil)
			if bad != nil {
				r.Fail(rule, key, c.Pos(bad.Pos()), how+": a source whose first read failed is dropped like an empty one")
			} else {
				r.Pass(rule, key, c.Pos(x.Pos()), "the reader's parked error is classified: nil → kept, io.EOF → dropped, otherwise returned")
			}
		})
		for _, st := range transfers {
			r.Instance(rule, 1)
			key := c.FnName(fn) + "#parked-error-consumed"
			if regions == 0 {
				r.Fail(rule, key, c.Pos(st.Pos()), "the error of the first read is stored in the reader and never looked at again in "+fn.Name())
				continue
			}
			// every path from the store to a successful return passes a consuming load
			w := NewWalker(c)
			w.Effect = func(ins ssa.Instruction) (string, bool) {
				for _, l := range regionLoads {
					if l == ins || m.fullRangeHeader(l) == ins {
						return "consume", true
					}
				}
				if ins == ssa.Instruction(st) {
					return "park", true
				}
				return "", false
			}
			bad := ""
			// from the entry, so that repeated tests of the same field (less == nil) correlate
			for _, pe := range w.Walk(fn, entryLoc(fn)) {
				ret, ok := pe.At.(*ssa.Return)
				if !ok || len(pe.Ret) == 0 || !isNilConst(pe.Ret[len(pe.Ret)-1]) || pe.Counts["park"] == 0 {
					continue
				}
				if pe.Counts["consume"] == 0 {
					bad = fmt.Sprintf("path %s reaches the successful return at %s without examining the parked errors", traceStr(pe.Trace), c.Pos(ret.Pos()))
					break
				}
			}
			if w.overflow {
				bad = "path enumeration overflow"
			}
			r.Check(bad == "", rule, key, c.Pos(st.Pos()), "every path from the parked error to a successful return runs the classifying loop", bad)
		}
	}
	// Merger.Read reports the latched error before anything else
	r.Instance(rule, 1)
	{
		fn := m.mReadF
		key := c.FnName(fn) + "#latched-first"
		var edges []condEdge
		for _, b := range fn.Blocks {
			if ce, ok := classifyErrIf(b, func(v ssa.Value) bool { f, _ := loadedField(v); return f == m.mErr }); ok && ce.isNil {
				edges = append(edges, ce)
			}
		}
		why := ""
		if len(edges) == 0 {
			why = "Merger.Read never tests Merger.err: an error kept by nextBySortOrder is never reported and the merge ends with io.EOF"
		}
		allInstrs(fn, func(ins ssa.Instruction) {
			if why != "" {
				return
			}
			need := false
			if call, ok := ins.(*ssa.Call); ok {
				if g := staticCallee(&call.Call); g == m.catF || g == m.nextF {
					need = true
				}
			}
			if ret, ok := ins.(*ssa.Return); ok && len(ret.Results) == 2 && isEOFLoad(retValue(ret, 1)) {
				need = true
			}
			if !need {
				return
			}
			dom := false
			for _, ce := range edges {
				if dominatedByEdge(fn, ce.b, ce.yes, ins.Block()) {
					dom = true
				}
			}
			if !dom {
				why = fmt.Sprintf("%s is reachable while Merger.err is set: the kept error is skipped", c.Pos(ins.Pos()))
			}
		})
		// and the non-nil edge returns it
		for _, ce := range edges {
			for _, ins := range ce.b.Succs[1-ce.yes].Instrs {
				if ret, ok := ins.(*ssa.Return); ok {
					if f, _ := loadedField(retValue(ret, 1)); f != m.mErr {
						why = "the Merger.err != nil branch does not return Merger.err"
					}
				}
			}
		}
		r.Check(why == "", rule, key, c.Pos(fn.Pos()), "Read returns Merger.err, when set, before reading or reporting io.EOF", why)
	}
	if sites < 4 {
		r.Fail(rule, "bam.Merger#read-sites", "bam/merger.go", fmt.Sprintf("only %d Read sites / parked-error regions found (3 + 1 expected)", sites))
	}
}

// ---- EOF-EMPTY ------------------------------------------------------------------------

func ruleEOFEmpty(c *Ctx, r *Rep, tier string) {
	rule := "EOF-EMPTY"
	m := newMergerModel(c)
	n := 0
	for _, fn := range []*ssa.Function{m.mReadF, m.catF, m.nextF} {
		fn := fn
		allInstrs(fn, func(ins ssa.Instruction) {
			ret, ok := ins.(*ssa.Return)
			if !ok || len(ret.Results) != 2 || !isEOFLoad(retValue(ret, 1)) {
				return
			}
			n++
			r.Instance(rule, 1)
			key := fmt.Sprintf("%s#return-EOF~%d", c.FnName(fn), n)
			ok = false
			for _, b := range fn.Blocks {
				iff := ifOf(b)
				if iff == nil {
					continue
				}
				bo, isBo := iff.Cond.(*ssa.BinOp)
				if !isBo {
					continue
				}
				k, isK := constInt(bo.Y)
				if !isK || k != 0 || symKey(bo.X) != "len($0.readers)" {
					continue
				}
				var yes int
				switch bo.Op {
				case token.EQL, token.LEQ:
					yes = 0
				case token.NEQ, token.GTR:
					yes = 1
				default:
					continue
				}
				if dominatedByEdge(fn, b, yes, ret.Block()) {
					// readers not extended in between is immaterial: only shrinking happens on the way
					ok = true
				}
			}
			r.Check(ok, rule, key, c.Pos(ret.Pos()), "io.EOF is returned only on the len(m.readers) == 0 edge", "io.EOF is returned while sources may remain: their records are lost")
		})
	}
	if n == 0 {
		r.Fail(rule, "bam.Merger#eof", "bam/merger.go", "no return of io.EOF found in Read/cat/nextBySortOrder")
	}
}

// ---- ONCE: one step of the sorted merge ----------------------------------------------------

func ruleMergeStep(c *Ctx, r *Rep, tier string) {
	rule := "STEP-ONCE"
	m := newMergerModel(c)
	fn := m.nextF
	r.Instance(rule, 1)
	key := c.FnName(fn) + "#step"
	w := NewWalker(c)
	var popCall, readCall *ssa.Call
	w.Effect = func(ins ssa.Instruction) (string, bool) {
		if call, ok := ins.(*ssa.Call); ok {
			switch staticCallee(&call.Call) {
			case m.popF:
				popCall = call
				return "pop", true
			case m.readF:
				readCall = call
				return "read", true
			case m.pushF:
				return "push", true
			case m.mReadF, m.catF, m.nextF:
				return "recurse", true
			}
		}
		return "", false
	}
	why := ""
	ends := w.Walk(fn, entryLoc(fn))
	for _, pe := range ends {
		ret, ok := pe.At.(*ssa.Return)
		if !ok {
			continue
		}
		if pe.Counts["pop"] != 1 || pe.Counts["read"] != 1 || pe.Counts["push"] > 1 || pe.Counts["recurse"] != 0 {
			why = fmt.Sprintf("path %s: pop=%d read=%d push=%d recursive reads=%d (want 1, 1, ≤1, 0)", traceStr(pe.Trace), pe.Counts["pop"], pe.Counts["read"], pe.Counts["push"], pe.Counts["recurse"])
			break
		}
		if len(pe.Ret) != 2 || !isNilConst(pe.Ret[1]) {
			why = "a step returns something else than (old head, nil) at " + c.Pos(ret.Pos())
			break
		}
		f, base := loadedField(pe.Ret[0])
		ld := defInstr(pe.Ret[0])
		if f != m.fHead || popCall == nil || strip(base) != ssa.Value(popCall) || ld == nil {
			why = "the returned record is " + symKey(pe.Ret[0]) + ", not the head of the popped reader"
			break
		}
		if readCall == nil {
			why = "no Read"
			break
		}
		if f2, b2 := loadedField(readCall.Call.Args[0]); f2 != m.fR || strip(b2) != ssa.Value(popCall) {
			why = "the reader that is advanced (" + symKey(readCall.Call.Args[0]) + ") is not the one that was popped"
			break
		}
		if !instrDominates(ld, readCall) {
			why = "the returned head is loaded after the next record was read into it: the first record of every source is lost and the last is returned twice"
			break
		}
	}
	if len(ends) == 0 || w.overflow {
		why = "no path enumerated"
	}
	// the Read's results go to head and err of the popped reader
	if why == "" {
		okH, okE := false, false
		for _, ref := range *readCall.Referrers() {
			ex, ok := ref.(*ssa.Extract)
			if !ok {
				continue
			}
			for _, r2 := range *ex.Referrers() {
				if st, ok := r2.(*ssa.Store); ok {
					if fa, ok := st.Addr.(*ssa.FieldAddr); ok && strip(fa.X) == ssa.Value(popCall) {
						if ex.Index == 0 && fieldVarOfAddr(fa) == m.fHead {
							okH = true
						}
						if ex.Index == 1 && fieldVarOfAddr(fa) == m.fErr {
							okE = true
						}
					}
				}
			}
		}
		if !okH || !okE {
			why = "the results of the Read are not stored as the popped reader's head and err"
		}
	}
	r.Check(why == "", rule, key, c.Pos(fn.Pos()), "every path: one pop, one Read of the popped reader into its head/err, at most one push, returns the head held before the Read", why)

	// pop/push are the heap operations on the Merger itself
	for _, pp := range []struct {
		fn   *ssa.Function
		name string
	}{{m.popF, "Pop"}, {m.pushF, "Push"}} {
		r.Instance(rule, 1)
		ok := false
		allInstrs(pp.fn, func(ins ssa.Instruction) {
			if call, isCall := ins.(*ssa.Call); isCall {
				if g := staticCallee(&call.Call); g != nil && g.Name() == pp.name && g.Pkg != nil && g.Pkg.Pkg.Path() == "container/heap" {
					if strings.HasPrefix(symKey(call.Call.Args[0]), "$0") {
						ok = true
					}
				}
			}
		})
		r.Check(ok, rule, c.FnName(pp.fn)+"#heap."+pp.name, c.Pos(pp.fn.Pos()), "delegates to container/heap."+pp.name+" on the Merger", "does not call container/heap."+pp.name+" on the Merger: the heap order is not maintained")
	}
}

// ---- HEAP-IFACE ---------------------------------------------------------------------------

func ruleHeapIface(c *Ctx, r *Rep, tier string) {
	rule := "HEAP-IFACE"
	chk := func(name string, f func(sr symResult) string) {
		fn := c.Func("bam", "(*bySortOrderAndID)."+name)
		r.Instance(rule, 1)
		sr := symExec(fn, map[string]int64{})
		why := ""
		if sr.Undec != "" {
			why = "not straight-line: needs " + sr.Undec
		} else {
			why = f(sr)
		}
		r.Check(why == "", rule, c.FnName(fn)+"#canonical", c.Pos(fn.Pos()), "canonical container/heap method over Merger.readers", why)
	}
	eff := func(sr symResult) string { return strings.Join(sr.Effects, "; ") }
	chk("Len", func(sr symResult) string {
		if len(sr.RetKeys) != 1 || sr.RetKeys[0] != "len($0.readers)" || len(sr.Effects) != 0 {
			return "Len returns " + strings.Join(sr.RetKeys, ",") + " with effects [" + eff(sr) + "], want len(m.readers)"
		}
		return ""
	})
	chk("Swap", func(sr symResult) string {
		want := map[string]bool{"store $0.readers[$1] = $0.readers[$2]": true, "store $0.readers[$2] = $0.readers[$1]": true}
		if len(sr.Effects) != 2 || !want[sr.Effects[0]] || !want[sr.Effects[1]] || sr.Effects[0] == sr.Effects[1] {
			return "Swap does [" + eff(sr) + "], want the exchange of m.readers[i] and m.readers[j]"
		}
		return ""
	})
	chk("Push", func(sr symResult) string {
		if len(sr.Effects) != 1 || sr.Effects[0] != "store $0.readers = append($0.readers,[$1])" {
			return "Push does [" + eff(sr) + "], want m.readers = append(m.readers, i)"
		}
		return ""
	})
	chk("Pop", func(sr symResult) string {
		if len(sr.RetKeys) != 1 || sr.RetKeys[0] != "$0.readers[(len($0.readers)-1)]" {
			return "Pop returns " + strings.Join(sr.RetKeys, ",") + ", want the last element m.readers[len(m.readers)-1]"
		}
		if len(sr.Effects) != 1 || sr.Effects[0] != "store $0.readers = $0.readers[:(len($0.readers)-1)]" {
			return "Pop does [" + eff(sr) + "], want m.readers = m.readers[:len(m.readers)-1]"
		}
		return ""
	})
}

// ---- TIE-ID: Less(i, j) = less(hi, hj) || (id_i < id_j && !less(hj, hi)) ---------------------------

func ruleTieID(c *Ctx, r *Rep, tier string) {
	rule := "TIE-ID"
	fn := c.Func("bam", "(*bySortOrderAndID).Less")
	r.Instance(rule, 1)
	why := ""
	n := 0
	for _, lij := range []int64{0, 1} {
		for _, lji := range []int64{0, 1} {
			for _, ids := range [][2]int64{{0, 1}, {1, 0}, {1, 1}} {
				env := map[string]int64{
					"$0.less($0.readers[$1].head,$0.readers[$2].head)": lij,
					"$0.less($0.readers[$2].head,$0.readers[$1].head)": lji,
					"$0.readers[$1].id": ids[0],
					"$0.readers[$2].id": ids[1],
				}
				sr := symExec(fn, env)
				n++
				if sr.Undec != "" {
					why = "the heap order depends on something other than less(head_i, head_j), less(head_j, head_i) and the two source ids: " + sr.Undec
					break
				}
				if len(sr.Rets) != 1 || !sr.Known[0] {
					why = "result not determined: " + strings.Join(sr.RetKeys, ",")
					break
				}
				if lij == 1 && lji == 1 {
					continue // not a strict order on these two heads: unconstrained
				}
				want := lij == 1 || (lji == 0 && ids[0] < ids[1])
				if (sr.Rets[0] != 0) != want {
					why += fmt.Sprintf(" less(i,j)=%d less(j,i)=%d id_i=%d id_j=%d: Less returns %v, want %v;", lij, lji, ids[0], ids[1], sr.Rets[0] != 0, want)
				}
			}
		}
	}
	r.Check(why == "", rule, c.FnName(fn)+"#order", c.Pos(fn.Pos()), fmt.Sprintf("%d valuations: Less(i,j) = less(head_i,head_j) or (neither is less and id_i < id_j)", n), "the heap order is not 'record order, then source index' (equal records of different sources come out in the wrong order, or the order is not the record order at all): "+why)
}

// ---- ORDER-KEY ---------------------------------------------------------------------------------

func ruleOrderKey(c *Ctx, r *Rep, tier string) {
	rule := "ORDER-KEY"
	fn := c.Func("sam", "(*Record).LessByCoordinate")
	r.Instance(rule, 1)
	why := ""
	n := 0
	ids := []int64{-1, 0, 1, 2}
	poss := []int64{0, 1, 2}
outer:
	for _, rid := range ids {
		for _, oid := range ids {
			for _, rp := range poss {
				for _, op := range poss {
					env := map[string]int64{"$0.Ref.ID()": rid, "$1.Ref.ID()": oid, "$0.RefID()": rid, "$1.RefID()": oid, "$0.Pos": rp, "$1.Pos": op}
					sr := symExec(fn, env)
					n++
					if sr.Undec != "" {
						why = "the comparison depends on " + sr.Undec + ", not only on the references' ids in the header and the positions (a comparison of reference names orders chr10 before chr2 whatever the header says)"
						break outer
					}
					if len(sr.Rets) != 1 || !sr.Known[0] {
						why = "result not determined: " + strings.Join(sr.RetKeys, ",")
						break outer
					}
					got := sr.Rets[0] != 0
					var want bool
					switch {
					case rid < 0 && oid < 0:
						continue // two unplaced records: unconstrained
					case oid < 0:
						want = true
					case rid < 0:
						want = false
					default:
						want = rid < oid || (rid == oid && rp < op)
					}
					if got != want {
						why += fmt.Sprintf(" ref %d pos %d vs ref %d pos %d: %v, want %v;", rid, rp, oid, op, got, want)
						if len(why) > 300 {
							break outer
						}
					}
				}
			}
		}
	}
	r.Check(why == "", rule, c.FnName(fn)+"#order", c.Pos(fn.Pos()), fmt.Sprintf("%d orderings of (ref id, pos) × (ref id, pos): header order, then position, unplaced last", n), why)

	fn = c.Func("sam", "(*Record).LessByName")
	r.Instance(rule, 1)
	why = ""
	for _, a := range poss {
		for _, b := range poss {
			sr := symExec(fn, map[string]int64{"$0.Name": a, "$1.Name": b})
			if sr.Undec != "" || len(sr.Rets) != 1 || !sr.Known[0] {
				why = "depends on " + sr.Undec + strings.Join(sr.RetKeys, ",")
			} else if (sr.Rets[0] != 0) != (a < b) {
				why += fmt.Sprintf(" name order %d vs %d: %v;", a, b, sr.Rets[0] != 0)
			}
		}
	}
	r.Check(why == "", rule, c.FnName(fn)+"#order", c.Pos(fn.Pos()), "r.Name < other.Name", why)
}

// ---- TAB-ORDER ----------------------------------------------------------------------------------

func samConst(c *Ctx, name string) int64 {
	n := c.Named("sam", "SortOrder")
	o := n.Obj().Pkg().Scope().Lookup(name)
	k, ok := o.(*types.Const)
	if !ok {
		unresolved("constant sam.%s", name)
	}
	v, _ := constant.Int64Val(k.Val())
	return v
}

func thunkTarget(v ssa.Value) string {
	v = strip(v)
	if mc, ok := v.(*ssa.MakeClosure); ok {
		v = mc.Fn
	}
	fn, ok := v.(*ssa.Function)
	if !ok {
		if p, ok := v.(*ssa.Parameter); ok {
			return "param:" + paramKey(p)
		}
		return symKey(v)
	}
	if fn.Synthetic != "" {
		var callee *ssa.Function
		allInstrs(fn, func(ins ssa.Instruction) {
			if cc := callCommon(ins); cc != nil {
				if g := staticCallee(cc); g != nil {
					callee = g
				}
			}
		})
		if callee != nil {
			fn = callee
		}
	}
	return fn.RelString(nil)
}

func ruleTabOrder(c *Ctx, r *Rep, tier string) {
	rule := "TAB-ORDER"
	m := newMergerModel(c)
	fn := m.newF
	soF := c.Field("sam", "Header", "SortOrder")
	// the chain of tests of <header>.SortOrder against constants
	isTest := func(b *ssa.BasicBlock) (int64, bool) {
		iff := ifOf(b)
		if iff == nil {
			return 0, false
		}
		bo, ok := iff.Cond.(*ssa.BinOp)
		if !ok || bo.Op != token.EQL {
			return 0, false
		}
		if f, _ := loadedField(bo.X); f != soF {
			return 0, false
		}
		return constInt(bo.Y)
	}
	var head *ssa.BasicBlock
	for _, b := range fn.Blocks {
		if _, ok := isTest(b); ok {
			if head == nil || b.Dominates(head) {
				head = b
			}
		}
	}
	if head == nil {
		r.Instance(rule, 1)
		r.Fail(rule, "bam.NewMerger#switch", c.Pos(fn.Pos()), "no switch over the header's SortOrder found")
		return
	}
	cases := []struct {
		name string
		val  int64
		want string
	}{
		{"UnknownOrder", samConst(c, "UnknownOrder"), "param:$0"},
		{"Unsorted", samConst(c, "Unsorted"), ""},
		{"QueryName", samConst(c, "QueryName"), "(*github.com/biogo/hts/sam.Record).LessByName"},
		{"Coordinate", samConst(c, "Coordinate"), "(*github.com/biogo/hts/sam.Record).LessByCoordinate"},
		{"(any other value)", 99, "param:$0"},
	}
	seqs := make([][]*ssa.BasicBlock, len(cases))
	for i, cs := range cases {
		cur := head
		for steps := 0; steps < 16; steps++ {
			k, ok := isTest(cur)
			if !ok {
				break
			}
			if k == cs.val {
				cur = cur.Succs[0]
			} else {
				cur = cur.Succs[1]
			}
		}
		// everything reachable from the case's first block
		seen := map[*ssa.BasicBlock]bool{cur: true}
		seq := []*ssa.BasicBlock{cur}
		for k := 0; k < len(seq); k++ {
			for _, s := range seq[k].Succs {
				if !seen[s] {
					seen[s] = true
					seq = append(seq, s)
				}
			}
		}
		seqs[i] = seq
	}
	// the common continuation: the block all cases reach that dominates every
	// other block they all reach (a case may hold a loop and an error return of
	// its own – the coordinate case checks the reference order of the sources)
	inAll := func(b *ssa.BasicBlock) bool {
		for _, s := range seqs {
			in := false
			for _, x := range s {
				if x == b {
					in = true
				}
			}
			if !in {
				return false
			}
		}
		return true
	}
	var join *ssa.BasicBlock
	for _, b := range seqs[0] {
		if !inAll(b) {
			continue
		}
		dom := true
		for _, x := range seqs[0] {
			if inAll(x) && !b.Dominates(x) {
				dom = false
			}
		}
		if dom {
			join = b
			break
		}
	}
	afterJoin := map[*ssa.BasicBlock]bool{}
	if join != nil {
		work := []*ssa.BasicBlock{join}
		afterJoin[join] = true
		for len(work) > 0 {
			b := work[len(work)-1]
			work = work[:len(work)-1]
			for _, s := range b.Succs {
				if !afterJoin[s] {
					afterJoin[s] = true
					work = append(work, s)
				}
			}
		}
	}
	for i, cs := range cases {
		r.Instance(rule, 1)
		key := "bam.NewMerger#SortOrder=" + cs.name
		got := ""
		undec := join == nil
		for _, b := range seqs[i] {
			if afterJoin[b] {
				continue
			}
			for _, ins := range b.Instrs {
				if st, ok := ins.(*ssa.Store); ok {
					if fa, ok := st.Addr.(*ssa.FieldAddr); ok && fieldVarOfAddr(fa) == m.mLess {
						got = thunkTarget(st.Val)
					}
				}
			}
		}
		if undec {
			r.Fail(rule, key, c.Pos(fn.Pos()), "cannot follow the switch over SortOrder to a common continuation")
			continue
		}
		w := cs.want
		if w == "" {
			w = "(nil: concatenate)"
		}
		g := got
		if g == "" {
			g = "(nil: concatenate)"
		}
		r.Check(got == cs.want, rule, key, c.Pos(fn.Pos()), "comparison = "+w, fmt.Sprintf("for SortOrder %s the merge uses %s, want %s", cs.name, g, w))
	}
	// dispatch in Read: cat iff less == nil
	r.Instance(rule, 1)
	{
		rf := m.mReadF
		why := ""
		var edges []condEdge
		for _, b := range rf.Blocks {
			if ce, ok := classifyErrIf(b, func(v ssa.Value) bool { f, _ := loadedField(v); return f == m.mLess }); ok && ce.isNil {
				edges = append(edges, ce)
			}
		}
		nCat, nNext := 0, 0
		allInstrs(rf, func(ins ssa.Instruction) {
			call, ok := ins.(*ssa.Call)
			if !ok {
				return
			}
			g := staticCallee(&call.Call)
			if g != m.catF && g != m.nextF {
				return
			}
			dom := false
			for _, ce := range edges {
				k := ce.yes
				if g == m.nextF {
					k = 1 - ce.yes
				}
				if dominatedByEdge(rf, ce.b, k, call.Block()) {
					dom = true
				}
			}
			if g == m.catF {
				nCat++
			} else {
				nNext++
			}
			if !dom {
				why = fmt.Sprintf("%s is not called exactly when Merger.less %s nil", g.Name(), map[bool]string{true: "==", false: "!="}[g == m.catF])
			}
		})
		if nCat == 0 || nNext == 0 {
			why = "Read does not dispatch to both cat and nextBySortOrder"
		}
		r.Check(why == "", rule, c.FnName(rf)+"#dispatch", c.Pos(rf.Pos()), "cat iff less == nil, nextBySortOrder otherwise", why)
	}
}

func init() {
	register(&PropDef{
		ID: "C18", Title: "Merger output is a loss-free, ordered merge re-linked to the merged header", Level: "other",
		Rules: []RuleDef{
			{Name: "RELINK-BOTH", What: "Record.Ref and Record.MateRef are both replaced by refLinks[source][own id], each under a non-nil guard", Floor: 4, Run: ruleRelinkBoth},
			{Name: "SAME-SOURCE", What: "at every reassignReference call the record and the link-table index come from the same reader, with no reassignment of Merger.readers between the two evaluations", Floor: 3, Run: ruleSameSource},
			{Name: "HEAD-LINKED", What: "a reader enters the heap (push, or the slice handed to heap.Init) only after its current head was linked; cat links what it returns", Floor: 3, Run: ruleHeadLinked},
			{Name: "HEAP-MEMBER-GUARD", What: "a reader enters the heap only on the err == nil edge of its last Read", Floor: 2, Run: ruleHeapMember},
			{Name: "READ-CONTRACT", What: "bam.(*Reader).Read returns a nil record only with a non-nil error", Floor: 8, Run: ruleReadContract},
			{Name: "ERR-MERGER", What: "after every source Read, and for every parked first-read error, the error is tested for nil / io.EOF or returned or kept in Merger.err; Read returns the kept error first", Floor: 5, Run: ruleErrMerger},
			{Name: "EOF-EMPTY", What: "io.EOF is returned only on the len(readers) == 0 edge", Floor: 2, Run: ruleEOFEmpty},
			{Name: "STEP-ONCE", What: "nextBySortOrder: one pop, one Read of the popped reader, at most one push, returns the head held before the Read; pop/push delegate to container/heap", Floor: 3, Run: ruleMergeStep},
			{Name: "HEAP-IFACE", What: "Len/Swap/Push/Pop of bySortOrderAndID are the canonical slice-backed heap methods", Floor: 4, Run: ruleHeapIface},
			{Name: "TIE-ID", What: "Less(i,j) = less(head_i,head_j) or (not less(head_j,head_i) and id_i < id_j), all 12 valuations", Floor: 1, Run: ruleTieID},
			{Name: "ORDER-KEY", What: "LessByCoordinate is (reference id in the header, position) with unplaced last, over all orderings; LessByName is Name <", Floor: 2, Run: ruleOrderKey},
			{Name: "ORDER-KEPT", What: "NewMerger, for coordinate order, compares the merged-header ids of consecutive links of each source and refuses the inputs when a source's reference order is not kept: otherwise inputs sorted by their own order merge into an unsorted stream (added for a defect of the unchanged tree)", Floor: 1, Run: ruleOrderKept},
			{Name: "PATH-SHARED", What: "a BAM record buffer that aliases memory the Reader reuses is marked shared: the Merger reads a source's next record before it returns the current one (shared with C05/C06; under C18 since ninth-round seed C18-i)", Floor: 1, Run: ruleBufShared},
			{Name: "MERGE-ERR-ORIGIN", What: "every error a method of bam.Merger returns or records is nil, io.EOF, an input's Read error or one of the two recorded fields read back: the Merger makes no errors of its own after construction (added after thirteenth-round seed C18-m)", Floor: 2, Run: ruleMergeErrOrigin},
			{Name: "FRESH-LINKS", What: "MergeHeaders gives each source a link slice of its own whose entries are the merged header's references of the same name – not a prefix of the merged list (shared with C07; under C18 since ninth-round seed C18-j)", Floor: 3, Run: ruleFreshLinks},
			{Name: "PTR-EQ", What: "package sam never compares two url.URL by pointer: MergeHeaders of identical headers with UR must find the references equal (shared with C07)", Floor: 3, Run: rulePtrEq},
			{Name: "PATH-BAMLEN", What: "bam.newBuffer returns the errors of both reads of a record, and a source that ends inside the length prefix is io.ErrUnexpectedEOF, not a clean end: the Merger takes io.EOF from a source as \"exhausted\" (shared with C10; under C18 since seventh-round seed C18-h)", Floor: 1, Run: ruleBamLen},
			{Name: "TAB-ORDER", What: "NewMerger maps Unknown→caller's less, Unsorted→concatenate, QueryName→LessByName, Coordinate→LessByCoordinate; Read dispatches on less == nil", Floor: 6, Run: ruleTabOrder},
		},
		Explanation: "The merge is a heap of sources keyed by their head records. The rules establish, on every path, the invariants the algorithm rests on: every member of the heap has a head that is non-nil (guard on the last Read's error + READ-CONTRACT) and already linked to the merged header (so that the reference ids LessByCoordinate compares are those of Merger.Header()); one step pops one source, hands out its old head, advances exactly that source once and re-inserts it only if it has a record; a source is dropped only at io.EOF or with its error kept and reported before io.EOF; the link table used is that of the source the record came from; the comparators are the documented ones, evaluated here over every ordering of the quantities they compare.",
		NotDecided:  "that the output is sorted and a permutation of the inputs (needs container/heap's algorithm and the inputs' own order), stability beyond the tie-break formula, the contents of refLinks (C07), less functions supplied by the caller.",
	})
}
