// Symbolic keys and a small evaluator over them.
//
// symKey renders an SSA value as a canonical expression over the function's
// parameters: field selections, indexing, static and dynamic calls, e.g.
// "m.readers[i].head", "r.Ref.ID()", "m.less(m.readers[i].head,m.readers[j].head)".
// Two values with the same key denote the same source-level expression (whether
// they also denote the same *value* depends on intervening stores – rules that
// need that use pathTo with a store barrier).
//
// symExec interprets a function whose control flow depends only on comparisons
// between a handful of such expressions: the rule supplies an environment that
// gives each expression a concrete integer (booleans are 0/1) and symExec
// follows the branches. Enumerating a domain that realises every ordering of
// the expressions decides the function for all inputs ("values touched only
// through comparisons"). Anything symExec needs that the environment does not
// define makes the run undecided, which the rules report as a failure naming the
// expression – that is how a comparator that starts to look at, say, a reference
// name instead of its id is caught.
package main

import (
	"fmt"
	"go/constant"
	"go/token"
	"go/types"
	"strings"

	"golang.org/x/tools/go/ssa"
)

type symFrame struct {
	params map[*ssa.Parameter]string // callee parameter -> caller's key
	vals   map[ssa.Value]int64
	// start: begin just after this location instead of at the entry
	start *Loc
	// stop: end the run before this instruction (reported in symResult.Stopped)
	stop func(ssa.Instruction) bool
}

// symExecAt runs fn from just after `from` until stop(ins) or a return.
func symExecAt(fn *ssa.Function, from Loc, stop func(ssa.Instruction) bool, env map[string]int64) symResult {
	return symExecF(fn, env, &symFrame{params: map[*ssa.Parameter]string{}, vals: map[ssa.Value]int64{}, start: &from, stop: stop}, 0)
}

func symKey(v ssa.Value) string { return symKeyF(v, nil, 0) }

func symKeyF(v ssa.Value, fr *symFrame, depth int) string {
	if v == nil {
		return "?"
	}
	if depth > 24 {
		return "…"
	}
	k := func(x ssa.Value) string { return symKeyF(x, fr, depth+1) }
	switch x := v.(type) {
	case *ssa.Parameter:
		if fr != nil {
			if s, ok := fr.params[x]; ok {
				return s
			}
		}
		return paramKey(x)
	case *ssa.FreeVar:
		// a captured variable: named by its position among the literal's free variables
		for i, fv := range x.Parent().FreeVars {
			if fv == x {
				return fmt.Sprintf("^%d", i)
			}
		}
		return "^?"
	case *ssa.Global:
		return x.Pkg.Pkg.Name() + "." + x.Name()
	case *ssa.Const:
		if x.Value == nil {
			return "nil"
		}
		return x.Value.ExactString()
	case *ssa.Function:
		return x.Name()
	case *ssa.UnOp:
		if x.Op == token.MUL {
			return symAddrKey(x.X, fr, depth+1)
		}
		return x.Op.String() + k(x.X)
	case *ssa.FieldAddr, *ssa.IndexAddr, *ssa.Alloc:
		return "&" + symAddrKey(v, fr, depth+1)
	case *ssa.Field:
		return k(x.X) + "." + fieldVarOfField(x).Name()
	case *ssa.Index:
		return k(x.X) + "[" + k(x.Index) + "]"
	case *ssa.Lookup:
		return k(x.X) + "[" + k(x.Index) + "]"
	case *ssa.Extract:
		return k(x.Tuple) + "#" + fmt.Sprint(x.Index)
	case *ssa.ChangeType:
		return k(x.X)
	case *ssa.Convert:
		return k(x.X)
	case *ssa.MakeInterface:
		return k(x.X)
	case *ssa.ChangeInterface:
		return k(x.X)
	case *ssa.TypeAssert:
		return k(x.X)
	case *ssa.BinOp:
		kx, ky := k(x.X), k(x.Y)
		// operands of a commutative operation in one order, whatever the source has
		// (constants are already on the right: canonOperands)
		switch x.Op {
		case token.ADD, token.MUL, token.AND, token.OR, token.XOR, token.EQL, token.NEQ:
			_, cx := x.X.(*ssa.Const)
			_, cy := x.Y.(*ssa.Const)
			isStr := false
			if bt, ok := x.X.Type().Underlying().(*types.Basic); ok && bt.Info()&types.IsString != 0 {
				isStr = true
			}
			if !cx && !cy && !isStr && ky < kx {
				kx, ky = ky, kx
			}
		}
		return "(" + kx + x.Op.String() + ky + ")"
	case *ssa.Slice:
		if al, ok := x.X.(*ssa.Alloc); ok && al.Comment == "varargs" {
			var els []string
			for _, e := range varargElems(x) {
				els = append(els, k(e))
			}
			return "[" + strings.Join(els, ",") + "]"
		}
		lo, hi := "", ""
		if x.Low != nil {
			lo = k(x.Low)
		}
		if x.High != nil {
			hi = k(x.High)
		}
		return k(x.X) + "[" + lo + ":" + hi + "]"
	case *ssa.Call:
		return symCallKey(&x.Call, fr, depth+1)
	case *ssa.MakeSlice:
		return "make(" + types.TypeString(x.Type(), func(*types.Package) string { return "" }) + "," + k(x.Len) + ")"
	case *ssa.MakeMap:
		return "make(" + types.TypeString(x.Type(), func(*types.Package) string { return "" }) + ")"
	case *ssa.Range:
		return "range(" + k(x.X) + ")"
	case *ssa.Next:
		return "next(" + k(x.Iter) + ")"
	case *ssa.Phi:
		if x.Comment != "" {
			return "phi:" + phiVarKey(x)
		}
		return fmt.Sprintf("phi(%s.%d:%s)", x.Parent().Name(), x.Block().Index, x.Name())
	}
	return fmt.Sprintf("%s:%s", v.Parent().Name(), v.Name())
}

func symAddrKey(a ssa.Value, fr *symFrame, depth int) string {
	switch x := a.(type) {
	case *ssa.FieldAddr:
		if al, ok := x.X.(*ssa.Alloc); ok && al.Comment != "" {
			// a local struct variable (or composite literal, or the spill of a
			// struct parameter): named by what it is, never by its source name
			if sv := singleStore(al); sv != nil {
				if _, isP := sv.(*ssa.Parameter); !isP {
					// assigned once as a whole: the variable stands for that value
					return symKeyF(sv, fr, depth+1) + "." + fieldVarOfAddr(x).Name()
				}
			}
			return allocKey(al) + "." + fieldVarOfAddr(x).Name()
		}
		switch x.X.(type) {
		case *ssa.FieldAddr, *ssa.IndexAddr:
			// a field of an embedded struct value: address arithmetic, no load in between
			return symAddrKey(x.X, fr, depth+1) + "." + fieldVarOfAddr(x).Name()
		}
		return symKeyF(x.X, fr, depth+1) + "." + fieldVarOfAddr(x).Name()
	case *ssa.IndexAddr:
		switch x.X.(type) {
		case *ssa.FieldAddr, *ssa.IndexAddr:
			return symAddrKey(x.X, fr, depth+1) + "[" + symKeyF(x.Index, fr, depth+1) + "]"
		}
		return symKeyF(x.X, fr, depth+1) + "[" + symKeyF(x.Index, fr, depth+1) + "]"
	case *ssa.Global:
		return x.Pkg.Pkg.Name() + "." + x.Name()
	case *ssa.Alloc:
		if sv := singleStore(x); sv != nil {
			return symKeyF(sv, fr, depth+1)
		}
		return allocKey(x)
	}
	return "*" + symKeyF(a, fr, depth+1)
}

func symCallKey(cc *ssa.CallCommon, fr *symFrame, depth int) string {
	var args []string
	if cc.IsInvoke() {
		for _, a := range cc.Args {
			args = append(args, symKeyF(a, fr, depth+1))
		}
		return symKeyF(cc.Value, fr, depth+1) + "." + cc.Method.Name() + "(" + strings.Join(args, ",") + ")"
	}
	if g := staticCallee(cc); g != nil {
		as := cc.Args
		head := g.Name()
		if g.Signature.Recv() != nil && len(as) > 0 {
			head = symKeyF(as[0], fr, depth+1) + "." + g.Name()
			as = as[1:]
		}
		for _, a := range as {
			args = append(args, symKeyF(a, fr, depth+1))
		}
		return head + "(" + strings.Join(args, ",") + ")"
	}
	if b, ok := cc.Value.(*ssa.Builtin); ok {
		for _, a := range cc.Args {
			args = append(args, symKeyF(a, fr, depth+1))
		}
		return b.Name() + "(" + strings.Join(args, ",") + ")"
	}
	for _, a := range cc.Args {
		args = append(args, symKeyF(a, fr, depth+1))
	}
	return symKeyF(cc.Value, fr, depth+1) + "(" + strings.Join(args, ",") + ")"
}

// symResult of one run.
type symResult struct {
	Rets    []int64
	RetKeys []string // key of each result (also when its value is unknown)
	Known   []bool
	Effects []string // calls executed for effect and stores, in order
	Undec   string   // non-empty: the run needed this expression
	Stopped ssa.Instruction
}

// symExec runs fn under env. paramKeys optionally renames parameters (used for
// inlined callees). Static callees inside the module whose call key is not in
// env are inlined (depth ≤ 4).
func symExec(fn *ssa.Function, env map[string]int64) symResult {
	return symExecF(fn, env, &symFrame{params: map[*ssa.Parameter]string{}, vals: map[ssa.Value]int64{}}, 0)
}

func symExecF(fn *ssa.Function, env map[string]int64, fr *symFrame, depth int) symResult {
	var res symResult
	if len(fn.Blocks) == 0 {
		res.Undec = "no body: " + fn.Name()
		return res
	}
	get := func(v ssa.Value) (int64, bool) {
		if x, ok := fr.vals[v]; ok {
			return x, true
		}
		switch c := v.(type) {
		case *ssa.Const:
			if c.Value == nil {
				return 0, true // nil
			}
			switch c.Value.Kind() {
			case constant.Bool:
				if constant.BoolVal(c.Value) {
					return 1, true
				}
				return 0, true
			case constant.Int:
				if i, ok := constant.Int64Val(c.Value); ok {
					return i, true
				}
			}
			return 0, false
		}
		if x, ok := env[symKeyF(v, fr, 0)]; ok {
			return x, true
		}
		return 0, false
	}
	b := fn.Blocks[0]
	first := 0
	if fr.start != nil {
		b, first = fr.start.B, fr.start.I+1
	}
	var prev *ssa.BasicBlock
	for steps := 0; steps < 10000; steps++ {
		var next *ssa.BasicBlock
		for idx, ins := range b.Instrs {
			if idx < first {
				continue
			}
			if fr.stop != nil && fr.stop(ins) {
				res.Stopped = ins
				return res
			}
			switch x := ins.(type) {
			case *ssa.Phi:
				for i, p := range b.Preds {
					if p == prev {
						if val, ok := get(x.Edges[i]); ok {
							fr.vals[x] = val
						}
					}
				}
			case *ssa.BinOp:
				if val, ok := env[symKeyF(x, fr, 0)]; ok {
					fr.vals[x] = val
					continue
				}
				l, lok := get(x.X)
				r, rok := get(x.Y)
				if !lok || !rok {
					continue
				}
				bo := func(c bool) int64 {
					if c {
						return 1
					}
					return 0
				}
				switch x.Op {
				case token.EQL:
					fr.vals[x] = bo(l == r)
				case token.NEQ:
					fr.vals[x] = bo(l != r)
				case token.LSS:
					fr.vals[x] = bo(l < r)
				case token.LEQ:
					fr.vals[x] = bo(l <= r)
				case token.GTR:
					fr.vals[x] = bo(l > r)
				case token.GEQ:
					fr.vals[x] = bo(l >= r)
				case token.ADD:
					fr.vals[x] = l + r
				case token.SUB:
					fr.vals[x] = l - r
				case token.MUL:
					fr.vals[x] = l * r
				case token.QUO:
					if r != 0 {
						fr.vals[x] = l / r
					}
				case token.REM:
					if r != 0 {
						fr.vals[x] = l % r
					}
				case token.AND:
					fr.vals[x] = l & r
				case token.OR:
					fr.vals[x] = l | r
				}
			case *ssa.UnOp:
				if x.Op == token.NOT {
					if val, ok := get(x.X); ok {
						fr.vals[x] = 1 - val
					}
				} else if x.Op == token.SUB {
					if val, ok := get(x.X); ok {
						fr.vals[x] = -val
					}
				} else if val, ok := env[symKeyF(x, fr, 0)]; ok {
					fr.vals[x] = val
				}
			case *ssa.Call:
				key := symKeyF(x, fr, 0)
				if val, ok := env[key]; ok {
					fr.vals[x] = val
					continue
				}
				g := staticCallee(&x.Call)
				if g != nil && len(g.Blocks) > 0 && depth < 4 && g.Pkg != nil && fn.Pkg != nil && strings.HasPrefix(g.Pkg.Pkg.Path(), modulePrefix(fn)) {
					sub := &symFrame{params: map[*ssa.Parameter]string{}, vals: map[ssa.Value]int64{}}
					for i, p := range g.Params {
						if i < len(x.Call.Args) {
							sub.params[p] = symKeyF(x.Call.Args[i], fr, 0)
							if val, ok := get(x.Call.Args[i]); ok {
								sub.vals[p] = val
							}
						}
					}
					sr := symExecF(g, env, sub, depth+1)
					if sr.Undec != "" {
						res.Undec = sr.Undec
						return res
					}
					res.Effects = append(res.Effects, sr.Effects...)
					if len(sr.Rets) == 1 && sr.Known[0] {
						fr.vals[x] = sr.Rets[0]
					}
					continue
				}
				if x.Type() == nil || isVoid(x.Type()) || len(*x.Referrers()) == 0 {
					res.Effects = append(res.Effects, "call "+key)
				}
			case *ssa.Store:
				if al, ok := x.Addr.(*ssa.IndexAddr); ok {
					if a2, ok := al.X.(*ssa.Alloc); ok && a2.Comment == "varargs" {
						continue
					}
				}
				res.Effects = append(res.Effects, "store "+symAddrKey(x.Addr, fr, 0)+" = "+symKeyF(x.Val, fr, 0))
			case *ssa.Convert:
				// (a conversion's key is that of its operand, so the value is
				// computed from the operand, never looked up)
				if val, ok := get(x.X); ok {
					// integer conversions truncate / sign-extend to the destination type
					if b, isB := x.Type().Underlying().(*types.Basic); isB && b.Info()&types.IsInteger != 0 {
						if w, signed, okW := basicWidth(b); okW && w < 64 {
							val &= (1 << uint(w)) - 1
							if signed && val&(1<<uint(w-1)) != 0 {
								val -= 1 << uint(w)
							}
						}
					}
					fr.vals[x] = val
				}
			case *ssa.ChangeType:
				if val, ok := get(x.X); ok {
					fr.vals[x] = val
				}
			case *ssa.MapUpdate:
				res.Effects = append(res.Effects, "mapupdate "+symKeyF(x.Map, fr, 0)+"["+symKeyF(x.Key, fr, 0)+"] = "+symKeyF(x.Value, fr, 0))
			case *ssa.If:
				c, ok := get(x.Cond)
				if !ok {
					res.Undec = symKeyF(x.Cond, fr, 0)
					return res
				}
				if c != 0 {
					next = b.Succs[0]
				} else {
					next = b.Succs[1]
				}
			case *ssa.Jump:
				next = b.Succs[0]
			case *ssa.Return:
				for _, rv := range x.Results {
					val, ok := get(rv)
					res.Rets = append(res.Rets, val)
					res.Known = append(res.Known, ok)
					res.RetKeys = append(res.RetKeys, symKeyF(rv, fr, 0))
				}
				return res
			case *ssa.Panic:
				res.Undec = "panic"
				return res
			default:
				if v, ok := ins.(ssa.Value); ok {
					if val, ok := env[symKeyF(v, fr, 0)]; ok {
						fr.vals[v] = val
					}
				}
			}
		}
		if next == nil {
			res.Undec = "fell off block " + fmt.Sprint(b.Index)
			return res
		}
		prev, b = b, next
		first = 0
	}
	res.Undec = "step bound"
	return res
}

func isVoid(t types.Type) bool {
	tu, ok := t.(*types.Tuple)
	return ok && tu.Len() == 0
}

func modulePrefix(fn *ssa.Function) string {
	p := fn.Pkg.Pkg.Path()
	parts := strings.Split(p, "/")
	if len(parts) >= 3 {
		return strings.Join(parts[:3], "/")
	}
	return p
}

// paramKey: a parameter is named by its position ($0 is the receiver of a
// method), never by its source name: renaming a parameter must not change a key.
func paramKey(p *ssa.Parameter) string {
	for i, q := range p.Parent().Params {
		if q == p {
			return fmt.Sprintf("$%d", i)
		}
	}
	return "$?"
}

// allocKey: a local variable is named by its type and, if the function has
// several of that type, its ordinal among them – or by the parameter it is the
// addressable copy of. Synthetic temporaries keep go/ssa's comment (complit,
// slicelit, varargs, …), which does not come from the source.
func allocKey(al *ssa.Alloc) string {
	if sv := singleStore(al); sv != nil {
		if p, ok := sv.(*ssa.Parameter); ok {
			return paramKey(p)
		}
	}
	switch al.Comment {
	case "complit", "slicelit", "varargs", "makeslice", "new", "":
		return "local:" + al.Comment
	}
	ts := func(a *ssa.Alloc) string {
		return types.TypeString(a.Type().(*types.Pointer).Elem(), func(*types.Package) string { return "" })
	}
	t := ts(al)
	k := 0
	done := false
	for _, b := range al.Parent().Blocks {
		for _, ins := range b.Instrs {
			if a, ok := ins.(*ssa.Alloc); ok {
				if a == al {
					done = true
					break
				}
				switch a.Comment {
				case "complit", "slicelit", "varargs", "makeslice", "new", "":
					continue
				}
				if sv := singleStore(a); sv != nil {
					if _, isP := sv.(*ssa.Parameter); isP {
						continue
					}
				}
				if ts(a) == t {
					k++
				}
			}
		}
		if done {
			break
		}
	}
	if k > 0 {
		return fmt.Sprintf("local:%s#%d", t, k)
	}
	return "local:" + t
}

// phiVarKey: the variable a phi belongs to (go/ssa records its source name in
// the comment) is named by the parameter it is, or by its type and its ordinal
// among the function's loop-carried variables of that type – never by the
// source name. Synthetic variables (rangeindex) keep go/ssa's name.
func phiVarKey(x *ssa.Phi) string {
	if strings.HasPrefix(x.Comment, "rangeindex") || strings.HasPrefix(x.Comment, "rangeiter") {
		return x.Comment
	}
	fn := x.Parent()
	for _, p := range fn.Params {
		if p.Name() == x.Comment && types.Identical(p.Type(), x.Type()) {
			return paramKey(p)
		}
	}
	ts := func(p *ssa.Phi) string { return types.TypeString(p.Type(), func(*types.Package) string { return "" }) }
	t := ts(x)
	var order []string
	seen := map[string]bool{}
	for _, b := range fn.Blocks {
		for _, ins := range b.Instrs {
			p, ok := ins.(*ssa.Phi)
			if !ok {
				break
			}
			if p.Comment == "" || strings.HasPrefix(p.Comment, "rangei") || ts(p) != t || seen[p.Comment] {
				continue
			}
			isParam := false
			for _, q := range fn.Params {
				if q.Name() == p.Comment && types.Identical(q.Type(), p.Type()) {
					isParam = true
				}
			}
			if isParam {
				continue
			}
			seen[p.Comment] = true
			order = append(order, p.Comment)
		}
	}
	for k, name := range order {
		if name == x.Comment {
			if k == 0 {
				return t
			}
			return fmt.Sprintf("%s#%d", t, k)
		}
	}
	return t + "#?"
}
