// Polynomial normal form of integer SSA expressions.
//
// polyOf flattens +, -, * (and integer conversions, which are transparent for
// the in-range values the formulas are about) into a sum of monomials over
// atoms. Anything else – a load, a call, a quotient, a remainder – is an atom
// named by its symbolic key; quotient and remainder atoms are named by the
// normal forms of their operands, so (p/B)*Y + p%B equals p%B + Y*(p/B) however
// the source groups it. Equality of normal forms is a sound test for equality
// of the expressions over the integers; it is not complete (p - p%B and (p/B)*B
// have different normal forms), and a rule that cannot match reports that it
// cannot decide, which counts as a failure.
package main

import (
	"fmt"
	"go/token"
	"sort"
	"strings"

	"golang.org/x/tools/go/ssa"
)

type poly map[string]int64 // monomial ("a*b", "" for the constant term) -> coefficient

func pAtom(k string) poly { return poly{k: 1} }
func pConst(k int64) poly { return poly{"": k}.norm() }
func (p poly) norm() poly {
	for k, v := range p {
		if v == 0 {
			delete(p, k)
		}
	}
	return p
}

func (p poly) add(q poly, sign int64) poly {
	r := poly{}
	for k, v := range p {
		r[k] += v
	}
	for k, v := range q {
		r[k] += sign * v
	}
	return r.norm()
}

func monoMul(a, b string) string {
	var parts []string
	if a != "" {
		parts = append(parts, strings.Split(a, "⊗")...)
	}
	if b != "" {
		parts = append(parts, strings.Split(b, "⊗")...)
	}
	sort.Strings(parts)
	return strings.Join(parts, "⊗")
}

func (p poly) mul(q poly) poly {
	r := poly{}
	for k1, v1 := range p {
		for k2, v2 := range q {
			r[monoMul(k1, k2)] += v1 * v2
		}
	}
	return r.norm()
}

func (p poly) canon() string {
	var ks []string
	for k := range p {
		ks = append(ks, k)
	}
	sort.Strings(ks)
	var out []string
	for _, k := range ks {
		if k == "" {
			out = append(out, fmt.Sprint(p[k]))
		} else {
			out = append(out, fmt.Sprintf("%d·%s", p[k], k))
		}
	}
	if len(out) == 0 {
		return "0"
	}
	return strings.Join(out, " + ")
}

func (p poly) eq(q poly) bool { return p.canon() == q.canon() }

func pQuo(a, b poly) poly { return pAtom("⌊" + a.canon() + " / " + b.canon() + "⌋") }
func pRem(a, b poly) poly { return pAtom("⟨" + a.canon() + " mod " + b.canon() + "⟩") }

// polyOf: fr renames parameters (nil for none).
func polyOf(v ssa.Value, fr *symFrame) poly { return polyOfD(v, fr, 0) }

func polyOfD(v ssa.Value, fr *symFrame, depth int) poly {
	if depth > 30 {
		return pAtom(symKeyF(v, fr, 0))
	}
	switch x := v.(type) {
	case *ssa.Const:
		if k, ok := constInt(x); ok {
			return pConst(k)
		}
	case *ssa.Convert:
		return polyOfD(x.X, fr, depth+1)
	case *ssa.ChangeType:
		return polyOfD(x.X, fr, depth+1)
	case *ssa.BinOp:
		switch x.Op {
		case token.ADD:
			return polyOfD(x.X, fr, depth+1).add(polyOfD(x.Y, fr, depth+1), 1)
		case token.SUB:
			return polyOfD(x.X, fr, depth+1).add(polyOfD(x.Y, fr, depth+1), -1)
		case token.MUL:
			return polyOfD(x.X, fr, depth+1).mul(polyOfD(x.Y, fr, depth+1))
		case token.QUO:
			return pQuo(polyOfD(x.X, fr, depth+1), polyOfD(x.Y, fr, depth+1))
		case token.REM:
			return pRem(polyOfD(x.X, fr, depth+1), polyOfD(x.Y, fr, depth+1))
		}
	case *ssa.UnOp:
		if x.Op == token.SUB {
			return poly{}.add(polyOfD(x.X, fr, depth+1), -1)
		}
	}
	return pAtom(symKeyF(v, fr, 0))
}
