// LOCK-1, path clause (added after sixteenth-round seed C03-q): a callee that
// locks a mutex reached from its parameter through fields (lazyBlock locks
// d.owner.mu) re-acquires what its caller holds when the caller reached the
// same mutex through the same fields of the same object. A second RLock of a
// sync.RWMutex blocks as soon as a writer (SetCache) waits in between.
package main

import (
	"fmt"
	"go/token"
	"go/types"

	"golang.org/x/tools/go/ssa"
)

// fieldPath: v as root + ".f.g" where each step is a load of a field.
func fieldPath(v ssa.Value) (ssa.Value, string) {
	path := ""
	for depth := 0; depth < 6; depth++ {
		v = origin(v)
		u, ok := v.(*ssa.UnOp)
		if !ok || u.Op != token.MUL {
			break
		}
		fa, ok := u.X.(*ssa.FieldAddr)
		if !ok {
			break
		}
		path = "." + fieldVarOfAddr(fa).Name() + path
		v = fa.X
	}
	return origin(v), path
}

type pathAcq struct {
	param int
	path  string
	field *types.Var
}

// pathAcquisitions: mutexes fn acquires at a non-empty field path from one of
// its parameters (directly, or through a callee handed that parameter).
func (la *lockAnalysis) pathAcquisitions(fn *ssa.Function, depth int) []pathAcq {
	var out []pathAcq
	if fn == nil || fn.Blocks == nil || depth > 3 {
		return out
	}
	allInstrs(fn, func(ins ssa.Instruction) {
		cc := callCommon(ins)
		if cc == nil {
			return
		}
		if _, isGo := ins.(*ssa.Go); isGo {
			return
		}
		if op, ok := mutexOp(cc); ok {
			if !op.acquire || len(cc.Args) == 0 {
				return
			}
			f, base := addrField(cc.Args[0])
			if f == nil {
				return
			}
			root, path := fieldPath(base)
			if path == "" {
				return
			}
			if i := paramIndex(fn, root); i >= 0 {
				out = append(out, pathAcq{i, path, f})
			}
			return
		}
		g := staticCallee(cc)
		if g == nil || g == fn || cc.IsInvoke() {
			return
		}
		for _, pa := range la.pathAcquisitions(g, depth+1) {
			if pa.param >= len(cc.Args) {
				continue
			}
			root, path := fieldPath(cc.Args[pa.param])
			if i := paramIndex(fn, root); i >= 0 {
				out = append(out, pathAcq{i, path + pa.path, pa.field})
			}
		}
	})
	return out
}

// reacquireThroughPath: checks one call instruction of f with lock state st.
func (la *lockAnalysis) reacquireThroughPath(r *Rep, rule string, f *ssa.Function, ins ssa.Instruction, cc *ssa.CallCommon, st lockState) {
	c := la.c
	g := staticCallee(cc)
	if g == nil || cc.IsInvoke() {
		return
	}
	for _, pa := range la.pathAcquisitions(g, 0) {
		if pa.param >= len(cc.Args) {
			continue
		}
		argRoot, argPath := fieldPath(cc.Args[pa.param])
		want := argPath + pa.path
		r.Instance(rule, 1)
		key := fmt.Sprintf("%s#call:%s%s", c.FnName(f), c.FnName(g), pa.path)
		held := false
		for k, mode := range st {
			if mode == modeNone || k.field != pa.field {
				continue
			}
			root, path := fieldPath(k.base)
			if root == argRoot && path == want {
				held = true
			}
		}
		if held {
			r.Fail(rule, key, c.Pos(ins.Pos()), fmt.Sprintf("%s is called with %s%s.%s held and acquires it again: with a writer waiting in between, the second (read) acquisition never returns – and the writer neither", c.FnName(g), "the object's", want, pa.field.Name()))
		} else {
			r.Pass(rule, key, c.Pos(ins.Pos()), "callee locks "+want+"."+pa.field.Name()+"; not held at the call")
		}
	}
}
