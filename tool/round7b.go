// Rules written for defects of the unchanged tree that the seventh round's
// sub-agents reported (all repaired):
//
//	REG2BINS-RANGE  (C04, C11) csi.reg2bins converts beg>>s and (end-1)>>s to
//	                uint32 and walks the bins between them with an unsigned
//	                counter: the start is shown non-negative, the end shown
//	                beyond the start, and clipped to a power of two computed
//	                from the geometry, before either is shifted. Without these
//	                Chunks(rid, 0, 0) and Chunks(rid, 0, MaxInt64) never return.
//	AUX-EMPTY       (C06) sam.ParseAux lets a field with an empty value through
//	                to the cases of the text types: "XZ:Z:" is what an empty
//	                string formats to.
//	HEX-TEXT        (C05, C06) an H field holds hexadecimal text: NewAux encodes
//	                the bytes of a Hex value, Value decodes, the formatters print
//	                the text and do not encode again.
//	REFLINE-FIELDS  (C07) sam.referenceLine installs a reference in the header
//	                (new or in place of a held one) only after it has seen both
//	                SN and LN.
//	STREAM-EOF      (C20) the CRAM stream readers do not leave io.EOF as the
//	                error of a value whose first byte was read and whose
//	                announced remainder was not there.
package main

import (
	"fmt"
	"go/token"
	"go/types"
	"strings"

	"golang.org/x/tools/go/ssa"
)

// ---- REG2BINS-RANGE -------------------------------------------------------------------

func ruleReg2binsRange(c *Ctx, r *Rep, tier string) {
	// csi.reg2bins walks level 0 (first bin 0) as well: end-1 must be ≥ 0, so
	// end > beg. internal.OverlappingBinsFor puts bin 0 in the list and walks
	// from level 1 (first bins ≥ 1, BIN-PAIRS): there end ≥ beg is enough – with
	// end-1 = -1 the last bin wraps to one below the first and the loop is empty.
	binsRange(c, r, "csi", "reg2bins", true)
	binsRange(c, r, "internal", "OverlappingBinsFor", false)
}

func binsRange(c *Ctx, r *Rep, pkg, fname string, strict bool) {
	rule := "REG2BINS-RANGE"
	fn := c.Func(pkg, fname)
	name := pkg + "." + fname
	bc := &boundsCtx{c: c, fn: fn}
	begP, endP := ssa.Value(fn.Params[0]), ssa.Value(fn.Params[1])
	// derives(v, p): v is p after clamps (φ with constants or other values) and -1
	var derives func(v, p ssa.Value, depth int) bool
	derives = func(v, p ssa.Value, depth int) bool {
		if v == p {
			return true
		}
		if depth > 6 {
			return false
		}
		switch x := v.(type) {
		case *ssa.Phi:
			for _, e := range x.Edges {
				if derives(e, p, depth+1) {
					return true
				}
			}
		case *ssa.BinOp:
			if _, isK := x.Y.(*ssa.Const); isK && (x.Op == token.SUB || x.Op == token.ADD) {
				return derives(x.X, p, depth+1)
			}
		case *ssa.Call:
			if args, isMin := minArgs(x); isMin {
				for _, a := range args {
					if derives(a, p, depth+1) {
						return true
					}
				}
			}
		}
		return false
	}
	var begShifts, endShifts []*ssa.BinOp
	allInstrs(fn, func(ins ssa.Instruction) {
		if bo, ok := ins.(*ssa.BinOp); ok && bo.Op == token.SHR {
			switch {
			case derives(bo.X, endP, 0): // first: a clamped end may have beg among its edges
				endShifts = append(endShifts, bo)
			case derives(bo.X, begP, 0):
				begShifts = append(begShifts, bo)
			}
		}
	})
	r.Instance(rule, 3)
	if len(begShifts) == 0 || len(endShifts) == 0 {
		r.Fail(rule, name+"#shifts", c.Pos(fn.Pos()), fmt.Sprintf("%d shifts of beg and %d of end found in %s: the rule's anchor moved (undecided)", len(begShifts), len(endShifts), fname))
		return
	}
	// (1) the start is non-negative
	why := ""
	for _, sh := range begShifts {
		if lb := bc.lowerBound(sh.X, sh.Block(), 0); lb < 0 {
			why = fmt.Sprintf("beg is shifted and converted to uint32 at %s without having been shown non-negative: a negative start becomes bin 0xffffffff, which the unsigned counter of the bin loop cannot pass", c.Pos(sh.Pos()))
		}
	}
	r.Check(why == "", rule, name+"#beg-nonneg", c.Pos(fn.Pos()), "beg ≥ 0 where it is shifted", why)

	// (2) the end lies beyond the start (so end-1 ≥ 0)
	why = ""
	var endBase ssa.Value // the value 1 is subtracted from
	for _, sh := range endShifts {
		sub, ok := sh.X.(*ssa.BinOp)
		var base ssa.Value = sh.X
		if ok && (sub.Op == token.SUB || sub.Op == token.ADD) {
			base = sub.X
		}
		endBase = base
		shown := bc.lowerBound(base, sh.Block(), 0) >= 1
		for _, b := range fn.Blocks {
			iff := ifOf(b)
			if iff == nil || b.Succs[0] == b.Succs[1] || shown {
				continue
			}
			bo, ok := iff.Cond.(*ssa.BinOp)
			if !ok {
				continue
			}
			edge := -1
			var other ssa.Value
			switch {
			case bo.X == base:
				other = bo.Y
				switch bo.Op {
				case token.GTR:
					edge = 0
				case token.LEQ:
					edge = 1
				}
			case bo.Y == base:
				other = bo.X
				switch bo.Op {
				case token.LSS:
					edge = 0
				case token.GEQ:
					edge = 1
				}
			}
			if edge >= 0 && derives(other, begP, 0) && bc.lowerBound(other, b, 0) >= 0 && dominatedByEdge(fn, b, edge, sh.Block()) {
				shown = true
			}
		}
		if !shown && !strict {
			// end ≥ beg: a φ each of whose edges is beg itself or enters where
			// end < beg has been found false
			if p, isPhi := base.(*ssa.Phi); isPhi {
				all := true
				for i, e := range p.Edges {
					pred := p.Block().Preds[i]
					if derives(e, begP, 0) && !derives(e, endP, 0) {
						continue
					}
					ok := false
					for _, b := range fn.Blocks {
						iff := ifOf(b)
						if iff == nil || b.Succs[0] == b.Succs[1] {
							continue
						}
						bo, isBo := iff.Cond.(*ssa.BinOp)
						if !isBo {
							continue
						}
						edge := -1
						switch {
						case bo.X == e && derives(bo.Y, begP, 0):
							switch bo.Op {
							case token.LSS:
								edge = 1
							case token.GEQ, token.GTR:
								edge = 0
							}
						case bo.Y == e && derives(bo.X, begP, 0):
							switch bo.Op {
							case token.GTR:
								edge = 1
							case token.LEQ, token.LSS:
								edge = 0
							}
						}
						if edge >= 0 && ((b == pred && b.Succs[edge] == p.Block()) || dominatedByEdge(fn, b, edge, pred)) {
							ok = true
						}
					}
					if !ok {
						all = false
					}
				}
				shown = all
			}
		}
		if !shown && !strict {
			why = fmt.Sprintf("end-1 is shifted and converted to uint32 at %s without end having been shown at least beg: for a region that ends before it starts – the mate position -100000010 of a record as the BAM reader returns it – the last bin of a level lies some four thousand million above the first and the unsigned counter walks all of them", c.Pos(sh.Pos()))
		} else if !shown {
			why = fmt.Sprintf("end-1 is shifted and converted to uint32 at %s without end having been shown larger than a non-negative beg: for an empty region that ends at 0 (Chunks(rid, 0, 0)) end-1 is -1, the last bin of the top level becomes 0xffffffff, and the loop `for i := b; i <= e; i++` over a uint32 never ends", c.Pos(sh.Pos()))
		}
	}
	r.Check(why == "", rule, name+"#end-after-beg", c.Pos(fn.Pos()), "end > beg ≥ 0 (end ≥ beg where level 0 is not walked) where end-1 is shifted", why)

	// (3) the end is clipped to a power of two
	why = ""
	isPow := func(v ssa.Value) bool {
		for {
			if cv, ok := v.(*ssa.Convert); ok {
				v = cv.X
				continue
			}
			break
		}
		if k, isK := constInt(v); isK {
			return k > 0 && k&(k-1) == 0 // 1 << a constant, folded
		}
		bo, ok := v.(*ssa.BinOp)
		if !ok || bo.Op != token.SHL {
			return false
		}
		k, isK := constInt(bo.X)
		return isK && k == 1
	}
	// v ≤ some power of two on the edge from→to (or everywhere before `at`)
	boundedOn := func(v ssa.Value, from, to *ssa.BasicBlock) bool {
		for _, b := range fn.Blocks {
			iff := ifOf(b)
			if iff == nil || b.Succs[0] == b.Succs[1] {
				continue
			}
			bo, ok := iff.Cond.(*ssa.BinOp)
			if !ok {
				continue
			}
			edge := -1
			switch {
			case bo.X == v && isPow(bo.Y):
				switch bo.Op {
				case token.LEQ, token.LSS:
					edge = 0
				case token.GTR, token.GEQ:
					edge = 1
				}
			case bo.Y == v && isPow(bo.X):
				switch bo.Op {
				case token.GEQ, token.GTR:
					edge = 0
				case token.LSS, token.LEQ:
					edge = 1
				}
			}
			if edge < 0 {
				continue
			}
			// the edge from→to is that edge, or lies behind it
			if (b == from && b.Succs[edge] == to) || dominatedByEdge(fn, b, edge, from) {
				return true
			}
		}
		return false
	}
	var clipped func(v ssa.Value, at *ssa.BasicBlock, depth int) bool
	clipped = func(v ssa.Value, at *ssa.BasicBlock, depth int) bool {
		if depth > 4 {
			return false
		}
		if isPow(v) {
			return true
		}
		if k, isK := constInt(v); isK && k >= 0 && k < 1<<40 {
			return true // a constant (the 0 of a clamp from below)
		}
		if args, isMin := minArgs(v); isMin {
			// min(end, limit)
			for _, a := range args {
				if isPow(a) {
					return true
				}
			}
		}
		if p, ok := v.(*ssa.Phi); ok {
			for i, e := range p.Edges {
				pred := p.Block().Preds[i]
				if isPow(e) || boundedOn(e, pred, p.Block()) || clipped(e, pred, depth+1) {
					continue
				}
				return false
			}
			return true
		}
		// not a φ: a guard that left when it was too large
		if len(at.Preds) > 0 {
			return boundedOn(v, at.Preds[0], at) || boundedOn(v, at, at)
		}
		return false
	}
	if endBase == nil || !clipped(endBase, endShifts[0].Block(), 0) {
		why = fmt.Sprintf("end reaches the shift at %s without having been clipped to a power of two (1 << (minShift + 3·depth), the first position the index cannot hold): for a large end – the usual way to ask for \"to the end of the reference\" – (end-1)>>s does not fit in 32 bits; with MaxInt64 its low 32 bits are all ones and the bin loop never ends", c.Pos(endShifts[0].Pos()))
	}
	r.Check(why == "", rule, name+"#end-clipped", c.Pos(fn.Pos()), "end ≤ 1 << … on every way to the shift", why)
}

// ---- AUX-EMPTY ------------------------------------------------------------------------

func ruleAuxEmpty(c *Ctx, r *Rep, tier string) {
	rule := "AUX-EMPTY"
	fn := c.Func("sam", "ParseAux")
	bc := &boundsCtx{c: c, fn: fn}
	text := ssa.Value(fn.Params[0])
	// the text-type cases: conversions of (a slice of) the text to a named string type (Text), and hex.Decode of it
	n := 0
	why := ""
	allInstrs(fn, func(ins ssa.Instruction) {
		at := ""
		switch x := ins.(type) {
		case *ssa.Convert:
			if nt, ok := x.Type().(*types.Named); ok && nt.Obj().Name() == "Text" {
				at = "the Z case"
			}
		case *ssa.Call:
			if name := calleeFullName(&x.Call); name == "encoding/hex.Decode" || name == "encoding/hex.DecodeString" {
				at = "the H case"
			}
		}
		if at == "" {
			return
		}
		n++
		if lb := bc.lenLB(text, ins.Block(), 0); lb > 5 {
			why = fmt.Sprintf("the guards on the way to %s (%s) demand at least %d bytes of field text; \"XZ:Z:\" – an empty value, five bytes – is what the formatter writes for an empty string and what the specification allows, and it is refused", at, c.Pos(ins.Pos()), lb)
		}
	})
	r.Instance(rule, 1)
	if n == 0 {
		why = "neither the Z nor the H case found in ParseAux: the rule's anchor moved (undecided)"
	}
	r.Check(why == "", rule, "sam.ParseAux#empty-value", c.Pos(fn.Pos()), fmt.Sprintf("%d text-type cases reachable with a five-byte field", n), why)
}

// ---- HEX-TEXT -------------------------------------------------------------------------

func ruleHexText(c *Ctx, r *Rep, tier string) {
	rule := "HEX-TEXT"
	hexT := c.Named("sam", "Hex")
	// (1) NewAux: what is appended/copied into the field in the Hex case went through hex encoding
	newAux := c.Func("sam", "NewAux")
	r.Instance(rule, 1)
	var assertHex ssa.Value
	allInstrs(newAux, func(ins ssa.Instruction) {
		if ta, ok := ins.(*ssa.TypeAssert); ok && types.Identical(ta.AssertedType, hexT) {
			assertHex = ta
		}
	})
	why := ""
	if assertHex == nil {
		why = "no case for a Hex value in NewAux: the rule's anchor moved (undecided)"
	} else {
		// uses of the Hex value (through Extract / conversions)
		vals := map[ssa.Value]bool{assertHex: true}
		for changed := true; changed; {
			changed = false
			allInstrs(newAux, func(ins ssa.Instruction) {
				v, ok := ins.(ssa.Value)
				if !ok || vals[v] {
					return
				}
				switch x := ins.(type) {
				case *ssa.Extract:
					if vals[x.Tuple] && x.Index == 0 {
						vals[v], changed = true, true
					}
				case *ssa.Convert:
					if vals[x.X] {
						vals[v], changed = true, true
					}
				case *ssa.ChangeType:
					if vals[x.X] {
						vals[v], changed = true, true
					}
				case *ssa.Phi:
					for _, e := range x.Edges {
						if vals[e] {
							vals[v], changed = true, true
						}
					}
				}
			})
		}
		encoded, raw := false, ""
		allInstrs(newAux, func(ins ssa.Instruction) {
			call, ok := ins.(*ssa.Call)
			if !ok {
				return
			}
			uses := false
			for _, a := range call.Call.Args {
				if vals[a] {
					uses = true
				}
			}
			if !uses {
				return
			}
			name := calleeFullName(&call.Call)
			switch {
			case strings.HasPrefix(name, "encoding/hex.Encode") || name == "encoding/hex.AppendEncode":
				encoded = true
			default:
				if b, isB := call.Call.Value.(*ssa.Builtin); isB && (b.Name() == "append" || b.Name() == "copy") {
					raw = c.Pos(call.Pos())
				}
			}
		})
		switch {
		case raw != "":
			why = fmt.Sprintf("NewAux puts the bytes of a Hex value into the field as they are (%s): SAM and BAM hold an H field as hexadecimal text – the BAM written is not the format's, a zero byte ends the field on reading, and an H field written by another tool is shown as the hexadecimal of its digits", raw)
		case !encoded:
			why = "NewAux does not hex-encode a Hex value (no call of encoding/hex.Encode* on it)"
		}
	}
	r.Check(why == "", rule, "sam.NewAux#hex-encoded", c.Pos(newAux.Pos()), "the bytes go through encoding/hex before they enter the field", why)

	// (2) Value decodes; (3) the formatters do not apply a hexadecimal verb to it
	r.Instance(rule, 1)
	value := c.Func("sam", "(Aux).Value")
	decodes := false
	allInstrs(value, func(ins ssa.Instruction) {
		if call, ok := ins.(*ssa.Call); ok && strings.HasPrefix(calleeFullName(&call.Call), "encoding/hex.Decode") {
			decodes = true
		}
	})
	r.Check(decodes, rule, "sam.(Aux).Value#hex-decoded", c.Pos(value.Pos()), "the H case decodes the text", "Aux.Value has no hexadecimal decoding: the H case hands out the digits as if they were the bytes")
	for _, name := range []string{"(samAux).String", "(Aux).String"} {
		fn := c.Func("sam", name)
		r.Instance(rule, 1)
		why := ""
		allInstrs(fn, func(ins ssa.Instruction) {
			call, ok := ins.(*ssa.Call)
			if !ok || !strings.HasPrefix(calleeFullName(&call.Call), "fmt.") || len(call.Call.Args) == 0 {
				return
			}
			for _, a := range call.Call.Args {
				if f, isStr := constStringOf(a); isStr && hexVerb(f) && underCharCase(fn, call.Block(), 'H') {
					why = fmt.Sprintf("the H case formats with %q (%s): the field already holds the hexadecimal text, a hexadecimal verb encodes it a second time (and %%02x pads an empty value to 00)", f, c.Pos(call.Pos()))
				}
			}
		})
		r.Check(why == "", rule, "sam."+name+"#hex-printed-once", c.Pos(fn.Pos()), "no hexadecimal verb in the H case", why)
	}
}

// hexVerb: the format has a %…x or %…X verb.
func hexVerb(f string) bool {
	for i := 0; i < len(f); i++ {
		if f[i] != '%' {
			continue
		}
		j := i + 1
		for j < len(f) && strings.ContainsRune("+-# 0123456789.", rune(f[j])) {
			j++
		}
		if j < len(f) && (f[j] == 'x' || f[j] == 'X') {
			return true
		}
		i = j
	}
	return false
}

// underCharCase: the block is reached only over the "equal" edge of a
// comparison with the given character.
func underCharCase(fn *ssa.Function, at *ssa.BasicBlock, ch int64) bool {
	for _, b := range fn.Blocks {
		iff := ifOf(b)
		if iff == nil || b.Succs[0] == b.Succs[1] {
			continue
		}
		bo, ok := iff.Cond.(*ssa.BinOp)
		if !ok || (bo.Op != token.EQL && bo.Op != token.NEQ) {
			continue
		}
		if k, isK := constInt(bo.Y); !isK || k != ch {
			continue
		}
		edge := 0
		if bo.Op == token.NEQ {
			edge = 1
		}
		if dominatedByEdge(fn, b, edge, at) {
			return true
		}
	}
	return false
}

// ---- REFLINE-FIELDS -------------------------------------------------------------------

func ruleReflineFields(c *Ctx, r *Rep, tier string) {
	rule := "REFLINE-FIELDS"
	fn := c.Func("sam", "referenceLine")
	refT := c.Named("sam", "Reference")
	// the Reference being built
	var rf *ssa.Alloc
	allInstrs(fn, func(ins ssa.Instruction) {
		if al, ok := ins.(*ssa.Alloc); ok && al.Heap {
			if p, ok := al.Type().(*types.Pointer); ok && types.Identical(p.Elem(), refT) && rf == nil {
				rf = al
			}
		}
	})
	r.Instance(rule, 1)
	if rf == nil {
		r.Fail(rule, "sam.referenceLine#required-fields", c.Pos(fn.Pos()), "the Reference built from the line was not found: the rule's anchor moved (undecided)")
		return
	}
	// the flags: boolean φs that receive `true` from the block that stores the name / the length
	flagFor := func(field string) map[ssa.Value]bool {
		set := map[ssa.Value]bool{}
		var setBlocks []*ssa.BasicBlock
		allInstrs(fn, func(ins ssa.Instruction) {
			st, ok := ins.(*ssa.Store)
			if !ok {
				return
			}
			fa, ok := st.Addr.(*ssa.FieldAddr)
			if !ok || fa.X != ssa.Value(rf) {
				return
			}
			if refT.Underlying().(*types.Struct).Field(fa.Field).Name() == field {
				setBlocks = append(setBlocks, st.Block())
			}
		})
		for changed := true; changed; {
			changed = false
			allInstrs(fn, func(ins ssa.Instruction) {
				p, ok := ins.(*ssa.Phi)
				if !ok || set[p] {
					return
				}
				if b, ok := p.Type().Underlying().(*types.Basic); !ok || b.Kind() != types.Bool {
					return
				}
				for i, e := range p.Edges {
					if set[e] {
						set[p], changed = true, true
						return
					}
					if k, isK := e.(*ssa.Const); isK && k.Value != nil && k.Value.String() == "true" {
						pred := p.Block().Preds[i]
						for _, sb := range setBlocks {
							if sb == pred || sb.Dominates(pred) {
								set[p], changed = true, true
								return
							}
						}
					}
				}
			})
		}
		return set
	}
	flags := map[string]map[ssa.Value]bool{"name": flagFor("name"), "lRef": flagFor("lRef")}
	// the installs: rf stored into, or appended to, the header's list
	var installs []ssa.Instruction
	allInstrs(fn, func(ins ssa.Instruction) {
		switch x := ins.(type) {
		case *ssa.Store:
			if x.Val == ssa.Value(rf) {
				if _, isIdx := x.Addr.(*ssa.IndexAddr); isIdx {
					installs = append(installs, ins)
				}
			}
		}
	})
	if len(installs) < 2 {
		r.Fail(rule, "sam.referenceLine#required-fields", c.Pos(fn.Pos()), fmt.Sprintf("%d places where the new Reference enters the header's list found, two confirmed by reading (replace, append): the rule's anchor moved (undecided)", len(installs)))
		return
	}
	why := ""
	for _, inst := range installs {
		for field, set := range flags {
			if len(set) == 0 {
				why = fmt.Sprintf("no flag for the field %s found (undecided)", field)
				continue
			}
			shown := false
			for _, b := range fn.Blocks {
				iff := ifOf(b)
				if iff == nil || b.Succs[0] == b.Succs[1] {
					continue
				}
				cond, edge := iff.Cond, 0
				if u, ok := cond.(*ssa.UnOp); ok && u.Op == token.NOT {
					cond, edge = u.X, 1
				}
				if set[cond] && dominatedByEdge(fn, b, edge, inst.Block()) {
					shown = true
				}
			}
			if !shown {
				what := map[string]string{"name": "SN", "lRef": "LN"}[field]
				why = fmt.Sprintf("the Reference built from the line enters the header at %s on a path that has not tested that the line had %s: \"@SQ SN:a AS:x\" after \"@SQ SN:a LN:5\" replaces the held reference by one of length 0, and the header then writes a line it refuses to read", c.Pos(inst.Pos()), what)
			}
		}
	}
	r.Check(why == "", rule, "sam.referenceLine#required-fields", c.Pos(fn.Pos()), fmt.Sprintf("%d installs, each behind the tests for SN and LN", len(installs)), why)
}

// ---- STREAM-EOF -----------------------------------------------------------------------

func ruleStreamEOF(c *Ctx, r *Rep, tier string) {
	rule := "STREAM-EOF"
	errF := c.Field("cram", "errorReader", "err")
	for _, name := range []string{"(*errorReader).itf8", "(*errorReader).ltf8"} {
		fn := c.Func("cram", name)
		r.Instance(rule, 1)
		var reads []*ssa.Call
		allInstrs(fn, func(ins ssa.Instruction) {
			if call, ok := ins.(*ssa.Call); ok && calleeFullName(&call.Call) == "io.ReadFull" {
				reads = append(reads, call)
			}
		})
		key := "cram." + name + "#remainder-eof"
		if len(reads) != 2 {
			r.Fail(rule, key, c.Pos(fn.Pos()), fmt.Sprintf("%d io.ReadFull calls, two confirmed by reading (first byte, announced remainder): undecided", len(reads)))
			continue
		}
		if reads[0].Pos() > reads[1].Pos() {
			reads[0], reads[1] = reads[1], reads[0]
		}
		// after the second read: on the way to a return, if the stored error can be
		// io.EOF it is compared with io.EOF and replaced
		isEOFTest := func(ins ssa.Instruction) bool {
			iff, ok := ins.(*ssa.If)
			if !ok {
				return false
			}
			bo, ok := iff.Cond.(*ssa.BinOp)
			return ok && (isGlobalLoad(bo.Y, "io", "EOF") || isGlobalLoad(bo.X, "io", "EOF"))
		}
		storesUnexpected := false
		allInstrs(fn, func(ins ssa.Instruction) {
			if st, ok := ins.(*ssa.Store); ok && isGlobalLoad(st.Val, "io", "ErrUnexpectedEOF") {
				if fa, ok := st.Addr.(*ssa.FieldAddr); ok && fieldVarOfAddr(fa) == errF {
					storesUnexpected = true
				}
			}
		})
		// the error edge of the test that follows the second read
		why := ""
		_, direct := pathTo(locOf(reads[1]), isReturn, isEOFTest, func(from, to *ssa.BasicBlock) bool {
			// follow only the error edge of `r.err != nil`
			ce, ok := classifyErrIf(from, func(v ssa.Value) bool { return true })
			if !ok || !ce.isNil || from.Succs[0] == from.Succs[1] {
				return true
			}
			return to != from.Succs[ce.yes]
		})
		if direct || !storesUnexpected {
			why = "when the stream ends right after the first byte of a value, io.ReadFull of the announced remainder returns io.EOF (nothing was read in that call), and the function leaves it as the reader's error: every layer above takes io.EOF for the clean end of the stream, so a value cut after its first byte is not reported"
		}
		r.Check(why == "", rule, key, c.Pos(fn.Pos()), "io.EOF from the read of the remainder is replaced by io.ErrUnexpectedEOF", why)
	}
}

// ---- NAME-STORE -----------------------------------------------------------------------
//
// Who may write the key of a header's name table: the name of a Reference or
// ReadGroup and the uid of a Program are written only into an object made in
// the same function (not yet in any header), or together with the table – on
// every path to the store either the owner was found nil or the table entry for
// the new name was made. Added for a defect of the unchanged tree (repaired
// 6ed78f3): Reference.Set(SN, v) and ReadGroup.Set(ID, v) assigned the name
// and left the table stale; a later AddReference for the old name indexed the
// list with the stale entry and panicked.
func ruleNameStore(c *Ctx, r *Rep, tier string) {
	rule := "NAME-STORE"
	keys := []struct{ typ, field string }{{"Reference", "name"}, {"ReadGroup", "name"}, {"Program", "uid"}}
	isKeyField := func(fa *ssa.FieldAddr) (string, bool) {
		pt, ok := fa.X.Type().Underlying().(*types.Pointer)
		if !ok {
			return "", false
		}
		nt, ok := pt.Elem().(*types.Named)
		if !ok || nt.Obj().Pkg() == nil || !strings.HasSuffix(nt.Obj().Pkg().Path(), "/sam") {
			return "", false
		}
		st, ok := nt.Underlying().(*types.Struct)
		if !ok {
			return "", false
		}
		for _, k := range keys {
			if nt.Obj().Name() == k.typ && st.Field(fa.Field).Name() == k.field {
				return k.typ + "." + k.field, true
			}
		}
		return "", false
	}
	// fresh: an object allocated in this function, directly or as an element of a
	// slice made and filled here
	var fresh func(v ssa.Value, depth int) bool
	onStack := map[ssa.Value]bool{}
	fresh = func(v ssa.Value, depth int) bool {
		if depth > 12 {
			return false
		}
		if onStack[v] {
			return true // a loop-carried list: decided by its other edges
		}
		onStack[v] = true
		defer delete(onStack, v)
		switch x := v.(type) {
		case *ssa.Alloc:
			return true
		case *ssa.MakeSlice:
			return true
		case *ssa.Const:
			return x.Value == nil
		case *ssa.Phi:
			for _, e := range x.Edges {
				if e != v && !fresh(e, depth+1) {
					return false
				}
			}
			return true
		case *ssa.UnOp:
			if x.Op == token.MUL {
				if ia, ok := x.X.(*ssa.IndexAddr); ok {
					return fresh(ia.X, depth+1)
				}
			}
		case *ssa.Slice:
			return fresh(x.X, depth+1)
		case *ssa.Call:
			if cc, ok := isBuiltinCall(x, "append"); ok {
				return fresh(cc.Args[0], depth+1)
			}
		}
		return false
	}
	n := 0
	for _, fn := range c.FuncsIn("sam") {
		for _, f := range withAnon(fn) {
			f := f
			idx := 0
			allInstrs(f, func(ins ssa.Instruction) {
				st, ok := ins.(*ssa.Store)
				if !ok {
					return
				}
				fa, ok := st.Addr.(*ssa.FieldAddr)
				if !ok {
					return
				}
				what, ok := isKeyField(fa)
				if !ok {
					return
				}
				n++
				idx++
				r.Instance(rule, 1)
				key := fmt.Sprintf("%s#%s", c.FnName(f), what)
				if idx > 1 {
					key += fmt.Sprintf("~%d", idx)
				}
				if fresh(fa.X, 0) {
					r.Pass(rule, key, c.Pos(st.Pos()), "the object is made in this function")
					return
				}
				// together with the table: no path from the entry to the store that
				// neither found the owner nil nor entered the new name in a table
				isTableUpdate := func(x ssa.Instruction) bool {
					mu, ok := x.(*ssa.MapUpdate)
					return ok && (mu.Key == st.Val || sameExpr(mu.Key, st.Val, 0))
				}
				ownerNilEdge := func(from, to *ssa.BasicBlock) bool {
					ce, ok := classifyErrIf(from, func(v ssa.Value) bool {
						ld, ok := v.(*ssa.UnOp)
						if !ok || ld.Op != token.MUL {
							return false
						}
						of, ok := ld.X.(*ssa.FieldAddr)
						if !ok {
							return false
						}
						fv := fieldVarOfAddr(of)
						return fv != nil && fv.Name() == "owner"
					})
					if !ok || !ce.isNil || from.Succs[0] == from.Succs[1] {
						// nor the edge on which the new name is the old one (a self-rename
						// changes nothing in the table)
						if iff := ifOf(from); iff != nil && from.Succs[0] != from.Succs[1] {
							if bo, isBo := iff.Cond.(*ssa.BinOp); isBo && (bo.Op == token.EQL || bo.Op == token.NEQ) {
								isOld := func(v ssa.Value) bool {
									ld, ok := v.(*ssa.UnOp)
									if !ok || ld.Op != token.MUL {
										return false
									}
									of, ok := ld.X.(*ssa.FieldAddr)
									return ok && of.Field == fa.Field && sameExpr(of.X, fa.X, 0)
								}
								if (bo.X == st.Val && isOld(bo.Y)) || (bo.Y == st.Val && isOld(bo.X)) {
									same := 0
									if bo.Op == token.NEQ {
										same = 1
									}
									return to != from.Succs[same]
								}
							}
						}
						return true
					}
					return to != from.Succs[ce.yes] // the "owner is nil" edge is not followed
				}
				_, reach := pathTo(entryLoc(f), is(st), isTableUpdate, ownerNilEdge)
				if reach {
					// or right after it: from the store every way out passes the entry
					if _, bypass := pathTo(locOf(st), isExit, isTableUpdate, nil); !bypass {
						// … and the store itself is not on the "no owner" side only
						reach = false
					}
				}
				if reach {
					r.Fail(rule, key, c.Pos(st.Pos()), fmt.Sprintf("%s of an object that may belong to a header is assigned at %s on a path that neither found it without owner nor entered the new name in the header's table: the table keeps the old name (and lacks the new one), so the next AddReference / @SQ line for the old name finds a stale entry and indexes the list with it, and two members can get one name", what, c.Pos(st.Pos())))
					return
				}
				r.Pass(rule, key, c.Pos(st.Pos()), "written together with the owner's table")
			})
		}
	}
	if n < 6 {
		r.Instance(rule, 1)
		r.Fail(rule, "sam#name-stores", "-", fmt.Sprintf("only %d writes of a name-table key found in package sam (at least 6 confirmed by reading): the rule's anchor moved", n))
	}
}

// ---- NIL-RECV -------------------------------------------------------------------------
//
// The readers hand out a nil *Reference for a read without one, and the
// accessors answer for it (Name "*", ID -1 …). Every exported method of
// *Reference that reports something – results, no error – tests the receiver
// for nil before it touches a field. Added for a defect of the unchanged tree
// (repaired ba68e79): String, Tags and Get dereferenced it.
func ruleNilRecv(c *Ctx, r *Rep, tier string) {
	rule := "NIL-RECV"
	refT := c.Named("sam", "Reference")
	n := 0
	for _, fn := range c.FuncsIn("sam") {
		if fn.Parent() != nil || fn.Signature.Recv() == nil || fn.Object() == nil || !fn.Object().Exported() {
			continue
		}
		pt, ok := fn.Signature.Recv().Type().(*types.Pointer)
		if !ok || !types.Identical(pt.Elem(), refT) {
			continue
		}
		// setters (an error result) need an object; the rule is about what can be asked of a record's Ref
		res := fn.Signature.Results()
		isSetter := false
		for i := 0; i < res.Len(); i++ {
			if types.Identical(res.At(i).Type(), types.Universe.Lookup("error").Type()) {
				isSetter = true
			}
		}
		if isSetter {
			continue
		}
		n++
		r.Instance(rule, 1)
		recv := fn.Params[0]
		why := ""
		allInstrs(fn, func(ins ssa.Instruction) {
			if why != "" {
				return
			}
			fa, ok := ins.(*ssa.FieldAddr)
			if !ok || fa.X != ssa.Value(recv) {
				return
			}
			guarded := false
			for _, b := range fn.Blocks {
				ce, ok := classifyErrIf(b, func(v ssa.Value) bool { return v == ssa.Value(recv) })
				if ok && ce.isNil && b.Succs[0] != b.Succs[1] && dominatedByEdge(fn, b, 1-ce.yes, fa.Block()) {
					guarded = true
				}
			}
			if !guarded {
				why = fmt.Sprintf("the receiver's field is read at %s without a nil test: the readers return a nil *Reference for a read without reference, the sibling accessors (Name, ID, Len …) answer for it, this one panics", c.Pos(fa.Pos()))
			}
		})
		r.Check(why == "", rule, c.FnName(fn)+"#nil-receiver", c.Pos(fn.Pos()), "every field access is behind r != nil", why)
	}
	if n < 8 {
		r.Instance(rule, 1)
		r.Fail(rule, "sam.Reference#accessors", "-", fmt.Sprintf("only %d reporting methods of *Reference found (11 confirmed by reading): the rule's anchor moved", n))
	}
}
