// C15, continued: two rules written after fifth-round seeds (and one defect of
// the unchanged tree found with them).
//
//	COUNT-LIMIT  a reader that bounds the bin count of a reference leaves room
//	             for the statistics pseudo-bin the writer counts in: the count
//	             may be the number of bins of the scheme plus one. (csi.ReadFrom
//	             refused a full index written by csi.WriteTo: "invalid bin count:
//	             10 > 9" – repaired; the BAI/tabix reader has no upper bound.)
//	SORT-ALL     (*Index).sort puts every reference in canonical order, whatever
//	             state its bins are in: every way round the loop over the
//	             references passes the ordering of the bins, of each bin's chunks
//	             and (BAI/tabix) of the linear index. sort() is what makes
//	             "write, read, write" give identical bytes – the reader always
//	             sorts – so a reference that is skipped because its bins happen to
//	             be in order is written with an unsorted linear index.
package main

import (
	"fmt"
	"go/constant"
	"go/token"
	"go/types"
	"strings"

	"golang.org/x/tools/go/ssa"
)

func ruleCountLimit(c *Ctx, r *Rep, tier string) {
	rule := "COUNT-LIMIT"
	for _, pkg := range []string{"internal", "csi"} {
		fn := c.Func(pkg, "readBins")
		r.Instance(rule, 1)
		key := pkg + ".readBins#bin-count-bound"
		// the count: the variable the first binary.Read fills
		var count *ssa.Alloc
		allInstrs(fn, func(ins ssa.Instruction) {
			call, ok := ins.(*ssa.Call)
			if !ok || count != nil || calleeFullName(&call.Call) != "encoding/binary.Read" || len(call.Call.Args) != 3 {
				return
			}
			dst := call.Call.Args[2]
			if mi, ok := dst.(*ssa.MakeInterface); ok {
				dst = mi.X
			}
			if al, ok := dst.(*ssa.Alloc); ok {
				count = al
			}
		})
		if count == nil {
			r.Fail(rule, key, c.Pos(fn.Pos()), "the bin count read by readBins was not found (undecided)")
			continue
		}
		isCount := func(v ssa.Value) bool {
			v = stripConv(v)
			u, ok := v.(*ssa.UnOp)
			return ok && u.Op == token.MUL && u.X == ssa.Value(count)
		}
		// scheme size: the package's limit (a constant, or the uint32 parameter)
		limitKey := uint32ParamKey(fn)
		var limitConst int64 = -1
		if limitKey == "?" {
			if v := pkgConst(c, pkg, "BinLimit"); v != nil {
				limitConst, _ = constant.Int64Val(v)
			}
		}
		why, how := "", "no upper bound on the count (any count is read)"
		for _, b := range fn.Blocks {
			iff := ifOf(b)
			if iff == nil {
				continue
			}
			bo, ok := iff.Cond.(*ssa.BinOp)
			if !ok {
				continue
			}
			x, y, op := bo.X, bo.Y, bo.Op
			if isCount(y) && !isCount(x) {
				x, y = y, x
				switch op {
				case token.LSS:
					op = token.GTR
				case token.LEQ:
					op = token.GEQ
				case token.GTR:
					op = token.LSS
				case token.GEQ:
					op = token.LEQ
				}
			}
			if !isCount(x) || (op != token.GTR && op != token.GEQ) {
				continue
			}
			// refused when count > y (or >= y): the largest count let through
			p := polyOf(y, nil)
			slack := int64(0)
			if op == token.GEQ {
				slack = -1
			}
			var room int64 // (largest accepted count) − (bins of the scheme)
			switch {
			case limitKey != "?":
				d := p.add(pAtom(limitKey), -1)
				k, isConst := d[""]
				if len(d) > 1 || (len(d) == 1 && !isConst) {
					why = "the bin count is bounded by " + symKey(y) + ", which is not the scheme's bin limit plus a constant"
					continue
				}
				room = k + slack
			case limitConst >= 0:
				k, isConst := p[""]
				if len(p) != 1 || !isConst {
					continue // compared with something that is not a constant: not the scheme bound
				}
				room = k + slack - limitConst
			default:
				continue
			}
			how = fmt.Sprintf("counts up to the scheme's bins%+d are read", room)
			if room < 1 {
				why = fmt.Sprintf("the reader refuses a bin count above the scheme's bins%+d, but the writer counts the statistics pseudo-bin in: a reference with every bin populated is written with a count the reader refuses", room)
			}
		}
		r.Check(why == "", rule, key, c.Pos(fn.Pos()), how, why)
	}
}

func ruleSortAll(c *Ctx, r *Rep, tier string) {
	rule := "SORT-ALL"
	for _, f := range []struct {
		pkg  string
		want []string // element types of the sort.Interface adapters that must be applied
	}{{"internal", []string{"Bin", "Chunk", "Offset"}}, {"csi", []string{"bin", "Chunk"}}} {
		fn := c.Func(f.pkg, "(*Index).sort")
		// the loop over the references: a range over a field named Refs/refs
		var head *ssa.BasicBlock
		for _, b := range fn.Blocks {
			iff := ifOf(b)
			if iff == nil || len(b.Preds) < 2 {
				continue
			}
			bo, ok := iff.Cond.(*ssa.BinOp)
			if !ok || bo.Op != token.LSS {
				continue
			}
			if call, ok := bo.Y.(*ssa.Call); ok {
				if cc, ok := isBuiltinCall(call, "len"); ok && strings.HasSuffix(strings.ToLower(symKey(cc.Args[0])), ".refs") {
					head = b
				}
			}
		}
		for _, elem := range f.want {
			r.Instance(rule, 1)
			key := fmt.Sprintf("%s.(*Index).sort#every-reference:%s", f.pkg, elem)
			if head == nil {
				r.Fail(rule, key, c.Pos(fn.Pos()), "no loop over the references found in sort (undecided)")
				continue
			}
			// sort.Sort of a slice of elem
			isSort := func(ins ssa.Instruction) bool {
				call, ok := ins.(*ssa.Call)
				if !ok || calleeFullName(&call.Call) != "sort.Sort" || len(call.Call.Args) != 1 {
					return false
				}
				v := call.Call.Args[0]
				if mi, ok := v.(*ssa.MakeInterface); ok {
					v = mi.X
				}
				sl, ok := v.Type().Underlying().(*types.Slice)
				if !ok {
					return false
				}
				n, ok := sl.Elem().(*types.Named)
				return ok && n.Obj().Name() == elem
			}
			body := head.Succs[0]
			backToHead := func(ins ssa.Instruction) bool { return ins.Block() == head && ins == head.Instrs[0] }
			why := ""
			found := false
			allInstrs(fn, func(ins ssa.Instruction) {
				if isSort(ins) {
					found = true
				}
			})
			switch {
			case !found:
				why = "sort() never orders the " + elem + " lists"
			case elem == "Chunk":
				// inside the inner loop over the bins: the inner loop must be reached on every way round
				var inner *ssa.BasicBlock
				allInstrs(fn, func(ins ssa.Instruction) {
					if isSort(ins) {
						inner = ins.Block()
					}
				})
				ih := inner
				for ih != nil && !(ifOf(ih) != nil && len(ih.Preds) >= 2 && ih != head) {
					ih = ih.Idom()
				}
				if ih == nil {
					why = "the ordering of each bin's chunks is not inside a loop over the bins"
				} else if _, around := pathTo(Loc{body, -1}, backToHead, func(x ssa.Instruction) bool { return x.Block() == ih }, nil); around {
					why = "a reference can be passed over without the loop that orders its bins' chunks"
				}
			default:
				if _, around := pathTo(Loc{body, -1}, backToHead, isSort, nil); around {
					why = "a way round the loop over the references skips the ordering of the " + elem + " list: a reference that looks sorted already is written as it stands, while the reader always sorts – written, read and written again the bytes differ (and tile queries are answered differently)"
				}
			}
			r.Check(why == "", rule, key, c.Pos(fn.Pos()), "ordered for every reference on every way round the loop", why)
		}
	}
}
