// RESULT-FROM-LOOP (C17), added after sixteenth-round seeds C17-o (the
// Compressor constructor returns Identity for a negative threshold) and C17-p
// (adjacent hands lists longer than 32 to a second implementation MERGE-STEP
// never sees): what MERGE-STEP proves about the merge loop is a statement about
// the strategy only if the loop's list is what the strategy returns.
package main

import (
	"go/token"

	"golang.org/x/tools/go/ssa"
)

func ruleResultFromLoop(c *Ctx, r *Rep, tier string) {
	rule := "RESULT-FROM-LOOP"
	for name, fn := range mergeLoopFuncs(c) {
		key := "bgzf/index." + name + "#result"
		m := newMergeRoles(fn)
		r.Instance(rule, 1)
		why := ""
		n := 0
		allInstrs(fn, func(ins ssa.Instruction) {
			ret, ok := ins.(*ssa.Return)
			if !ok || len(ret.Results) != 1 {
				return
			}
			n++
			v := ret.Results[0]
			if k, isK := v.(*ssa.Const); isK && k.IsNil() {
				return
			}
			if m.isList(v) {
				return
			}
			if sl, isSl := v.(*ssa.Slice); isSl && m.isList(sl.X) {
				if sl.Low == nil {
					return
				}
				if k, isK := constInt(sl.Low); isK && k == 0 {
					return
				}
			}
			why += " a return at " + c.Pos(ret.Pos()) + " hands out " + describeValue(v) + ", not the list the examined loop merged;"
		})
		if n == 0 {
			why = " no return found"
		}
		r.Check(why == "", rule, key, c.Pos(fn.Pos()), "every return hands out nil or the list the merge loop worked on", "the strategy's result is not (only) the examined loop's list:"+why+" MERGE-STEP says nothing about that path (undecided)")
	}
	// the constructor returns its closure for every threshold
	cs := c.Func("bgzf/index", "CompressorStrategy")
	r.Instance(rule, 1)
	why := ""
	n := 0
	allInstrs(cs, func(ins ssa.Instruction) {
		ret, ok := ins.(*ssa.Return)
		if !ok || len(ret.Results) != 1 {
			return
		}
		n++
		v := ret.Results[0]
		for {
			if ct, ok := v.(*ssa.ChangeType); ok {
				v = ct.X
				continue
			}
			break
		}
		mc, isMC := v.(*ssa.MakeClosure)
		if !isMC || len(cs.AnonFuncs) != 1 || mc.Fn != ssa.Value(cs.AnonFuncs[0]) {
			why += " a return at " + c.Pos(ret.Pos()) + " gives " + describeValue(v) + " instead of the merging closure;"
		}
	})
	if n == 0 {
		why = " no return found"
	}
	r.Check(why == "", rule, "bgzf/index.CompressorStrategy#closure-always", c.Pos(cs.Pos()), "every return is the closure MERGE-STEP examines, whatever the threshold", "for some thresholds the constructor returns something else:"+why)
}

func describeValue(v ssa.Value) string {
	switch x := v.(type) {
	case *ssa.Call:
		if g := staticCallee(&x.Call); g != nil {
			return "the result of " + g.Name()
		}
		return "the result of a call"
	case *ssa.UnOp:
		if x.Op == token.MUL {
			if g, ok := x.X.(*ssa.Global); ok {
				return "the value of " + g.Name()
			}
		}
	case *ssa.Function:
		return "function " + x.Name()
	}
	return "a value of another origin (" + v.Name() + ")"
}
