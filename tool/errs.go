// Engine E3: error discipline.
package main

import (
	"fmt"
	"go/types"

	"golang.org/x/tools/go/ssa"
)

var errorType = types.Universe.Lookup("error").Type()

func errResultIndex(sig *types.Signature) int {
	res := sig.Results()
	for i := res.Len() - 1; i >= 0; i-- {
		if types.Identical(res.At(i).Type(), errorType) {
			return i
		}
	}
	return -1
}

// valueUsed: v has a use that keeps it alive (anything but a debug ref).
func valueUsed(v ssa.Value) bool {
	refs := v.Referrers()
	if refs == nil {
		return false
	}
	for _, r := range *refs {
		if _, isDbg := r.(*ssa.DebugRef); isDbg {
			continue
		}
		return true
	}
	return false
}

// ruleNoDroppedError (ERR-1): every call in the given packages whose callee
// returns an error has that error used (returned, stored, compared, passed on),
// or is in the exemption table ("function#callee") with its reason.
func ruleNoDroppedError(pkgs []string, exempt map[string]string) func(c *Ctx, r *Rep, tier string) {
	return func(c *Ctx, r *Rep, tier string) {
		rule := "ERR-1"
		used := map[string]bool{}
		for _, pkg := range pkgs {
			for _, fn := range c.FuncsIn(pkg) {
				allInstrs(fn, func(ins ssa.Instruction) {
					cc := callCommon(ins)
					if cc == nil {
						return
					}
					sig := cc.Signature()
					ei := errResultIndex(sig)
					if ei < 0 {
						return
					}
					name := calleeFullName(cc)
					if name == "" {
						name = "dynamic call"
					}
					key := fmt.Sprintf("%s#%s", c.FnName(fn), name)
					dropped := false
					switch x := ins.(type) {
					case *ssa.Go, *ssa.Defer:
						dropped = true
					case *ssa.Call:
						if sig.Results().Len() == 1 {
							dropped = !valueUsed(x)
						} else {
							dropped = true
							for _, ref := range *x.Referrers() {
								if e, ok := ref.(*ssa.Extract); ok && e.Index == ei && valueUsed(e) {
									dropped = false
								}
							}
						}
					}
					r.Instance(rule, 1)
					if !dropped {
						r.Pass(rule, key, c.Pos(ins.Pos()), "error result is used")
						return
					}
					if why, ok := exempt[key]; ok {
						used[key] = true
						r.Pass(rule, key, c.Pos(ins.Pos()), "exempt: "+why)
						return
					}
					// writes to in-memory buffers never fail
					switch name {
					case "(*bytes.Buffer).Write", "(*bytes.Buffer).WriteByte", "(*bytes.Buffer).WriteString", "(*bytes.Buffer).WriteRune",
						"(*strings.Builder).Write", "(*strings.Builder).WriteByte", "(*strings.Builder).WriteString", "(*strings.Builder).WriteRune",
						"(hash.Hash).Write", "(hash.Hash32).Write":
						r.Pass(rule, key, c.Pos(ins.Pos()), "library contract: never returns an error")
						return
					}
					if name == "fmt.Fprint" || name == "fmt.Fprintf" || name == "fmt.Fprintln" {
						// destination is an in-memory buffer?
						if len(cc.Args) > 0 {
							if mi, ok := cc.Args[0].(*ssa.MakeInterface); ok {
								t := mi.X.Type().String()
								if t == "*bytes.Buffer" || t == "*strings.Builder" {
									r.Pass(rule, key, c.Pos(ins.Pos()), "formatting into an in-memory buffer")
									return
								}
							}
						}
					}
					r.Fail(rule, key, c.Pos(ins.Pos()), fmt.Sprintf("the error returned by %s is dropped: a failure of the underlying reader/writer is swallowed here", name))
				})
			}
		}
	}
}

// ruleStickyErrConsulted (ERR-LATCH): for a local object of a struct type whose
// methods latch an error in field errField, the creating function reads that
// field (or returns it) on every path from the last method call on the object
// to a success return.
type latchCfg struct {
	pkg, fn   string // function that uses the object
	typ, fld  string // latch type and its error field
	creator   string // function returning the object ("" = local composite)
	successAt int    // index of the error result
}

func ruleStickyErr(cfgs []latchCfg) func(c *Ctx, r *Rep, tier string) {
	return func(c *Ctx, r *Rep, tier string) {
		rule := "ERR-LATCH"
		for _, cfg := range cfgs {
			fn := c.Func(cfg.pkg, cfg.fn)
			fld := c.Field(cfg.pkg, cfg.typ, cfg.fld)
			named := c.Named(cfg.pkg, cfg.typ)
			r.Instance(rule, 1)
			key := fmt.Sprintf("%s.%s#%s.%s", cfg.pkg, cfg.fn, cfg.typ, cfg.fld)
			// uses of the object: method calls with a receiver of the latch type
			isObj := func(v ssa.Value) bool {
				t := v.Type()
				if p, ok := t.(*types.Pointer); ok {
					t = p.Elem()
				}
				return types.Identical(t, named)
			}
			var methodCalls []ssa.Instruction
			allInstrs(fn, func(ins ssa.Instruction) {
				if call, ok := ins.(*ssa.Call); ok && !call.Call.IsInvoke() && len(call.Call.Args) > 0 && isObj(call.Call.Args[0]) {
					if g := staticCallee(&call.Call); g != nil && g.Signature.Recv() != nil {
						methodCalls = append(methodCalls, ins)
					}
				}
			})
			if len(methodCalls) == 0 {
				r.Fail(rule, key, c.Pos(fn.Pos()), "no method calls on the latch object found: undecided")
				continue
			}
			readsLatch := func(ins ssa.Instruction) bool {
				if u, ok := ins.(*ssa.UnOp); ok {
					if f, _ := loadedField(u); f == fld {
						return true
					}
				}
				return false
			}
			ei := errResultIndex(fn.Signature)
			success := func(ins ssa.Instruction) bool {
				ret, ok := ins.(*ssa.Return)
				return ok && ei >= 0 && isNilConst(retValue(ret, ei))
			}
			why := ""
			for _, mc := range methodCalls {
				if bad, ok := mustPass(locOf(mc), success, func(x ssa.Instruction) bool {
					return readsLatch(x) || func() bool {
						for _, m2 := range methodCalls {
							if m2 == x {
								return true // a later method call: judged from there
							}
						}
						return false
					}()
				}, nil); !ok {
					why = fmt.Sprintf("after the %s method call at %s the function can return success at %s without having looked at %s.%s: a decode that ran off the end of its data is reported as a valid value", cfg.typ, c.Pos(mc.Pos()), c.Pos(bad.Pos()), cfg.typ, cfg.fld)
				}
			}
			r.Check(why == "", rule, key, c.Pos(fn.Pos()), "the sticky error is read on every path from the last decode step to a success return", why)
		}
	}
}
