// C02: virtual offsets / Seek / LastChunk bookkeeping (structural part).
package main

import (
	"fmt"
	"go/token"
	"go/types"

	"golang.org/x/tools/go/ssa"
)

// addrChain returns the chain of fields selected by nested FieldAddrs,
// outermost first: &bg.lastChunk.Begin → [lastChunk Begin].
func addrChain(v ssa.Value) []*types.Var {
	var rev []*types.Var
	for {
		fa, ok := v.(*ssa.FieldAddr)
		if !ok {
			break
		}
		rev = append(rev, fieldVarOfAddr(fa))
		v = fa.X
	}
	out := make([]*types.Var, len(rev))
	for i, f := range rev {
		out[len(rev)-1-i] = f
	}
	return out
}

func chainIs(ch []*types.Var, want ...*types.Var) bool {
	if len(ch) != len(want) {
		return false
	}
	for i := range ch {
		if ch[i] != want[i] {
			return false
		}
	}
	return true
}

func isStoreToChain(ins ssa.Instruction, want ...*types.Var) bool {
	st, ok := ins.(*ssa.Store)
	return ok && chainIs(addrChain(st.Addr), want...)
}

// isInvokeOnField: ins is an interface call of method `meth` on a value loaded
// from struct field f.
func isInvokeOnField(ins ssa.Instruction, f *types.Var, meth string) bool {
	call, ok := ins.(*ssa.Call)
	if !ok || !call.Call.IsInvoke() || call.Call.Method.Name() != meth {
		return false
	}
	lf, _ := loadedField(call.Call.Value)
	return lf == f
}

func ruleLastChunk(c *Ctx, r *Rep, tier string) {
	rule := "PATH-LASTCHUNK"
	fLC := c.Field("bgzf", "Reader", "lastChunk")
	fCur := c.Field("bgzf", "Reader", "current")
	fBegin := c.Field("bgzf", "Chunk", "Begin")
	fEnd := c.Field("bgzf", "Chunk", "End")
	nextBlock := c.Func("bgzf", "(*Reader).nextBlock")
	for _, name := range []string{"Read", "ReadByte"} {
		fn := c.Func("bgzf", "(*Reader)."+name)
		r.Instance(rule, 1)
		key := "bgzf.(*Reader)." + name
		isConsume := func(ins ssa.Instruction) bool { return isInvokeOnField(ins, fCur, name) }
		isBegin := func(ins ssa.Instruction) bool { return isStoreToChain(ins, fLC, fBegin) }
		isEnd := func(ins ssa.Instruction) bool { return isStoreToChain(ins, fLC, fEnd) }
		isNext := func(ins ssa.Instruction) bool {
			call, ok := ins.(*ssa.Call)
			return ok && staticCallee(&call.Call) == nextBlock
		}
		fresh := func(ins ssa.Instruction) bool {
			// value stored = current.txOffset() computed in the same block, after any nextBlock call in that block
			st := ins.(*ssa.Store)
			call, ok := st.Val.(*ssa.Call)
			if !ok || !isInvokeOnField(call, fCur, "txOffset") || call.Block() != st.Block() {
				return false
			}
			stale := false
			b := st.Block()
			seen := false
			for _, x := range b.Instrs {
				if x == ssa.Instruction(call) {
					seen = true
				}
				if seen && x != ins && isNext(x) && locOf(x).I < locOf(ins).I {
					stale = true
				}
			}
			return !stale
		}
		why := ""
		nb, ne := 0, 0
		allInstrs(fn, func(ins ssa.Instruction) {
			if isBegin(ins) {
				nb++
				if !fresh(ins) {
					why += fmt.Sprintf(" lastChunk.Begin at %s is not current.txOffset() taken at that point;", c.Pos(ins.Pos()))
				}
			}
			if isEnd(ins) {
				ne++
				if !fresh(ins) {
					why += fmt.Sprintf(" lastChunk.End at %s is not current.txOffset() taken at that point;", c.Pos(ins.Pos()))
				}
			}
		})
		if nb == 0 || ne == 0 {
			why += " Begin/End assignments not found;"
		}
		// Begin before the first consume, after the skip loop: no nextBlock between Begin and the consume
		if bad, ok := mustPass(entryLoc(fn), isConsume, isBegin, nil); !ok {
			why += fmt.Sprintf(" the consume at %s is reachable without lastChunk.Begin having been set;", c.Pos(bad.Pos()))
		}
		allInstrs(fn, func(ins ssa.Instruction) {
			if isBegin(ins) {
				if bad, reach := pathTo(locOf(ins), isNext, isConsume, nil); reach {
					why += fmt.Sprintf(" after lastChunk.Begin was set the reader can move to the next block (%s) before consuming: Begin would point into the wrong block;", c.Pos(bad.Pos()))
				}
			}
		})
		// after moving to the next block in the leading skip, emptiness is tested again
		// before Begin is taken (a `for`, not an `if`: two empty members in a row, or an
		// empty member before the EOF marker, must both be skipped)
		isLenTest := func(ins ssa.Instruction) bool { return isInvokeOnField(ins, fCur, "len") }
		allInstrs(fn, func(ins ssa.Instruction) {
			if !isNext(ins) {
				return
			}
			// only block changes that can reach the Begin assignment without consuming
			if _, reach := pathTo(locOf(ins), isBegin, isConsume, nil); !reach {
				return
			}
			if _, ok := mustPass(locOf(ins), isBegin, isLenTest, nil); !ok {
				why += fmt.Sprintf(" after the block change at %s lastChunk.Begin is taken and data consumed without testing again whether the new block is empty: a second empty member yields a spurious zero byte / misplaced Begin;", c.Pos(ins.Pos()))
			}
		})
		// every return after a consume passes an End assignment made after the last consume / block change
		allInstrs(fn, func(ins ssa.Instruction) {
			if isConsume(ins) {
				if bad, ok := mustPass(locOf(ins), isReturn, isEnd, nil); !ok {
					why += fmt.Sprintf(" the return at %s is reachable after consuming without lastChunk.End being set;", c.Pos(bad.Pos()))
				}
			}
			if isNext(ins) {
				// after moving to the next block following a consume, End must be re-taken before returning
				if _, fromConsume := pathTo(entryLoc(fn), func(x ssa.Instruction) bool { return x == ins }, nil, nil); fromConsume {
					if _, after := pathTo(entryLoc(fn), func(x ssa.Instruction) bool { return x == ins }, isConsume, nil); !after {
						if bad, ok := mustPass(locOf(ins), isReturn, func(x ssa.Instruction) bool { return isEnd(x) || isBegin(x) }, nil); !ok {
							why += fmt.Sprintf(" after nextBlock (following a consume) the return at %s is reached without refreshing lastChunk.End;", c.Pos(bad.Pos()))
						}
					}
				}
			}
		})
		// no success return (constant nil error) before lastChunk.Begin was taken: even a
		// zero-length Read goes through the empty-block skip (index.ChunkReader relies on
		// Read(p[:0]) stepping to the next block) and refreshes lastChunk
		allInstrs(fn, func(ins ssa.Instruction) {
			ret, ok := ins.(*ssa.Return)
			if !ok || !isNilConst(retValue(ret, 1)) {
				return
			}
			if _, ok := mustPass(entryLoc(fn), func(x ssa.Instruction) bool { return x == ins }, isBegin, nil); !ok {
				why += fmt.Sprintf(" the success return at %s is reachable without the empty-block skip and without refreshing lastChunk;", c.Pos(ins.Pos()))
			}
		})
		r.Check(why == "", rule, key+"#lastchunk", c.Pos(fn.Pos()), "Begin = txOffset() after the empty-block skip and before the first consume; End = txOffset() after the last consume on every returning path", why)
	}
}

func rulePathSeek(c *Ctx, r *Rep, tier string) {
	rule := "PATH-SEEK"
	fn := c.Func("bgzf", "(*Reader).Seek")
	fLC := c.Field("bgzf", "Reader", "lastChunk")
	fErr := c.Field("bgzf", "Reader", "err")
	fCur := c.Field("bgzf", "Reader", "current")
	r.Instance(rule, 1)
	why := ""
	// the store to lastChunk: dominated by err == nil edge where err was just assigned from current.seek
	var lcStores []ssa.Instruction
	allInstrs(fn, func(ins ssa.Instruction) {
		if st, ok := ins.(*ssa.Store); ok {
			ch := addrChain(st.Addr)
			if len(ch) >= 1 && ch[0] == fLC {
				lcStores = append(lcStores, ins)
			}
		}
	})
	if len(lcStores) == 0 {
		why += " Seek never sets lastChunk;"
	}
	var seekCall ssa.Instruction
	var seekCalls []ssa.Instruction
	allInstrs(fn, func(ins ssa.Instruction) {
		if isInvokeOnField(ins, fCur, "seek") {
			seekCall = ins
			seekCalls = append(seekCalls, ins)
		}
	})
	if seekCall == nil {
		why += " no in-block seek call;"
	}
	for _, st := range lcStores {
		ok := false
		for _, b := range fn.Blocks {
			i := ifOf(b)
			if i == nil {
				continue
			}
			bo, isB := i.Cond.(*ssa.BinOp)
			if !isB || !isNilConst(bo.Y) {
				continue
			}
			f, _ := loadedField(bo.X)
			if f != fErr {
				continue
			}
			k := 0
			if bo.Op == token.NEQ {
				k = 1
			}
			if dominatedByEdge(fn, b, k, st.Block()) {
				for _, sc := range seekCalls {
					if instrDominates(sc, i) {
						ok = true
					}
				}
			}
		}
		if !ok {
			why += fmt.Sprintf(" lastChunk is set at %s without the in-block seek having succeeded (err == nil edge);", c.Pos(st.Pos()))
		}
		// value: Chunk{Begin: off, End: off}
	}
	// on the err == nil path to return, lastChunk is set
	if seekCall != nil {
		nilEdge := func(from, to *ssa.BasicBlock) bool {
			i := ifOf(from)
			if i == nil {
				return true
			}
			bo, isB := i.Cond.(*ssa.BinOp)
			if !isB || !isNilConst(bo.Y) {
				return true
			}
			if f, _ := loadedField(bo.X); f != fErr {
				return true
			}
			k := 1 // successor when err != nil
			if bo.Op == token.NEQ {
				k = 0
			}
			return from.Succs[k] != to // follow only err == nil
		}
		isLC := func(x ssa.Instruction) bool {
			for _, s := range lcStores {
				if s == x {
					return true
				}
			}
			return false
		}
		// every in-block seek (a shortcut for the block already held has its own)
		for _, sc := range seekCalls {
			if bad, ok := mustPass(locOf(sc), isReturn, isLC, nilEdge); !ok {
				why += fmt.Sprintf(" the in-block seek at %s can succeed and Seek return at %s without updating lastChunk: LastChunk() still describes the read before the Seek, and a reader restricted to a chunk (bam.Reader.SetChunk, index.ChunkReader) compares that stale end with the chunk's;", c.Pos(sc.Pos()), c.Pos(bad.Pos()))
			}
		}
	}
	// the sticky error is re-assigned on every path that is not the not-a-seeker return
	isErrStore := func(x ssa.Instruction) bool {
		if isStoreToChain(x, fErr) {
			return true
		}
		// a helper of the Reader that assigns the sticky error on all its paths
		if call, ok := x.(*ssa.Call); ok {
			if g := staticCallee(&call.Call); g != nil && g.Blocks != nil && g.Pkg == fn.Pkg && len(call.Call.Args) > 0 && call.Call.Args[0] == ssa.Value(fn.Params[0]) {
				if _, all := mustPass(entryLoc(g), isReturn, func(y ssa.Instruction) bool { return isStoreToChain(y, fErr) }, nil); all {
					return true
				}
			}
		}
		return false
	}
	notSeeker := func(x ssa.Instruction) bool {
		ret, ok := x.(*ssa.Return)
		if !ok {
			return false
		}
		// returns a loaded global error (ErrNotASeeker)
		if u, isU := ret.Results[0].(*ssa.UnOp); isU {
			if _, isG := u.X.(*ssa.Global); isG {
				return false
			}
		}
		return true
	}
	if bad, ok := mustPass(entryLoc(fn), notSeeker, isErrStore, nil); !ok {
		why += fmt.Sprintf(" Seek can return at %s without re-assigning the reader's sticky error: a reader that hit EOF or an error stays unusable after a successful Seek;", c.Pos(bad.Pos()))
	}
	r.Check(why == "", rule, "bgzf.(*Reader).Seek#lastchunk-err", c.Pos(fn.Pos()), "lastChunk = {off,off} exactly on the err == nil edge of the in-block seek; err re-assigned on every path", why)
}

func ruleCurBlock(c *Ctx, r *Rep, tier string) {
	rule := "CUR-BLOCK"
	fOff := c.Field("bgzf", "block", "offset")
	fUsed := c.Field("bgzf", "block", "used")
	fBase := c.Field("bgzf", "block", "base")
	fBlk := c.Field("bgzf", "Offset", "Block")
	fFile := c.Field("bgzf", "Offset", "File")
	// Read
	{
		fn := c.Func("bgzf", "(*block).Read")
		r.Instance(rule, 1)
		why := ""
		var inner *ssa.Call
		allInstrs(fn, func(ins ssa.Instruction) {
			if call, ok := ins.(*ssa.Call); ok && calleeFullName(&call.Call) == "(*bytes.Reader).Read" {
				inner = call
			}
		})
		var st *ssa.Store
		allInstrs(fn, func(ins ssa.Instruction) {
			if isStoreToChain(ins, fOff, fBlk) {
				st = ins.(*ssa.Store)
			}
		})
		if inner == nil || st == nil {
			why += " forwarding Read or offset update not found;"
		} else {
			bo, ok := st.Val.(*ssa.BinOp)
			if !ok || bo.Op != token.ADD || !dependsOn(bo.Y, inner, 0) {
				why += " offset.Block is not advanced by the number of bytes read;"
			} else if u, isU := bo.X.(*ssa.UnOp); !isU || !chainIs(addrChain(u.X), fOff, fBlk) {
				why += " offset.Block is not advanced from its own value;"
			}
			if _, ok := mustPass(locOf(inner), isReturn, func(x ssa.Instruction) bool { return x == ssa.Instruction(st) }, nil); !ok {
				why += " a path returns without advancing offset.Block;"
			}
		}
		usedSet := false
		allInstrs(fn, func(ins ssa.Instruction) {
			if isStoreToChain(ins, fUsed) {
				usedSet = true
			}
		})
		if !usedSet {
			why += " used is never set;"
		}
		r.Check(why == "", rule, "bgzf.(*block).Read#offset", c.Pos(fn.Pos()), "offset.Block += n on every path; used set", why)
	}
	// ReadByte
	{
		fn := c.Func("bgzf", "(*block).ReadByte")
		r.Instance(rule, 1)
		why := ""
		var st *ssa.Store
		allInstrs(fn, func(ins ssa.Instruction) {
			if isStoreToChain(ins, fOff, fBlk) {
				st = ins.(*ssa.Store)
			}
		})
		if st == nil {
			why += " offset.Block not updated;"
		} else {
			bo, ok := st.Val.(*ssa.BinOp)
			k, isK := int64(0), false
			if ok {
				k, isK = constInt(bo.Y)
			}
			if !ok || bo.Op != token.ADD || !isK || k != 1 {
				why += " offset.Block is not advanced by one;"
			}
		}
		usedSet := false
		allInstrs(fn, func(ins ssa.Instruction) {
			if isStoreToChain(ins, fUsed) {
				usedSet = true
			}
		})
		if !usedSet {
			why += " used is never set;"
		}
		r.Check(why == "", rule, "bgzf.(*block).ReadByte#offset", c.Pos(fn.Pos()), "offset.Block++ and used on success", why)
	}
	// seek
	{
		fn := c.Func("bgzf", "(*block).seek")
		r.Instance(rule, 1)
		why := ""
		ok := false
		allInstrs(fn, func(ins ssa.Instruction) {
			if isStoreToChain(ins, fOff, fBlk) {
				st := ins.(*ssa.Store)
				if cv, isC := st.Val.(*ssa.Convert); isC && cv.X == ssa.Value(fn.Params[1]) {
					ok = true
				}
			}
		})
		if !ok {
			why += " offset.Block is not set to the seek target;"
		}
		r.Check(why == "", rule, "bgzf.(*block).seek#offset", c.Pos(fn.Pos()), "offset.Block = target", why)
	}
	// setBase
	{
		fn := c.Func("bgzf", "(*block).setBase")
		r.Instance(rule, 1)
		baseOK, fileOK := false, false
		allInstrs(fn, func(ins ssa.Instruction) {
			st, isSt := ins.(*ssa.Store)
			if !isSt {
				return
			}
			if isStoreToChain(ins, fBase) && st.Val == ssa.Value(fn.Params[1]) {
				baseOK = true
			}
			// offset = Offset{File: n}: via a local composite or a direct field store
			if ch := addrChain(st.Addr); len(ch) > 0 && ch[len(ch)-1] == fFile && st.Val == ssa.Value(fn.Params[1]) {
				fileOK = true
			}
		})
		r.Check(baseOK && fileOK, rule, "bgzf.(*block).setBase#offset", c.Pos(fn.Pos()), "base = n and offset = {File: n, Block: 0}", "setBase does not set both base and offset.File to the member's file offset")
	}
}

// ruleNextBlock: with read-ahead, nextBlock leaves its receive loop (and so
// reports a result, error included) only for the decompressor whose block base
// is the expected one; results for other bases – e.g. a stale io.EOF queued
// before a backward Seek – are discarded.
func ruleNextBlock(c *Ctx, r *Rep, tier string) {
	rule := "PATH-NEXTBLOCK"
	fn := c.Func("bgzf", "(*Reader).nextBlock")
	fCur := c.Field("bgzf", "Reader", "current")
	fWork := c.Field("bgzf", "Reader", "working")
	r.Instance(rule, 1)
	var recv ssa.Instruction
	allInstrs(fn, func(ins ssa.Instruction) {
		if u, ok := ins.(*ssa.UnOp); ok && u.Op == token.ARROW {
			if f, _ := loadedField(u.X); f == fWork {
				recv = ins
			}
		}
	})
	if recv == nil {
		r.Fail(rule, "bgzf.(*Reader).nextBlock#base-match", c.Pos(fn.Pos()), "no receive on working found: undecided")
		return
	}
	// true edges of  current.Base() == <expected base>
	matchEdge := func(from, to *ssa.BasicBlock) bool {
		i := ifOf(from)
		if i == nil {
			return true
		}
		bo, ok := i.Cond.(*ssa.BinOp)
		if !ok || (bo.Op != token.EQL && bo.Op != token.NEQ) {
			return true
		}
		if !isResultBase(c, insOf(bo.X), fCur) && !isResultBase(c, insOf(bo.Y), fCur) {
			return true
		}
		k := 0
		if bo.Op == token.NEQ {
			k = 1
		}
		return !(from.Succs[k] == to && from.Succs[1-k] != to) // block the match edge
	}
	// path-sensitive enumeration (the `ok` flag is a phi of constants)
	w := NewWalker(c)
	w.Inline = 0
	w.Edge = func(from *ssa.BasicBlock, succ int) (string, bool) {
		if !matchEdge(from, from.Succs[succ]) {
			return "match", true
		}
		return "", false
	}
	// the expected base: what current.Base() is compared with
	var want ssa.Value
	for _, b := range fn.Blocks {
		if i := ifOf(b); i != nil {
			if bo, ok := i.Cond.(*ssa.BinOp); ok && (bo.Op == token.EQL || bo.Op == token.NEQ) {
				switch {
				case isResultBase(c, insOf(bo.X), fCur):
					want = bo.Y
				case isResultBase(c, insOf(bo.Y), fCur):
					want = bo.X
				}
			}
		}
	}
	// a read of exactly that member with the decompressor in hand (what Seek does
	// on a miss) yields the wanted block by construction
	w.Effect = func(ins ssa.Instruction) (string, bool) {
		call, ok := ins.(*ssa.Call)
		if !ok || want == nil {
			return "", false
		}
		if g := staticCallee(&call.Call); g != nil && g.Name() == "nextBlockAt" && len(call.Call.Args) >= 2 && call.Call.Args[1] == want {
			return "match", true
		}
		// … or through a helper that hands its parameter on as the offset
		if g := staticCallee(&call.Call); g != nil && g.Blocks != nil && g.Pkg == fn.Pkg {
			for i, a := range call.Call.Args {
				if a != want || i >= len(g.Params) {
					continue
				}
				reads := false
				allInstrs(g, func(x ssa.Instruction) {
					if c2, ok := x.(*ssa.Call); ok {
						if h := staticCallee(&c2.Call); h != nil && h.Name() == "nextBlockAt" && len(c2.Call.Args) >= 2 && c2.Call.Args[1] == ssa.Value(g.Params[i]) {
							reads = true
						}
					}
				})
				if reads {
					return "match", true
				}
			}
		}
		return "", false
	}
	var bad ssa.Instruction
	for _, e := range w.Walk(fn, locOf(recv)) {
		if _, isRet := e.At.(*ssa.Return); isRet && e.Counts["match"] == 0 {
			bad = e.At
		}
	}
	if w.overflow {
		r.Fail(rule, "bgzf.(*Reader).nextBlock#base-match", c.Pos(fn.Pos()), "path budget exhausted: undecided")
		return
	}
	if bad != nil {
		r.Fail(rule, "bgzf.(*Reader).nextBlock#base-match", c.Pos(bad.Pos()), "nextBlock can return after taking a read-ahead result without its block base having matched the expected base: a result queued for another position (a stale io.EOF after a backward Seek) is reported at an unrelated block transition")
	} else {
		r.Pass(rule, "bgzf.(*Reader).nextBlock#base-match", c.Pos(recv.Pos()), "every return after a receive on working passes the Base() == expected edge")
	}
}

func insOf(v ssa.Value) ssa.Instruction {
	i, _ := v.(ssa.Instruction)
	return i
}

func init() {
	register(&PropDef{
		ID: "C02", Title: "Virtual offsets address the flat stream: Seek/Read/LastChunk obey a simple model", Level: "other",
		Rules: append([]RuleDef{
			{Name: "PATH-LASTCHUNK", What: "Read/ReadByte: lastChunk.Begin taken after the empty-block skip and before the first consume; lastChunk.End re-taken after the last consume on every returning path (incl. Blocked mode)", Floor: 2, Run: ruleLastChunk},
			{Name: "PATH-SEEK", What: "Seek: lastChunk = {off,off} exactly on the success edge of the in-block seek; the sticky error is re-assigned on every path", Floor: 1, Run: rulePathSeek},
			{Name: "PATH-NEXTBLOCK", What: "nextBlock reports a read-ahead result (data or error) only for the decompressor whose base matched the expected one", Floor: 1, Run: ruleNextBlock},
			{Name: "FAILED-CURRENT", What: "nextBlock makes the failed block current before it returns that block's error (the end of the stream included): Seek's shortcut for the block held needs hasData, which a failed block does not have – the slow path runs and re-points the parked read-ahead goroutine (added after twelfth-round seed C02-n, which PATH-NEXTBLOCK had reported by accident)", Floor: 1, Run: ruleFailedCurrent},
			{Name: "ERR-OVERWRITE", What: "a possibly failing store to Reader.err – io.EOF is one – is read before the field is assigned again (shared with C09)", Floor: 2, Run: ruleErrOverwrite},
			{Name: "READ-FILLS", What: "Reader.Read comes back with fewer bytes than asked for only where the recorded error was found non-nil (or, in Blocked mode, with io.EOF): every way from the fill loop to the final return has the buffer full or an error recorded (added after twelfth-round seed C02-m)", Floor: 1, Run: ruleReadFills},
			{Name: "GEN-BIND", What: "read-ahead generations: a result read for the latest instruction never looks stale (shared with C09: \"every call returns\")", Floor: 2, Run: ruleGenBind},
			{Name: "SYNC-REDIRECT", What: "after nextBlock's synchronous fall-back the read-ahead goroutine is re-pointed on every path (shared with C09)", Floor: 1, Run: ruleSyncRedirect},
			{Name: "CUR-BLOCK", What: "block.Read/ReadByte/seek/setBase keep offset (the source of LastChunk) in step with what was consumed", Floor: 4, Run: ruleCurBlock},
			{Name: "STICKY-ERR", What: "Reader.Read/ReadByte return the recorded error at once and do not touch it – also io.EOF in Blocked mode: the end of the data is final until a Seek (added after fifth-round seed C02-f)", Floor: 2, Run: ruleReaderStickyErr},
			{Name: "POOL-BARE", What: "wait() takes the block out of the decompressor on every path, failed reads included, and only bare decompressors go back to the pool: otherwise the reader and a decompressor share a block (shared with C01/C09; under C02 since fifth-round seed C02-e)", Floor: 4, Run: rulePoolBare},
			{Name: "PATH-BLOCKSEEK", What: "(*block).seek positions the buffer on every path and records the in-block offset on the success edge only (added after a blind second seed round)", Floor: 2, Run: ruleBlockSeek},
			{Name: "CUR-SEEKOFF", What: "countReader.seek records the new offset only after the underlying Seek succeeded, and discards what it had buffered only there too (added after a blind second seed round; buffer clause after tenth-round seed C09-l)", Floor: 3, Run: ruleSeekOff},
			{Name: "BASE-DROPS-DATA", What: "a block given a new base has no data until a read into it succeeded (setBase clears the buffer; hasData tests it)", Floor: 2, Run: ruleBaseDropsData},
			{Name: "BIT-BSIZE", What: "expectedMemberSize, from which the next block's offset is computed, is the inverse of the writer's BSIZE for every member size up to 0x10000 (shared with C01/C08; under C02 since seventh-round seed C02-h: the +1 done in sixteen bits makes the largest legal member unreadable and unseekable)", Floor: 2, Run: ruleBSize},
			{Name: "WIDEN-FIRST", What: "package bgzf: a size taken from a member header is widened before it enters arithmetic (shared with C11)", Floor: 1, Run: ruleWidenFirst([]string{"bgzf"}, "bgzf", 5)},
			{Name: "TAB-BGZF", What: "the BGZF constants are the specification's and the buffers are typed by them: the member buffer holds MaxBlockSize bytes, so every member a conforming writer produces can be read and sought to (shared with C01/C08; under C02 since ninth-round seed C02-j: a member buffer of BlockSize bytes panics on a full incompressible block)", Floor: 10, Run: ruleBgzfConstants},
		}, readerRules("R1", "R2", "R3", "R4", "R5", "R6")...),
		Explanation: "The bookkeeping that LastChunk and Seek rest on, decided on every path: where lastChunk.Begin/End are taken relative to block changes and consumption (PATH-LASTCHUNK), that Seek updates lastChunk only on success and clears the sticky error (PATH-SEEK), that the per-block offset advances by exactly what was consumed (CUR-BLOCK); and R1–R6 for \"every call returns\" under every read-ahead schedule (head token, decompressor wait group, hand-offs between Seek and the read-ahead goroutine).",
		NotDecided:  "the numerical model (which bytes sit at which logical position), Blocked-mode end-of-block arithmetic, equality of replayed bytes.",
	})
}
