package main

import (
	"golang.org/x/tools/go/ssa"
)

// ruleMultistream: the decompressor's gzip reader stays in multistream mode, so
// that draining it to io.EOF (PATH-EOFDRAIN) also consumes – and thereby
// validates as gzip members – any bytes that a corrupted BSIZE placed inside
// the member window after the first member. Who-may-call rule, expected count 0.
func ruleMultistream(pkg string) func(c *Ctx, r *Rep, tier string) {
	return func(c *Ctx, r *Rep, tier string) {
		rule := "GZ-MULTISTREAM"
		for _, fn := range c.FuncsIn(pkg) {
			r.Instance(rule, 1)
			var bad ssa.Instruction
			allInstrs(fn, func(ins ssa.Instruction) {
				if cc := callCommon(ins); cc != nil && calleeFullName(cc) == "(*compress/gzip.Reader).Multistream" {
					if k, ok := cc.Args[1].(*ssa.Const); !ok || k.Value == nil || k.Value.String() != "true" {
						bad = ins
					}
				}
			})
			key := c.FnName(fn) + "#multistream"
			if bad != nil {
				r.Fail(rule, key, c.Pos(bad.Pos()), "gzip multistream mode is switched off: bytes between the end of the first gzip member and the end of the BSIZE window are no longer read, so a BSIZE altered to reach a later member boundary silently drops the members in between")
			} else {
				r.Pass(rule, key, c.Pos(fn.Pos()), "no Multistream(false)")
			}
		}
	}
}
