// BIN-WIDTH (C11): binary.ByteOrder's UintN / PutUintN index their argument up to
// N/8−1 and panic on a shorter slice. Every call in the library is given
//
//	a slice whose length is known to be at least N/8 (constant bounds, an array,
//	a difference of bounds that is the constant N/8 as a polynomial), or
//	the result of a module helper h(…, n, …) that returns either nil or a slice
//	of exactly n bytes (n ≥ N/8 at the call), where every condition under which
//	h returns nil is, with the arguments put in, a condition the caller has
//	already left on – so the nil never arrives.
//
// The second form is bam.(*buffer).readUint16/readInt32 over unsafeBytes: the
// `b.len() < 2` test in the caller looks redundant next to the one in the helper,
// but without it a truncated record makes Uint16(nil) panic.
package main

import (
	"fmt"
	"go/token"
	"strings"

	"golang.org/x/tools/go/ssa"
)

func byteOrderWidth(call *ssa.Call) (int64, bool) {
	g := staticCallee(&call.Call)
	if g == nil || g.Pkg == nil || g.Pkg.Pkg.Path() != "encoding/binary" || g.Signature.Recv() == nil {
		return 0, false
	}
	name := g.Name()
	name = strings.TrimPrefix(name, "Put")
	name = strings.TrimPrefix(name, "Append")
	switch name {
	case "Uint16":
		return 2, true
	case "Uint32":
		return 4, true
	case "Uint64":
		return 8, true
	}
	return 0, false
}

type nilCond struct {
	key  string // condition as a key over the helper's parameters
	edge int    // edge of the If that leads to the nil return
	cond ssa.Value
}

// sliceHelper: g returns nil or data[s:s+n] with n its k-th parameter.
func sliceHelper(g *ssa.Function) (nParam int, conds []nilCond, ok bool) {
	nParam = -1
	if g == nil || len(g.Blocks) == 0 || g.Signature.Results().Len() != 1 {
		return -1, nil, false
	}
	good := true
	allInstrs(g, func(ins ssa.Instruction) {
		ret, isRet := ins.(*ssa.Return)
		if !isRet || (g.Recover != nil && ret.Block() == g.Recover) {
			return
		}
		v := retValue(ret, 0)
		if isNilConst(v) {
			// the condition that leads here: the return block's only predecessor ends in an If
			b := ret.Block()
			if len(b.Preds) != 1 || ifOf(b.Preds[0]) == nil {
				good = false
				return
			}
			p := b.Preds[0]
			edge := 0
			if p.Succs[1] == b {
				edge = 1
			}
			conds = append(conds, nilCond{edge: edge, cond: ifOf(p).Cond})
			return
		}
		sl, isSl := v.(*ssa.Slice)
		if !isSl || sl.High == nil {
			good = false
			return
		}
		lo := pConst(0)
		if sl.Low != nil {
			lo = polyOf(forwardLoad(sl.Low), nil)
		}
		diff := polyOf(forwardLoad(sl.High), nil).add(lo, -1)
		found := false
		for i, p := range g.Params {
			if diff.eq(pAtom(paramKey(p))) {
				if nParam >= 0 && nParam != i {
					good = false
				}
				nParam, found = i, true
			}
		}
		if !found {
			good = false
		}
	})
	return nParam, conds, good && nParam >= 0
}

func ruleBinWidth(c *Ctx, r *Rep, tier string) {
	rule := "BIN-WIDTH"
	n := 0
	for _, fn := range boundsScope(c) {
		for _, f := range withAnon(fn) {
			bc := &boundsCtx{c: c, fn: f}
			idx := 0
			allInstrs(f, func(ins ssa.Instruction) {
				call, ok := ins.(*ssa.Call)
				if !ok {
					return
				}
				w, ok := byteOrderWidth(call)
				if !ok || len(call.Call.Args) < 2 {
					return
				}
				n++
				idx++
				r.Instance(rule, 1)
				key := fmt.Sprintf("%s#%s", c.FnName(f), staticCallee(&call.Call).Name())
				if idx > 1 {
					key += fmt.Sprintf("~%d", idx)
				}
				arg := call.Call.Args[1]
				for {
					switch x := arg.(type) {
					case *ssa.Convert:
						arg = x.X
						continue
					case *ssa.ChangeType:
						arg = x.X
						continue
					}
					break
				}
				how := ""
				if lb := bc.lenLB(arg, call.Block(), 0); lb >= w {
					how = fmt.Sprintf("argument of at least %d bytes", lb)
				}
				if sl, isSl := arg.(*ssa.Slice); isSl && how == "" && sl.High != nil {
					lo := pConst(0)
					if sl.Low != nil {
						lo = polyOf(sl.Low, nil)
					}
					if d := polyOf(sl.High, nil).add(lo, -1); len(d) <= 1 {
						if k, isConst := d[""]; isConst && k >= w || (len(d) == 0 && w <= 0) {
							how = fmt.Sprintf("bounds differ by the constant %d", k)
						}
					}
				}
				// x[lo:] behind a comparison of lo+k with len(x): len(x) − lo ≥ w
				if sl, isSl := arg.(*ssa.Slice); isSl && how == "" && sl.High == nil && sl.Low != nil {
					lo := polyOf(sl.Low, nil)
					for _, b := range f.Blocks {
						iff := ifOf(b)
						if iff == nil || b.Succs[0] == b.Succs[1] {
							continue
						}
						bo, ok := iff.Cond.(*ssa.BinOp)
						if !ok {
							continue
						}
						isLenX := func(v ssa.Value) bool {
							a, ok := isLenCall(v)
							return ok && sameExpr(a, sl.X, 0)
						}
						// (edge, strict) on which `A < len(x)` (strict) or `A ≤ len(x)` holds
						var A ssa.Value
						edge, strict := -1, false
						switch {
						case isLenX(bo.Y):
							A = bo.X
							switch bo.Op {
							case token.LSS:
								edge, strict = 0, true
							case token.LEQ:
								edge, strict = 0, false
							case token.GEQ:
								edge, strict = 1, true
							case token.GTR:
								edge, strict = 1, false
							}
						case isLenX(bo.X):
							A = bo.Y
							switch bo.Op {
							case token.GTR:
								edge, strict = 0, true
							case token.GEQ:
								edge, strict = 0, false
							case token.LEQ:
								edge, strict = 1, true
							case token.LSS:
								edge, strict = 1, false
							}
						}
						if edge < 0 || !dominatedByEdge(f, b, edge, call.Block()) {
							continue
						}
						d := polyOf(A, nil).add(lo, -1)
						if len(d) > 1 {
							continue
						}
						k, isConst := d[""]
						if len(d) == 1 && !isConst {
							continue
						}
						if strict {
							k++
						}
						if k >= w {
							how = fmt.Sprintf("the rest of the slice holds at least %d bytes (bound compared with the length)", k)
						}
					}
				}
				if h, isCall := arg.(*ssa.Call); isCall && how == "" {
					g := staticCallee(&h.Call)
					np, conds, ok := sliceHelper(g)
					if ok && np < len(h.Call.Args) {
						if k, isK := constInt(h.Call.Args[np]); isK && k >= w {
							// every nil condition of the helper is excluded at the call
							fr := &symFrame{params: map[*ssa.Parameter]string{}, vals: map[ssa.Value]int64{}}
							for i, p := range g.Params {
								if i < len(h.Call.Args) {
									fr.params[p] = symKey(h.Call.Args[i])
								}
							}
							missing := ""
							for _, nc := range conds {
								want, wpol := canonCond(nc.cond, fr)
								nilWhen := wpol == (nc.edge == 0) // truth of `want` under which the helper returns nil
								excluded := false
								for _, b := range f.Blocks {
									iff := ifOf(b)
									if iff == nil || b.Succs[0] == b.Succs[1] {
										continue
									}
									have, hpol := canonCond(iff.Cond, nil)
									if have != want {
										continue
									}
									for k := 0; k < 2; k++ {
										if truth := hpol == (k == 0); truth != nilWhen && dominatedByEdge(f, b, k, call.Block()) {
											excluded = true
										}
									}
								}
								if !excluded {
									missing = want
								}
							}
							if missing == "" {
								how = fmt.Sprintf("%s(%d) returns %d bytes or nil, and each of its %d nil conditions has been left on before the call", g.Name(), k, k, len(conds))
							} else {
								r.Check(false, rule, key, c.Pos(call.Pos()), "", fmt.Sprintf("%s returns nil when %s, and the caller has not excluded that before handing the result to %s: a truncated input panics (index out of range) instead of setting the error", g.Name(), missing, staticCallee(&call.Call).Name()))
								return
							}
						}
					}
				}
				r.Check(how != "", rule, key, c.Pos(call.Pos()), how, fmt.Sprintf("the argument is not shown to hold %d bytes", w))
			})
		}
	}
	if n < 10 {
		r.Instance(rule, 1)
		r.Fail(rule, "module#byteorder-calls", "-", fmt.Sprintf("only %d ByteOrder calls found (29 confirmed by reading): the rule's anchor moved", n))
	}
}

// canonCond: a comparison as (key, polarity) with the key in one of the forms
// x<y, x==y, so that a condition and its negation or mirror image share a key.
func canonCond(v ssa.Value, fr *symFrame) (string, bool) {
	bo, ok := v.(*ssa.BinOp)
	if !ok {
		if u, isU := v.(*ssa.UnOp); isU && u.Op == token.NOT {
			k, p := canonCond(u.X, fr)
			return k, !p
		}
		return symKeyF(v, fr, 0), true
	}
	x, y := symKeyF(bo.X, fr, 0), symKeyF(bo.Y, fr, 0)
	switch bo.Op {
	case token.LSS:
		return x + "<" + y, true
	case token.GEQ:
		return x + "<" + y, false
	case token.GTR:
		return y + "<" + x, true
	case token.LEQ:
		return y + "<" + x, false
	case token.EQL, token.NEQ:
		if y < x {
			x, y = y, x
		}
		return x + "==" + y, bo.Op == token.EQL
	}
	return symKeyF(v, fr, 0), true
}

// forwardLoad: a load that follows, in its block and with no call in between, a
// store to the same location has the stored value (b.off += n; … b.data[s:b.off]).
func forwardLoad(v ssa.Value) ssa.Value {
	u, ok := v.(*ssa.UnOp)
	if !ok || u.Op != token.MUL {
		return v
	}
	b := u.Block()
	at := -1
	for i, ins := range b.Instrs {
		if ins == ssa.Instruction(u) {
			at = i
		}
	}
	for i := at - 1; i >= 0; i-- {
		switch x := b.Instrs[i].(type) {
		case *ssa.Store:
			if sameAddr(x.Addr, u.X) {
				return x.Val
			}
		case *ssa.Call:
			return v
		}
	}
	return v
}
