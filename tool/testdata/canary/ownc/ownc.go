// Package ownc replicates the reader/cache ownership hand-over with conforming
// and violating instances. Analysed, never executed.
package ownc

type Block interface {
	Base() int64
	Read([]byte) (int, error)
	seek(int64) error
}

type Cache interface {
	Get(int64) Block
	Put(Block) (Block, bool)
}

type dec struct{ blk Block }

func (d *dec) using(b Block) *dec { d.blk = b; return d }
func (d *dec) wait() Block        { b := d.blk; d.blk = nil; return b }

type Reader struct {
	current Block
	cache   Cache
}

func (r *Reader) cachePut(b Block) (Block, bool) {
	if b == nil {
		return b, false
	}
	return r.cache.Put(b)
}

func (r *Reader) keep(b Block) {
	if b == nil {
		return
	}
	r.cache.Put(b)
}

// GoodSwap follows the contract.
func (r *Reader) GoodSwap(base int64) bool {
	blk := r.cache.Get(base)
	if blk != nil {
		r.cachePut(r.current)
		r.current = blk
		return true
	}
	var retained bool
	r.current, retained = r.cachePut(r.current)
	if retained {
		r.current = nil
	}
	return false
}

// GoodSeek keeps only blocks it does not go on using.
func (r *Reader) GoodSeek(d *dec, base int64) {
	blk := d.wait()
	if blk.Base() == base {
		r.current = blk
	} else {
		r.keep(blk)
	}
}

// BadSeek caches the block and then makes it current.
func (r *Reader) BadSeek(d *dec, base int64) {
	blk := d.wait()
	r.keep(blk)
	if blk.Base() == base {
		r.current = blk
	}
}

// BadSwap leaves current pointing at a block it gave away.
func (r *Reader) BadSwap(base int64) bool {
	_, retained := r.cachePut(r.current)
	if retained && base < 0 {
		r.current = nil
	}
	return retained
}
