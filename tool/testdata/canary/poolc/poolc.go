// Package poolc has package-level state shared between instances of a type, in
// the three shapes SHARED-STATE tells apart: an object pool whose objects are
// reset when they are taken out (fine), one whose objects are used as they come
// (reported), and a table that instances write to (reported).
package poolc

import (
	"bytes"
	"errors"
	"sync"
)

// ErrClosed is read only.
var ErrClosed = errors.New("poolc: closed")

var prefix = []byte{'B', 'C', 2, 0}

var cleanPool = sync.Pool{New: func() interface{} { return new(bytes.Buffer) }}

var dirtyPool = sync.Pool{New: func() interface{} { return new(bytes.Buffer) }}

var seen = map[string]int{}

type W struct {
	buf *bytes.Buffer
}

func NewClean() *W {
	b := cleanPool.Get().(*bytes.Buffer)
	b.Reset()
	return &W{buf: b}
}

func (w *W) CloseClean() error {
	if w.buf == nil {
		return ErrClosed
	}
	cleanPool.Put(w.buf)
	w.buf = nil
	return nil
}

func NewDirty() *W {
	return &W{buf: dirtyPool.Get().(*bytes.Buffer)}
}

func (w *W) CloseDirty() {
	dirtyPool.Put(w.buf)
	w.buf = nil
}

func (w *W) Note(name string) bool {
	seen[name]++
	return bytes.HasPrefix(w.buf.Bytes(), prefix)
}

// chanLenBusy decides by the length of a channel: a CUT-NO-CHANLEN positive.
func chanLenBusy(waiting chan int) bool { return len(waiting) == 0 }

// chanLenFree only sends and receives: a CUT-NO-CHANLEN negative.
func chanLenFree(waiting chan int) int { waiting <- 1; return <-waiting }
