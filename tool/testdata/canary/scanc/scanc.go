// Package scanc reads lines with a bufio.Scanner twice: once with the default
// token limit (reported by SCAN-LIMIT) and once with the limit raised.
package scanc

import (
	"bufio"
	"io"
	"math"
)

func Lines(r io.Reader) (n int, err error) {
	sc := bufio.NewScanner(r)
	for sc.Scan() {
		n++
	}
	return n, sc.Err()
}

func LongLines(r io.Reader) (n int, err error) {
	sc := bufio.NewScanner(r)
	sc.Buffer(nil, math.MaxInt)
	for sc.Scan() {
		n++
	}
	return n, sc.Err()
}
