package lockc

type item struct{ next int64 }

func (i *item) Next() int64 { return i.next }

// nodes is an extra guarded field of Bad used by the derived-access canary.
type badNodes = map[int]*item

// PeekLate looks the entry up under the lock and dereferences it after the
// unlock: not atomic.
func (b *Bad) PeekLate(k int) int64 {
	b.mu.RLock()
	n, ok := b.nodes[k]
	b.mu.RUnlock()
	if !ok {
		return -1
	}
	return n.next
}

// PeekOK dereferences inside the critical section.
func (b *Bad) PeekOK(k int) int64 {
	b.mu.RLock()
	defer b.mu.RUnlock()
	n, ok := b.nodes[k]
	if !ok {
		return -1
	}
	return n.next
}

// Take hands the entry over (returns it) after removing it: no dereference
// outside the lock.
func (b *Bad) Take(k int) *item {
	b.mu.Lock()
	n := b.nodes[k]
	delete(b.nodes, k)
	b.mu.Unlock()
	return n
}
