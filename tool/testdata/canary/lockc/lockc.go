// Package lockc holds conforming (Good) and violating (Bad) instances of the
// lock-discipline rules. It is analysed, never executed.
package lockc

import "sync"

type Good struct {
	mu    sync.RWMutex
	table map[int]int
	n     int
}

func NewGood() *Good {
	g := Good{table: map[int]int{}}
	g.n = 1
	return &g
}

func (g *Good) Len() int {
	g.mu.RLock()
	defer g.mu.RUnlock()
	return len(g.table)
}

func (g *Good) Set(k, v int) {
	g.mu.Lock()
	g.table[k] = v
	g.n++
	g.mu.Unlock()
}

func (g *Good) Drop(n int) {
	g.mu.Lock()
	g.drop(n)
	g.mu.Unlock()
}

// drop is called with mu held; it must not lock.
func (g *Good) drop(n int) {
	for k := range g.table {
		if n == 0 {
			break
		}
		delete(g.table, k)
		n--
	}
}

func (g *Good) Branchy(k int) int {
	g.mu.RLock()
	if v, ok := g.table[k]; ok {
		g.mu.RUnlock()
		return v
	}
	g.mu.RUnlock()
	return -1
}

type Bad struct {
	mu    sync.RWMutex
	table map[int]int
	n     int
	nodes map[int]*item
}

// Len reads the table without the lock.
func (b *Bad) Len() int { return len(b.table) }

// LockedLen is fine on its own.
func (b *Bad) LockedLen() int {
	b.mu.RLock()
	defer b.mu.RUnlock()
	return len(b.table)
}

// Set writes under a read lock.
func (b *Bad) Set(k, v int) {
	b.mu.RLock()
	b.table[k] = v
	b.mu.RUnlock()
}

// Drop calls a helper that re-acquires the mutex: never returns.
func (b *Bad) Drop(n int) {
	b.mu.Lock()
	b.drop(n)
	b.mu.Unlock()
}

func (b *Bad) drop(n int) {
	for ; n > 0 && b.LockedLen() > 0; n-- {
	}
}

// Leak returns with the mutex held on one path.
func (b *Bad) Leak(k int) int {
	b.mu.Lock()
	if k < 0 {
		return 0
	}
	b.mu.Unlock()
	return k
}

// Early releases before the access.
func (b *Bad) Early() int {
	b.mu.RLock()
	b.mu.RUnlock()
	return b.n
}

// Twice splits one operation over two critical sections.
func (b *Bad) Twice(k int) {
	b.mu.Lock()
	v := b.table[k]
	b.mu.Unlock()
	b.mu.Lock()
	b.table[k] = v + 1
	b.mu.Unlock()
}

// Sum calls locking methods without holding the lock: fine.
func (g *Good) Sum() int { return g.Len() + g.Branchy(1) }
