module canary

go 1.19
