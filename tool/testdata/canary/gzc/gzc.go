// Package gzc: canary for the who-may-call rule on gzip.Reader.Multistream.
package gzc

import (
	"compress/gzip"
	"io"
)

// Good leaves the reader in multistream mode.
func Good(r io.Reader) (*gzip.Reader, error) { return gzip.NewReader(r) }

// Bad switches multistream off: trailing bytes inside the member window are ignored.
func Bad(r io.Reader) (*gzip.Reader, error) {
	z, err := gzip.NewReader(r)
	if err != nil {
		return nil, err
	}
	z.Multistream(false)
	return z, nil
}
