// Package cachec replicates the shape of bgzf.Cache implementations with
// conforming and violating instances. Analysed, never executed.
package cachec

import "sync"

type Block interface {
	Base() int64
	Used() bool
}

type Cache interface {
	Get(base int64) Block
	Put(Block) (evicted Block, retained bool)
	Peek(base int64) (bool, int64)
}

func remove(k int64, table map[int64]Block) { delete(table, k) }

// Fine conforms.
type Fine struct {
	mu    sync.Mutex
	table map[int64]Block
	cap   int
}

func (c *Fine) Get(base int64) Block {
	c.mu.Lock()
	defer c.mu.Unlock()
	b, ok := c.table[base]
	if !ok {
		return nil
	}
	remove(base, c.table)
	return b
}

func (c *Fine) Put(b Block) (Block, bool) {
	c.mu.Lock()
	defer c.mu.Unlock()
	var d Block
	if _, ok := c.table[b.Base()]; ok {
		return b, false
	}
	if len(c.table) == c.cap {
		if !b.Used() {
			return b, false
		}
		for k, v := range c.table {
			delete(c.table, k)
			d = v
			break
		}
	}
	c.table[b.Base()] = b
	return d, true
}

func (c *Fine) Peek(base int64) (bool, int64) { return false, -1 }

// Sticky.Get leaves used blocks in the table.
type Sticky struct {
	table map[int64]Block
	cap   int
}

func (c *Sticky) Get(base int64) Block {
	b, ok := c.table[base]
	if !ok {
		return nil
	}
	if !b.Used() {
		delete(c.table, base)
	}
	return b
}

func (c *Sticky) Put(b Block) (Block, bool) {
	if len(c.table) >= c.cap {
		return b, false
	}
	c.table[b.Base()] = b
	return nil, true
}

func (c *Sticky) Peek(base int64) (bool, int64) { return false, -1 }

// Over.Put tests len > cap: grows to cap+1.
type Over struct {
	table map[int64]Block
	cap   int
}

func (c *Over) Get(base int64) Block {
	b := c.table[base]
	delete(c.table, base)
	return b
}

func (c *Over) Put(b Block) (Block, bool) {
	if len(c.table) > c.cap {
		return b, false
	}
	c.table[b.Base()] = b
	return nil, true
}

func (c *Over) Peek(base int64) (bool, int64) { return false, -1 }

// Greedy.Put evicts for unused blocks too.
type Greedy struct {
	table map[int64]Block
	cap   int
}

func (c *Greedy) Get(base int64) Block {
	b := c.table[base]
	delete(c.table, base)
	return b
}

func (c *Greedy) Put(b Block) (Block, bool) {
	var d Block
	if len(c.table) == c.cap {
		for k, v := range c.table {
			delete(c.table, k)
			d = v
			break
		}
	}
	c.table[b.Base()] = b
	return d, true
}

func (c *Greedy) Peek(base int64) (bool, int64) { return false, -1 }

// Wrap forwards to an inner cache.
type Wrap struct {
	Cache
	n int
}

func (w *Wrap) Get(base int64) Block {
	w.n++
	return w.Cache.Get(base)
}

func (w *Wrap) Put(b Block) (Block, bool) {
	e, r := w.Cache.Put(b)
	return e, r
}
