// Package bufc: canary for the line-buffer ownership rule.
package bufc

import "bufio"

type Lines struct{ r *bufio.Reader }

// Next appends to a slice that aliases bufio's buffer.
func (l *Lines) Next() ([]byte, error) {
	b, err := l.r.ReadSlice('\n')
	if err == bufio.ErrBufferFull {
		var rest []byte
		rest, err = l.r.ReadBytes('\n')
		b = append(b, rest...)
	}
	return b, err
}

// NextOwned returns a fresh copy.
func (l *Lines) NextOwned() ([]byte, error) { return l.r.ReadBytes('\n') }
