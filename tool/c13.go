// C13: record chunks are replayable (structural part).
package main

import (
	"fmt"
	"go/token"
	"go/types"
	"strings"

	"golang.org/x/tools/go/ssa"
)

// ruleVOffset (BIT-VOFFSET): every copy of vOffset computes File<<16 | Block,
// and makeOffset is its inverse for 0 ≤ File < 2^47 – bit domain, all values.
func ruleVOffset(c *Ctx, r *Rep, tier string) {
	rule := "BIT-VOFFSET"
	offT := c.Named("bgzf", "Offset")
	st := offT.Underlying().(*types.Struct)
	if st.NumFields() != 2 || st.Field(0).Name() != "File" || st.Field(1).Name() != "Block" {
		unresolved("bgzf.Offset is not {File, Block}")
	}
	sym := structV{fields: []absVal{symBV(64, true, 0), symBV(16, false, 64)}}
	for _, pkg := range []string{"bam", "bgzf/index", "internal", "csi"} {
		fn := c.FuncOpt(pkg, "vOffset")
		if fn == nil {
			continue
		}
		r.Instance(rule, 1)
		key := pkg + ".vOffset#bits"
		outs, ev, undec := execFn(fn, []absVal{sym}, nil, 0)
		why := ""
		if undec != "" || len(ev) > 0 || len(outs) != 1 {
			why = "cannot interpret: " + undec + fmt.Sprint(ev)
		} else {
			v, ok := outs[0].rets[0].(bv)
			if !ok || len(v.bits) != 64 {
				why = "result is not a 64-bit integer"
			} else {
				for i := 0; i < 64; i++ {
					want := bIn(64 + i) // Block bit i
					if i >= 16 {
						want = bIn(i - 16) // File bit i-16
					}
					if v.bits[i] != want {
						why += fmt.Sprintf(" bit %d is %v, want %v;", i, v.bits[i], want)
						if len(why) > 200 {
							break
						}
					}
				}
			}
		}
		r.Check(why == "", rule, key, c.Pos(fn.Pos()), "File<<16 | Block for all File, Block (bit for bit)", "virtual offset mis-assembled: "+why)
	}
	for _, pkg := range []string{"internal", "csi"} {
		fn := c.FuncOpt(pkg, "makeOffset")
		if fn == nil {
			continue
		}
		r.Instance(rule, 1)
		key := pkg + ".makeOffset#inverse"
		outs, ev, undec := execFn(fn, []absVal{symBV(64, false, 0)}, nil, 0)
		why := ""
		if undec != "" || len(ev) > 0 || len(outs) != 1 {
			why = "cannot interpret: " + undec + fmt.Sprint(ev)
		} else {
			sv, ok := outs[0].rets[0].(structV)
			if !ok || len(sv.fields) != 2 {
				why = "result is not an Offset"
			} else {
				f, _ := sv.fields[0].(bv)
				b, _ := sv.fields[1].(bv)
				if len(f.bits) != 64 || len(b.bits) != 16 {
					why = "field widths"
				} else {
					for i := 0; i < 16; i++ {
						if b.bits[i] != bIn(i) {
							why += fmt.Sprintf(" Block bit %d is %v;", i, b.bits[i])
						}
					}
					for i := 0; i < 64; i++ {
						want := bit(0)
						if i < 48 {
							want = bIn(i + 16)
						}
						if f.bits[i] != want {
							why += fmt.Sprintf(" File bit %d is %v, want %v;", i, f.bits[i], want)
							if len(why) > 200 {
								break
							}
						}
					}
				}
			}
		}
		r.Check(why == "", rule, key, c.Pos(fn.Pos()), "File = v>>16, Block = low 16 bits: inverse of vOffset for File < 2^47", "makeOffset is not the inverse of vOffset: "+why)
	}
}

// ruleChunkLimit (PATH-CHUNKLIMIT): bam.Reader.Read starts a record only after
// the chunk limit test, which compares the end of the last read with the chunk
// end using >=.
func ruleChunkLimit(c *Ctx, r *Rep, tier string) {
	rule := "PATH-CHUNKLIMIT"
	fn := c.Func("bam", "(*Reader).Read")
	nb := c.Func("bam", "newBuffer")
	voff := c.Func("bam", "vOffset")
	fC := c.Field("bam", "Reader", "c")
	r.Instance(rule, 1)
	var nbCall ssa.Instruction
	allInstrs(fn, func(ins ssa.Instruction) {
		if call, ok := ins.(*ssa.Call); ok && staticCallee(&call.Call) == nb {
			nbCall = ins
		}
	})
	if nbCall == nil {
		r.Fail(rule, "bam.(*Reader).Read#limit", c.Pos(fn.Pos()), "newBuffer call not found: undecided")
		return
	}
	why := ""
	// the limit comparison
	var limitIf *ssa.BasicBlock
	passEdge := -1
	// X: LastChunk().End of the bgzf reader; Y: br.c.End
	isChunkEnd := func(v ssa.Value) bool {
		// load of (&(*br.c).End)
		u, ok := v.(*ssa.UnOp)
		if !ok {
			return false
		}
		fa, ok := u.X.(*ssa.FieldAddr)
		if !ok || fieldVarOfAddr(fa).Name() != "End" {
			return false
		}
		f, _ := loadedField(fa.X)
		return f == fC
	}
	for _, b := range fn.Blocks {
		i := ifOf(b)
		if i == nil {
			continue
		}
		bo, ok := i.Cond.(*ssa.BinOp)
		if !ok {
			continue
		}
		cx, okx := bo.X.(*ssa.Call)
		cy, oky := bo.Y.(*ssa.Call)
		if !okx || !oky || staticCallee(&cx.Call) != voff || staticCallee(&cy.Call) != voff {
			continue
		}
		switch {
		case bo.Op == token.GEQ && isChunkEnd(cy.Call.Args[0]):
			limitIf, passEdge = b, 1
		case bo.Op == token.LSS && isChunkEnd(cy.Call.Args[0]):
			limitIf, passEdge = b, 0
		case bo.Op == token.LEQ && isChunkEnd(cx.Call.Args[0]):
			limitIf, passEdge = b, 1
		case bo.Op == token.GTR && isChunkEnd(cx.Call.Args[0]):
			limitIf, passEdge = b, 0
		default:
			if isChunkEnd(cy.Call.Args[0]) || isChunkEnd(cx.Call.Args[0]) {
				why += fmt.Sprintf(" the chunk limit is tested with %s: a record that starts exactly at the chunk end is read (or the last record of the chunk is not);", bo.Op)
				limitIf, passEdge = b, 1
			}
		}
	}
	if limitIf == nil {
		why += " no comparison of the last read's end with the chunk end found;"
	} else {
		// the other operand is where the BGZF reader is *now*: the End of its
		// LastChunk() (which Seek also sets), not a position the BAM reader
		// cached after its last record – unless SetChunk refreshes that cache
		bo := ifOf(limitIf).Cond.(*ssa.BinOp)
		posArg := bo.X.(*ssa.Call).Call.Args[0]
		if isChunkEnd(posArg) {
			posArg = bo.Y.(*ssa.Call).Call.Args[0]
		}
		fresh := false
		var src ssa.Value
		switch x := posArg.(type) {
		case *ssa.Field:
			src = x.X
		case *ssa.UnOp:
			if fa, ok := x.X.(*ssa.FieldAddr); ok {
				if al, ok := fa.X.(*ssa.Alloc); ok {
					src = singleStore(al)
				}
			}
		}
		if call, ok := src.(*ssa.Call); ok {
			if g := staticCallee(&call.Call); g != nil && g.Name() == "LastChunk" && g.Pkg != nil && strings.HasSuffix(g.Pkg.Pkg.Path(), "/bgzf") {
				fresh = true
			}
		}
		if !fresh && strings.Contains(symKey(posArg), "lastChunk") {
			for _, e := range effectsOf(c.Func("bam", "(*Reader).SetChunk")) {
				if e.Kind == "store" && strings.Contains(e.Addr, "lastChunk") {
					fresh = true
				}
			}
		}
		if !fresh {
			why += " the chunk end is compared with " + symKey(posArg) + ", not with the BGZF reader's current position (LastChunk().End): after SetChunk has moved the reader the test still sees where the previous record ended, and a chunk that lies before that point yields no records;"
		}
		// newBuffer reachable only over the pass edge or the c == nil edge
		edgeOK := func(from, to *ssa.BasicBlock) bool {
			if from == limitIf && from.Succs[passEdge] == to && from.Succs[1-passEdge] != to {
				return false
			}
			i := ifOf(from)
			if i == nil {
				return true
			}
			if bo, ok := i.Cond.(*ssa.BinOp); ok && isNilConst(bo.Y) {
				if f, _ := loadedField(bo.X); f == fC {
					k := 1 // c == nil edge
					if bo.Op == token.EQL {
						k = 0
					}
					return !(from.Succs[k] == to && from.Succs[1-k] != to)
				}
			}
			return true
		}
		if _, reach := pathTo(entryLoc(fn), func(x ssa.Instruction) bool { return x == nbCall }, nil, edgeOK); reach {
			why += " a record read can start without the chunk limit having been tested (with a chunk set);"
		}
		// the stop edge returns io.EOF
		stop := limitIf.Succs[1-passEdge]
		if ret, ok := stop.Instrs[len(stop.Instrs)-1].(*ssa.Return); !ok || !isGlobalLoad(retValue(ret, 1), "io", "EOF") {
			why += " reaching the chunk end does not return io.EOF;"
		}
	}
	r.Check(why == "", rule, "bam.(*Reader).Read#limit", c.Pos(fn.Pos()), "with a chunk set, vOffset(lastEnd) >= vOffset(chunk.End) ⇒ io.EOF before any record read", why)
}

// ruleTx (PATH-TX): newBuffer takes the transaction begin after the first read
// and sets lastChunk from the transaction on every exit.
func ruleTx(c *Ctx, r *Rep, tier string) {
	rule := "PATH-TX"
	fn := c.Func("bam", "newBuffer")
	fLC := c.Field("bam", "Reader", "lastChunk")
	r.Instance(rule, 1)
	var firstRead, begin ssa.Instruction
	var deferEnd *ssa.Defer
	allInstrs(fn, func(ins ssa.Instruction) {
		switch x := ins.(type) {
		case *ssa.Call:
			switch calleeFullName(&x.Call) {
			case "io.ReadFull":
				if firstRead == nil || x.Pos() < firstRead.Pos() {
					firstRead = ins
				}
			case "(*" + repoMod + "/bgzf.Reader).Begin":
				begin = ins
			}
		case *ssa.Defer:
			if g := staticCallee(&x.Call); g != nil {
				sets := false
				allInstrs(g, func(y ssa.Instruction) {
					if st, ok := y.(*ssa.Store); ok {
						if fa, isFa := st.Addr.(*ssa.FieldAddr); isFa && fieldVarOfAddr(fa) == fLC {
							if call, isCall := st.Val.(*ssa.Call); isCall && calleeFullName(&call.Call) == "(*"+repoMod+"/bgzf.Tx).End" {
								sets = true
							}
						}
					}
				})
				if sets {
					deferEnd = x
				}
			}
		}
	})
	why := ""
	if firstRead == nil || begin == nil {
		why += " first read / Begin() not found;"
	} else if !instrDominates(firstRead, begin) {
		why += " Begin() is taken before the first read of the record: the chunk would start at the end of the previous record's last block;"
	}
	if deferEnd == nil {
		why += " lastChunk is not set from tx.End() by a deferred function;"
	} else {
		if begin != nil && !instrDominates(begin, deferEnd) {
			why += " the deferred update is registered before Begin();"
		}
		if bad, ok := mustPass(entryLoc(fn), isReturn, func(x ssa.Instruction) bool { return x == ssa.Instruction(deferEnd) }, nil); !ok {
			why += fmt.Sprintf(" the return at %s does not update lastChunk;", c.Pos(bad.Pos()))
		}
	}
	r.Check(why == "", rule, "bam.newBuffer#tx", c.Pos(fn.Pos()), "first read; tx := Begin(); defer lastChunk = tx.End() – on every exit", why)
}

// ruleIterCoupled (COUPLED-ITER): Iterator.Next / NewIterator consume exactly the
// head chunk per SetChunk: chunks = chunks[1:] only right after SetChunk(&chunks[0]).
func ruleIterCoupled(c *Ctx, r *Rep, tier string) {
	rule := "COUPLED-ITER"
	fChunks := c.Field("bam", "Iterator", "chunks")
	setChunk := c.Func("bam", "(*Reader).SetChunk")
	for _, name := range []string{"(*Iterator).Next", "NewIterator"} {
		fn := c.Func("bam", name)
		r.Instance(rule, 1)
		why := ""
		isSet := func(ins ssa.Instruction) bool {
			call, ok := ins.(*ssa.Call)
			if !ok || staticCallee(&call.Call) != setChunk {
				return false
			}
			// argument &chunks[0]
			ia, ok := call.Call.Args[1].(*ssa.IndexAddr)
			if !ok {
				return false
			}
			k, isK := constInt(ia.Index)
			return isK && k == 0
		}
		nset := 0
		allInstrs(fn, func(ins ssa.Instruction) {
			if isSet(ins) {
				nset++
			}
		})
		if nset == 0 {
			why += " no SetChunk(&chunks[0]) call;"
		}
		// every shrink of the pending list drops exactly the head and follows a SetChunk with no other shrink in between
		var shrinks []ssa.Instruction
		allInstrs(fn, func(ins ssa.Instruction) {
			sl, ok := ins.(*ssa.Slice)
			if !ok {
				return
			}
			isPending := false
			if f, _ := loadedField(sl.X); f == fChunks {
				isPending = true
			}
			if p := paramIndex(fn, sl.X); p >= 0 && name == "NewIterator" {
				isPending = true
			}
			if !isPending {
				return
			}
			k, isK := constInt(sl.Low)
			if sl.Low == nil || !isK || k != 1 || sl.High != nil {
				why += fmt.Sprintf(" the pending chunk list is re-sliced other than chunks[1:] at %s;", c.Pos(ins.Pos()))
			}
			shrinks = append(shrinks, ins)
		})
		for _, sh := range shrinks {
			isOther := func(x ssa.Instruction) bool {
				for _, s2 := range shrinks {
					if s2 == x {
						return true
					}
				}
				return false
			}
			// from this shrink, the next shrink is reachable only through a SetChunk
			if bad, reach := pathTo(locOf(sh), isOther, isSet, nil); reach {
				why += fmt.Sprintf(" chunks are dropped twice (%s then %s) without a SetChunk in between: pending chunks are skipped and their records lost;", c.Pos(sh.Pos()), c.Pos(bad.Pos()))
			}
			if _, ok := mustPass(entryLoc(fn), func(x ssa.Instruction) bool { return x == sh }, isSet, nil); !ok {
				why += fmt.Sprintf(" the head chunk is dropped at %s without having been made current (SetChunk);", c.Pos(sh.Pos()))
			}
		}
		r.Check(why == "", rule, "bam."+name+"#chunks", c.Pos(fn.Pos()), "SetChunk(&chunks[0]) then chunks = chunks[1:], one chunk at a time", why)
	}
	// Close resets the reader's chunk
	fn := c.Func("bam", "(*Iterator).Close")
	r.Instance(rule, 1)
	ok := false
	allInstrs(fn, func(ins ssa.Instruction) {
		if call, isCall := ins.(*ssa.Call); isCall && staticCallee(&call.Call) == setChunk && isNilConst(call.Call.Args[1]) {
			ok = true
		}
	})
	r.Check(ok, rule, "bam.(*Iterator).Close#reset", c.Pos(fn.Pos()), "Close clears the chunk limit", "Iterator.Close leaves the reader restricted to the last chunk")
}

// rulePairBlocked (PAIR-BLOCKED): NewChunkReader sets Blocked before the first
// Seek and Close restores the saved value.
func rulePairBlocked(c *Ctx, r *Rep, tier string) {
	rule := "PAIR-BLOCKED"
	fBlocked := c.Field("bgzf", "Reader", "Blocked")
	fWas := c.Field("bgzf/index", "ChunkReader", "wasBlocked")
	nr := c.Func("bgzf/index", "NewChunkReader")
	cl := c.Func("bgzf/index", "(*ChunkReader).Close")
	r.Instance(rule, 1)
	why := ""
	var setTrue, seek ssa.Instruction
	var saved ssa.Value
	allInstrs(nr, func(ins ssa.Instruction) {
		switch x := ins.(type) {
		case *ssa.Store:
			if fa, ok := x.Addr.(*ssa.FieldAddr); ok && fieldVarOfAddr(fa) == fBlocked {
				if k, isK := x.Val.(*ssa.Const); isK && k.Value != nil && k.Value.String() == "true" {
					setTrue = ins
				}
			}
		case *ssa.UnOp:
			if f, _ := loadedField(x); f == fBlocked && saved == nil {
				saved = x
			}
		case *ssa.Call:
			if calleeFullName(&x.Call) == "(*"+repoMod+"/bgzf.Reader).Seek" {
				seek = ins
			}
		}
	})
	if setTrue == nil {
		why += " NewChunkReader does not put the reader into Blocked mode;"
	} else if seek != nil && !instrDominates(setTrue, seek) {
		why += " the first Seek happens before Blocked is set;"
	}
	if saved == nil || (setTrue != nil && !instrDominates(saved.(ssa.Instruction), setTrue)) {
		why += " the previous Blocked value is not saved before it is overwritten;"
	}
	restored := false
	allInstrs(cl, func(ins ssa.Instruction) {
		if st, ok := ins.(*ssa.Store); ok {
			if fa, isFa := st.Addr.(*ssa.FieldAddr); isFa && fieldVarOfAddr(fa) == fBlocked {
				if f, _ := loadedField(st.Val); f == fWas {
					restored = true
				}
			}
		}
	})
	if !restored {
		why += " Close does not restore the saved Blocked value;"
	}
	r.Check(why == "", rule, "bgzf/index.NewChunkReader#blocked", c.Pos(nr.Pos()), "save Blocked; Blocked = true before the first Seek; Close restores", why)
}

func init() {
	register(&PropDef{
		ID: "C13", Title: "Record chunks are replayable: chunk-bounded reads return exactly that span", Level: "other",
		Rules: []RuleDef{
			{Name: "PATH-CHUNKLIMIT", What: "bam.Reader.Read tests vOffset(last end) >= vOffset(chunk end) before every record read when a chunk is set, and answers io.EOF", Floor: 1, Run: ruleChunkLimit},
			{Name: "TX-END", What: "(*Tx).End reports {the Begin noted at the start, Reader.lastChunk.End} unmodified: the replay side compares the raw LastChunk().End with the chunk's End, so a recorded End in another spelling of the same position ((next,0) for (base,65280)) yields one record more (added after sixteenth-round seed C13-q)", Floor: 1, Run: ruleTxEnd},
			{Name: "PATH-TX", What: "newBuffer: Begin() after the first read of the record; lastChunk = tx.End() deferred on every exit", Floor: 1, Run: ruleTx},
			{Name: "COUPLED-ITER", What: "Iterator: SetChunk(&chunks[0]) and chunks = chunks[1:] strictly alternate; Close clears the limit", Floor: 3, Run: ruleIterCoupled},
			{Name: "PAIR-BLOCKED", What: "ChunkReader saves/sets/restores the reader's Blocked mode around its life", Floor: 1, Run: rulePairBlocked},
			{Name: "CACHE-REWIND", What: "a block served from the cache is rewound to its start on every path (a block positioned by an abandoned Seek is cached mid-block; added after sixth-round seed C13-g)", Floor: 1, Run: ruleCacheRewind},
			{Name: "CHUNK-CLAMP", What: "ChunkReader.Read subtracts the reader's in-block position from the clamp exactly when the reader is in the chunk's end block (added after a blind second seed round)", Floor: 2, Run: ruleChunkClamp},
			{Name: "CHUNK-ADVANCE", What: "index.ChunkReader.Read returns io.EOF of its own only where it has found the list of chunks empty: a chunk that is exhausted on entry (an empty one) makes it go on to the next, not end (added for a defect of the unchanged tree, repaired in the eighth batch)", Floor: 2, Run: ruleChunkAdvance},
			{Name: "CHUNK-PROGRESS", What: "ChunkReader.Read gives a chunk up after a read because of where the reader is, never because of how many bytes came back (a zero-byte read steps over a block end; added after tenth-round seed C13-k)", Floor: 1, Run: ruleChunkProgress},
			{Name: "ITER-ERR", What: "bam.Iterator's error is assigned by Next only: what stopped the replay of a chunk list is what Close and Error report (shared with C10)", Floor: 2, Run: ruleIterErr},
			{Name: "PATH-SEEK", What: "bgzf Reader.Seek sets lastChunk = {off,off} after every successful in-block seek, also on a shortcut for the block already held: SetChunk and ChunkReader compare LastChunk().End with the chunk's end (shared with C02; under C13 since eighth-round seed C13-i)", Floor: 1, Run: rulePathSeek},
			{Name: "SETCHUNK-SEEKS", What: "bam.Reader.SetChunk always seeks to the chunk's Begin before installing it (added after a blind second seed round)", Floor: 1, Run: ruleSetChunkSeeks},
			{Name: "BIT-VOFFSET", What: "all vOffset copies compute File<<16|Block and makeOffset is the inverse (bit domain, all values)", Floor: 6, Run: ruleVOffset},
			{Name: "PATH-LASTCHUNK", What: "bgzf Read/ReadByte refresh lastChunk around every consume; no success return without it (a zero-length Read still steps over exhausted blocks, which ChunkReader relies on)", Floor: 2, Run: ruleLastChunk},
		},
		Explanation: "The mechanisms the replay guarantee rests on, each decided on every path: the per-record transaction (PATH-TX) that makes LastChunk span exactly one record, the limit test that dominates every record read (PATH-CHUNKLIMIT, comparison operator included), the iterator's one-chunk-at-a-time hand-over (COUPLED-ITER), the Blocked-mode pairing of ChunkReader (PAIR-BLOCKED), the virtual-offset packing all comparisons use (BIT-VOFFSET, proved for all values in the bit domain), and the bgzf reader's lastChunk bookkeeping (PATH-LASTCHUNK); ChunkReader moves on past an exhausted chunk (CHUNK-ADVANCE) and gives a chunk up after a read only because of where the reader is (CHUNK-PROGRESS).",
		NotDecided:  "off-by-one behaviour at block ends (End (base,len) versus next Begin (next,0)), ChunkReader's clamp arithmetic – value-level. The claim is thin and says so.",
	})
}
