// Engine E2: goroutine / channel / WaitGroup protocol rules.
package main

import (
	"fmt"
	"go/constant"
	"go/token"
	"go/types"
	"sort"
	"strings"

	"golang.org/x/tools/go/ssa"
)

// protoNames maps struct fields (channels, wait groups) to logical names.
type protoNames struct {
	chans map[*types.Var]string
	wgs   map[*types.Var]string
	// extra classifies further primitive instructions (calls).
	extra func(ins ssa.Instruction) (string, bool)
	// sendName may rename a send on channel n (e.g. token creation).
	sendName func(s *ssa.Send, n string) string
}

func (pn *protoNames) chanName(v ssa.Value) string {
	f, _ := loadedField(v)
	if f == nil {
		return ""
	}
	return pn.chans[f]
}

func (pn *protoNames) effect(ins ssa.Instruction) (string, bool) {
	switch x := ins.(type) {
	case *ssa.Send:
		if n := pn.chanName(x.Chan); n != "" {
			if pn.sendName != nil {
				if s := pn.sendName(x, n); s != "" {
					return s, true
				}
			}
			return "send:" + n, true
		}
	case *ssa.UnOp:
		if x.Op == token.ARROW {
			if n := pn.chanName(x.X); n != "" {
				return "recv:" + n, true
			}
		}
	case *ssa.Call, *ssa.Defer, *ssa.Go:
		cc := callCommon(ins)
		if c2, ok := isBuiltinCall(ins, "close"); ok {
			if n := pn.chanName(c2.Args[0]); n != "" {
				return "close:" + n, true
			}
		}
		switch full := calleeFullName(cc); full {
		case "(*sync.WaitGroup).Add", "(*sync.WaitGroup).Done", "(*sync.WaitGroup).Wait":
			if f, _ := addrField(cc.Args[0]); f != nil {
				if n := pn.wgs[f]; n != "" {
					return n + "." + full[len("(*sync.WaitGroup)."):], true
				}
			}
		}
		if pn.extra != nil {
			if n, ok := pn.extra(ins); ok {
				return n, true
			}
		}
	}
	return "", false
}

// selectEdge classifies the edge taken for case k of a select as the
// communication it performs.
// condEdge: a branch on a value that is, on this path, the comma-ok result of
// a receive: open / closed edge of that channel.
func (pn *protoNames) condEdge(v ssa.Value, truth bool) (string, bool) {
	e, ok := v.(*ssa.Extract)
	if !ok {
		return "", false
	}
	n := ""
	if u, ok := e.Tuple.(*ssa.UnOp); ok && u.Op == token.ARROW && u.CommaOk && e.Index == 1 {
		n = pn.chanName(u.X)
	}
	if sel, ok := e.Tuple.(*ssa.Select); ok && e.Index == 1 {
		for _, stt := range sel.States {
			if stt.Dir == types.RecvOnly {
				if cn := pn.chanName(stt.Chan); cn != "" && (n == "" || n == cn) {
					n = cn
				} else {
					n = "select"
				}
			}
		}
	}
	if n == "" {
		return "", false
	}
	if truth {
		return "open:" + n, true
	}
	return "closed:" + n, true
}

func (pn *protoNames) edge(from *ssa.BasicBlock, succ int) (string, bool) {
	i := ifOf(from)
	if i == nil {
		return "", false
	}
	// closed / open edge of a comma-ok receive
	if e, ok := i.Cond.(*ssa.Extract); ok && e.Index == 1 {
		if u, ok := e.Tuple.(*ssa.UnOp); ok && u.Op == token.ARROW && u.CommaOk {
			if n := pn.chanName(u.X); n != "" {
				if succ == 1 {
					return "closed:" + n, true
				}
				return "open:" + n, true
			}
		}
		if sel, ok := e.Tuple.(*ssa.Select); ok {
			// recvOk of a select: name it after the receive states' channel
			n := ""
			for _, stt := range sel.States {
				if stt.Dir == types.RecvOnly {
					if cn := pn.chanName(stt.Chan); cn != "" && (n == "" || n == cn) {
						n = cn
					} else {
						n = "select"
					}
				}
			}
			if n != "" {
				if succ == 1 {
					return "closed:" + n, true
				}
				return "open:" + n, true
			}
		}
	}
	if succ != 0 {
		return "", false
	}
	bo, ok := i.Cond.(*ssa.BinOp)
	if !ok || bo.Op != token.EQL {
		return "", false
	}
	e, ok := bo.X.(*ssa.Extract)
	if !ok || e.Index != 0 {
		return "", false
	}
	sel, ok := e.Tuple.(*ssa.Select)
	if !ok {
		return "", false
	}
	k, ok := constInt(bo.Y)
	if !ok || int(k) >= len(sel.States) {
		return "", false
	}
	stt := sel.States[k]
	n := pn.chanName(stt.Chan)
	if n == "" {
		return "", false
	}
	if stt.Dir == types.SendOnly {
		return "send:" + n, true
	}
	return "recv:" + n, true
}

// ---- Writer ------------------------------------------------------------------------

type writerCfg struct {
	pkg, writer, comp                         string
	queue, waiting, qwg, wg, closed, err, out string // fields of writer
	flush, compWaiting, compQwg, compErr      string // fields of compressor
	writeBlock                                string // method of compressor
	latch                                     string // method of writer that latches an error
	errorGetter                               string // method of writer returning the latch
	api                                       []string
	closeMeth                                 string
	magic                                     string // constant holding the EOF marker
}

var htsWriterCfg = writerCfg{pkg: "bgzf", writer: "Writer", comp: "compressor",
	queue: "queue", waiting: "waiting", qwg: "qwg", wg: "wg", closed: "closed", err: "err", out: "w",
	flush: "flush", compWaiting: "waiting", compQwg: "qwg", compErr: "err",
	writeBlock: "writeBlock", latch: "setErr", errorGetter: "Error",
	api: []string{"Write", "Flush", "Wait", "Close", "Next"}, closeMeth: "Close", magic: "magicBlock"}

type writerModel struct {
	c       *Ctx
	cfg     writerCfg
	names   *protoNames
	fns     []*ssa.Function
	fOut    *types.Var
	fErr    *types.Var
	fCErr   *types.Var
	fCls    *types.Var
	wb      *ssa.Function
	latch   *ssa.Function
	getter  *ssa.Function
	emitter *ssa.Function // the literal that receives from queue
	recvQ   *ssa.UnOp
}

func newWriterModel(c *Ctx, cfg writerCfg) *writerModel {
	m := &writerModel{c: c, cfg: cfg}
	fq := c.Field(cfg.pkg, cfg.writer, cfg.queue)
	fw := c.Field(cfg.pkg, cfg.writer, cfg.waiting)
	pn := &protoNames{chans: map[*types.Var]string{fq: "queue", fw: "waiting", c.Field(cfg.pkg, cfg.comp, cfg.flush): "flush"},
		wgs: map[*types.Var]string{c.Field(cfg.pkg, cfg.writer, cfg.qwg): "qwg", c.Field(cfg.pkg, cfg.writer, cfg.wg): "wg"}}
	if cfg.compWaiting != "" {
		pn.chans[c.Field(cfg.pkg, cfg.comp, cfg.compWaiting)] = "waiting"
	}
	if cfg.compQwg != "" {
		pn.wgs[c.Field(cfg.pkg, cfg.comp, cfg.compQwg)] = "qwg"
	}
	m.fOut = c.Field(cfg.pkg, cfg.writer, cfg.out)
	m.fErr = c.Field(cfg.pkg, cfg.writer, cfg.err)
	m.fCErr = c.Field(cfg.pkg, cfg.comp, cfg.compErr)
	m.fCls = c.Field(cfg.pkg, cfg.writer, cfg.closed)
	m.wb = c.Func(cfg.pkg, "(*"+cfg.comp+")."+cfg.writeBlock)
	m.latch = c.Func(cfg.pkg, "(*"+cfg.writer+")."+cfg.latch)
	m.getter = c.Func(cfg.pkg, "(*"+cfg.writer+")."+cfg.errorGetter)
	pn.extra = func(ins ssa.Instruction) (string, bool) {
		cc := callCommon(ins)
		if g := staticCallee(cc); g != nil {
			switch g {
			case m.wb:
				return "invoke:writeBlock", true
			case m.latch:
				return "latch", true
			}
		}
		if m.isUnderlyingWrite(ins) {
			return "write:out", true
		}
		return "", false
	}
	m.names = pn
	m.fns = c.FuncsIn(cfg.pkg)
	// the emitter: the function holding the (only) receive on queue
	var recvs []*ssa.UnOp
	for _, f := range m.fns {
		allInstrs(f, func(ins ssa.Instruction) {
			if u, ok := ins.(*ssa.UnOp); ok && u.Op == token.ARROW && pn.chanName(u.X) == "queue" {
				recvs = append(recvs, u)
			}
		})
	}
	if len(recvs) == 1 {
		m.recvQ = recvs[0]
		m.emitter = recvs[0].Parent()
	}
	return m
}

// isUnderlyingWrite: a call that hands bytes to the io.Writer the Writer wraps:
// an invoke on the value of field `out`, or io.Copy / io.WriteString / fmt.Fprint…
// with it as destination.
func (m *writerModel) isUnderlyingWrite(ins ssa.Instruction) bool {
	cc := callCommon(ins)
	if cc == nil {
		return false
	}
	isOut := func(v ssa.Value) bool {
		f, _ := loadedField(v)
		return f != nil && f == m.fOut
	}
	if cc.IsInvoke() {
		return isOut(cc.Value)
	}
	for _, a := range cc.Args {
		if isOut(a) {
			return true
		}
	}
	return false
}

func (m *writerModel) walker() *Walker {
	w := NewWalker(m.c)
	w.Effect = m.names.effect
	w.Edge = m.names.edge
	w.CondEdge = m.names.condEdge
	return w
}

func (m *writerModel) findAll(name string) []ssa.Instruction {
	var out []ssa.Instruction
	for _, f := range m.fns {
		allInstrs(f, func(ins ssa.Instruction) {
			if n, ok := m.names.effect(ins); ok && n == name {
				out = append(out, ins)
			}
		})
	}
	return out
}

func (m *writerModel) isEff(name string) func(ssa.Instruction) bool {
	return func(ins ssa.Instruction) bool {
		n, ok := m.names.effect(ins)
		return ok && n == name
	}
}

// W1: every send of a compressor on queue is followed, on every path to the
// function's return, by qwg.Add and by an invocation (call or go) of
// writeBlock on the same compressor, Add first.
func (m *writerModel) ruleW1(r *Rep, rule string) {
	c := m.c
	for _, s := range m.findAll("send:queue") {
		send := s.(*ssa.Send)
		fn := send.Parent()
		r.Instance(rule, 1)
		key := c.FnName(fn) + "#send-queue"
		val := origin(send.X)
		isAdd := m.isEff("qwg.Add")
		isInv := func(ins ssa.Instruction) bool {
			if !m.isEff("invoke:writeBlock")(ins) {
				return false
			}
			if _, isDefer := ins.(*ssa.Defer); isDefer {
				return false
			}
			return origin(callCommon(ins).Args[0]) == val
		}
		why := ""
		if bad, ok := mustPass(locOf(send), isReturn, isAdd, nil); !ok {
			why += fmt.Sprintf(" a path from the send reaches the return at %s without qwg.Add: Wait would not wait for this block;", c.Pos(bad.Pos()))
		}
		if bad, ok := mustPass(locOf(send), isReturn, isInv, nil); !ok {
			why += fmt.Sprintf(" a path from the send reaches the return at %s without starting writeBlock on the queued compressor: the emitter waits on its flush channel for ever;", c.Pos(bad.Pos()))
		}
		if bad, ok := mustPass(locOf(send), isInv, isAdd, nil); !ok {
			why += fmt.Sprintf(" writeBlock is started at %s before qwg.Add: the emitter's Done can precede the Add;", c.Pos(bad.Pos()))
		}
		// exactly once each before the next send/return
		w := m.walker()
		w.Stop = m.isEff("send:queue")
		for _, e := range w.Walk(fn, locOf(send)) {
			if e.Counts["qwg.Add"] != 1 {
				why += fmt.Sprintf(" a path (%s) performs qwg.Add %d times for one queued block;", traceStr(e.Trace), e.Counts["qwg.Add"])
				break
			}
		}
		r.Check(why == "", rule, key, c.Pos(send.Pos()), "send; qwg.Add(1); writeBlock on the same compressor – on every path", "queue submission protocol broken:"+why)
	}
}

// W2/W3: the emitter.
func (m *writerModel) ruleEmitter(r *Rep, ruleW2, ruleW3 string) {
	c := m.c
	if m.emitter == nil {
		r.Fail(ruleW2, "emitter#unique-receive", "-", "there is not exactly one receive site on the writer's queue: cannot identify the emitting goroutine (undecided)")
		return
	}
	fn := m.emitter
	r.Instance(ruleW2, 1)
	r.Instance(ruleW3, 1)
	key := c.FnName(fn)
	// region: from the receive on queue (open edge) to the next receive or return
	w := m.walker()
	w.Stop = func(ins ssa.Instruction) bool { return ins == m.recvQ }
	ends := w.Walk(fn, locOf(m.recvQ))
	if w.overflow {
		r.Fail(ruleW2, key+"#consume", c.Pos(fn.Pos()), "path budget exhausted: undecided")
		return
	}
	why := map[string]bool{}
	nOpen := 0
	for _, e := range ends {
		if e.Counts["open:queue"] == 0 {
			continue // the closed edge: nothing was received
		}
		nOpen++
		for _, eff := range []string{"send:waiting", "qwg.Done", "recv:flush"} {
			if e.Counts[eff] != 1 {
				why[fmt.Sprintf("a path after receiving a queued compressor performs %s %d times, want exactly once (%s)", eff, e.Counts[eff], traceStr(e.Trace))] = true
			}
		}
	}
	if nOpen == 0 {
		why["no path over the open edge of the receive found"] = true
	}
	// Done / release of compressors happen nowhere but in the emitting goroutine
	reach := map[*ssa.Function]bool{}
	var visit func(f *ssa.Function)
	visit = func(f *ssa.Function) {
		if f == nil || reach[f] || f.Blocks == nil {
			return
		}
		reach[f] = true
		allInstrs(f, func(ins ssa.Instruction) {
			if cc := callCommon(ins); cc != nil {
				if _, isGo := ins.(*ssa.Go); !isGo {
					visit(staticCallee(cc))
				}
			}
		})
	}
	visit(fn)
	for _, d := range m.findAll("qwg.Done") {
		if !reach[d.Parent()] {
			why[fmt.Sprintf("qwg.Done is also called at %s, outside the emitting goroutine: a block is counted as written when it was not (or twice)", c.Pos(d.Pos()))] = true
		}
	}
	r.Check(len(why) == 0, ruleW2, key+"#consume", c.Pos(m.recvQ.Pos()),
		"for each compressor received from queue: one receive on its flush, one waiting<-c, one qwg.Done on every path", joinSet(why))

	// W3: returns only over the closed edge of a receive on queue
	closedEdge := func(from, to *ssa.BasicBlock) bool {
		for k, s := range from.Succs {
			if s == to {
				if n, ok := m.names.edge(from, k); ok && n == "closed:queue" {
					// blocked unless the same block is also reached by another successor index
					other := false
					for k2, s2 := range from.Succs {
						if k2 != k && s2 == to {
							other = true
						}
					}
					if !other {
						return false
					}
				}
			}
		}
		return true
	}
	if bad, reach := pathTo(entryLoc(fn), isReturn, nil, closedEdge); reach {
		r.Fail(ruleW3, key+"#drain", c.Pos(bad.Pos()), "the emitting goroutine can return without having seen the queue closed (break/return inside the loop): compressors queued afterwards are never written, their qwg.Done never happens and Close/Wait/Write block for ever")
	} else {
		r.Pass(ruleW3, key+"#drain", c.Pos(fn.Pos()), "every return of the emitter is reached only over the closed edge of the receive on queue")
	}
}

func joinSet(m map[string]bool) string {
	var s []string
	for k := range m {
		s = append(s, k)
	}
	sort.Strings(s)
	return strings.Join(s, "; ")
}

// W4: single emitter, sole writer.
func (m *writerModel) ruleW4(r *Rep, rule string) {
	c := m.c
	r.Instance(rule, 1)
	if m.emitter == nil {
		r.Fail(rule, "emitter#single", "-", "not exactly one receive site on queue")
		return
	}
	// started by exactly one go statement, not in a loop
	var gos []ssa.Instruction
	for _, f := range m.fns {
		allInstrs(f, func(ins ssa.Instruction) {
			if g, ok := ins.(*ssa.Go); ok && staticCallee(&g.Call) == m.emitter {
				gos = append(gos, ins)
			}
		})
	}
	why := ""
	if len(gos) != 1 {
		why += fmt.Sprintf(" the emitter is started by %d go statements, want 1;", len(gos))
	} else {
		if _, again := pathTo(locOf(gos[0]), func(x ssa.Instruction) bool { return x == gos[0] }, nil, nil); again {
			why += " the go statement starting the emitter is inside a loop: several emitters would interleave blocks;"
		}
		if m.emitter.Parent() == nil {
			why += " emitter is not a literal;"
		}
	}
	r.Check(why == "", rule, "emitter#single", c.Pos(m.emitter.Pos()), "one receive site on queue, in a literal started by one go statement outside any loop", why)

	// sole writer: underlying writes only in code reachable from the emitter, or in Close after wg.Wait
	reach := map[*ssa.Function]bool{}
	var visit func(f *ssa.Function)
	visit = func(f *ssa.Function) {
		if f == nil || reach[f] || f.Blocks == nil {
			return
		}
		reach[f] = true
		allInstrs(f, func(ins ssa.Instruction) {
			if cc := callCommon(ins); cc != nil {
				if _, isGo := ins.(*ssa.Go); !isGo {
					visit(staticCallee(cc))
				}
			}
		})
	}
	visit(m.emitter)
	closeFn := c.Func(m.cfg.pkg, "(*"+m.cfg.writer+")."+m.cfg.closeMeth)
	for _, wr := range m.findAll("write:out") {
		fn := wr.Parent()
		r.Instance(rule, 1)
		key := c.FnName(fn) + "#write-underlying"
		// one member = one Write on the underlying writer: a direct Write, or
		// io.Copy / WriteTo from a *bytes.Buffer (which hands its whole content
		// over in one call). io.CopyN, io.CopyBuffer, a bufio layer … go through a
		// copy loop and deliver a large member in pieces, so that between two of
		// the underlying Writes the file ends in a partial block.
		if how := wholeTransfer(wr); how != "" {
			r.Instance(rule, 1)
			r.Fail(rule, key+":whole", c.Pos(wr.Pos()), how)
		}
		switch {
		case reach[fn] && m.otherCaller(fn, reach) != nil:
			oc := m.otherCaller(fn, reach)
			r.Fail(rule, key, c.Pos(wr.Pos()), "the function that writes to the underlying writer is run by the emitting goroutine and is also called from "+c.FnName(oc)+", outside it: a block written from there overtakes the blocks still in the queue, and two goroutines write the destination (added after sixteenth-round seed C12-q)")
		case reach[fn]:
			r.Pass(rule, key, c.Pos(wr.Pos()), "in code run by the emitting goroutine and called from nowhere else")
		case fn == closeFn:
			isWait := m.isEff("wg.Wait")
			if _, ok := mustPass(entryLoc(fn), func(x ssa.Instruction) bool { return x == wr }, isWait, nil); ok {
				r.Pass(rule, key, c.Pos(wr.Pos()), "in Close after wg.Wait(): the emitter has finished")
			} else {
				r.Fail(rule, key, c.Pos(wr.Pos()), "Close writes to the underlying writer on a path that has not waited for the emitter (wg.Wait): bytes of the two goroutines can interleave")
			}
		default:
			r.Fail(rule, key, c.Pos(wr.Pos()), "the underlying writer is written outside the emitting goroutine: block order and whole-block delivery are no longer guaranteed")
		}
	}
}

// otherCaller: a function outside the emitter's reach that calls fn (or calls a
// function of the reach set through which fn is reached – any static call from
// outside into the set, other than the go statement that starts the emitter).
func (m *writerModel) otherCaller(fn *ssa.Function, reach map[*ssa.Function]bool) *ssa.Function {
	// the part of the reach set from which fn is reachable
	leads := map[*ssa.Function]bool{fn: true}
	for changed := true; changed; {
		changed = false
		for f := range reach {
			if leads[f] {
				continue
			}
			allInstrs(f, func(ins ssa.Instruction) {
				if cc := callCommon(ins); cc != nil {
					if g := staticCallee(cc); g != nil && leads[g] && !leads[f] {
						leads[f] = true
						changed = true
					}
				}
			})
		}
	}
	var all []*ssa.Function
	var add func(f *ssa.Function)
	add = func(f *ssa.Function) {
		all = append(all, f)
		for _, a := range f.AnonFuncs {
			add(a)
		}
	}
	for _, f := range m.fns {
		add(f)
	}
	// a caller counts when it can run: exported, a literal, or referred to by
	// some instruction of the package (an unexported function nobody mentions
	// is dead code and changes nothing)
	live := func(f *ssa.Function) bool {
		if f.Parent() != nil || f.Object() == nil || f.Object().Exported() {
			return true
		}
		used := false
		for _, h := range all {
			if h == f || used {
				continue
			}
			allInstrs(h, func(ins ssa.Instruction) {
				for _, op := range ins.Operands(nil) {
					if *op == ssa.Value(f) {
						used = true
					}
				}
			})
		}
		return used
	}
	var found *ssa.Function
	for _, f := range all {
		if reach[f] || found != nil || !live(f) {
			continue
		}
		allInstrs(f, func(ins ssa.Instruction) {
			cc := callCommon(ins)
			if cc == nil {
				return
			}
			g := staticCallee(cc)
			if g == nil || !leads[g] {
				return
			}
			if _, isGo := ins.(*ssa.Go); isGo && g == m.emitter {
				return
			}
			if found == nil {
				found = f
			}
		})
	}
	return found
}

// wholeTransfer: "" if the call hands its bytes to the destination in one
// Write; otherwise why not.
func wholeTransfer(ins ssa.Instruction) string {
	cc := callCommon(ins)
	if cc == nil {
		return ""
	}
	if cc.IsInvoke() {
		if cc.Method.Name() == "Write" {
			return ""
		}
		return "the underlying writer is driven through " + cc.Method.Name() + ", not Write"
	}
	g := staticCallee(cc)
	if g == nil || g.Pkg == nil {
		return ""
	}
	isBuf := func(v ssa.Value) bool {
		if mi, ok := v.(*ssa.MakeInterface); ok {
			v = mi.X
		}
		return strings.HasSuffix(v.Type().String(), "bytes.Buffer")
	}
	switch g.Pkg.Pkg.Path() + "." + g.Name() {
	case "io.Copy":
		if len(cc.Args) == 2 && isBuf(cc.Args[1]) {
			return ""
		}
		return "io.Copy from a source that is not a *bytes.Buffer copies in 32 KiB pieces: a member can reach the underlying writer in several Writes"
	case "bytes.WriteTo":
		return ""
	case "io.CopyN", "io.CopyBuffer":
		return g.Name() + " hides the buffer's WriteTo and copies in pieces (32 KiB): a compressed member larger than that reaches the underlying writer in two or three Writes, and after the first of them the file ends in a partial block"
	}
	return ""
}

// W5: in the function that writes a block: Done never precedes the write;
// on error paths the error is latched before the compressor is released and
// before Done.
func (m *writerModel) ruleW5(r *Rep, rule string) {
	c := m.c
	for _, wr := range m.findAll("write:out") {
		fn := wr.Parent()
		if m.emitter == nil || fn == c.FuncOpt(m.cfg.pkg, "(*"+m.cfg.writer+")."+m.cfg.closeMeth) {
			continue
		}
		r.Instance(rule, 1)
		key := c.FnName(fn)
		// effects of deferred closures happen at rundefers
		// deferred[name] = registration order of the defer that performs it
		// (a later registration runs earlier)
		deferred := map[string]int{}
		nd := 0
		allInstrs(fn, func(ins ssa.Instruction) {
			if d, ok := ins.(*ssa.Defer); ok {
				nd++
				if n, ok := m.names.effect(d); ok {
					deferred[n] = nd
				} else if g := staticCallee(&d.Call); g != nil {
					w := m.walker()
					for _, s := range w.Summary(g) {
						for k, v := range s {
							if v > 0 {
								deferred[k] = nd
							}
						}
					}
				}
			}
		})
		isRunDefers := func(ins ssa.Instruction) bool { _, ok := ins.(*ssa.RunDefers); return ok }
		effAt := func(name string) func(ssa.Instruction) bool {
			return func(ins ssa.Instruction) bool {
				if m.isEff(name)(ins) {
					_, isDefer := ins.(*ssa.Defer)
					_, isGo := ins.(*ssa.Go)
					if !isDefer && !isGo {
						return true
					}
				}
				return deferred[name] > 0 && isRunDefers(ins)
			}
		}
		isLatch := effAt("latch")
		// at a rundefers where both the latch and `name` are deferred, the one
		// registered later runs first
		afterLatchAt := func(name string) func(ssa.Instruction) bool {
			e := effAt(name)
			return func(ins ssa.Instruction) bool {
				if !e(ins) {
					return false
				}
				if isRunDefers(ins) && deferred["latch"] > deferred[name] && !m.isEff(name)(ins) {
					return false // the latch runs first at this rundefers
				}
				return true
			}
		}
		isDone, isRelease := afterLatchAt("qwg.Done"), afterLatchAt("send:waiting")
		isWrite := func(x ssa.Instruction) bool { return x == wr }
		// (a) Done never followed by the write
		why := ""
		isDoneAny := effAt("qwg.Done")
		allInstrs(fn, func(ins ssa.Instruction) {
			if isDoneAny(ins) {
				if _, reach := pathTo(locOf(ins), isWrite, nil, nil); reach {
					why += fmt.Sprintf(" qwg.Done at %s can be followed by the write of the block: Wait may return before the bytes reached the underlying writer;", c.Pos(ins.Pos()))
				}
			}
		})
		// on the write path, Done comes after the write returned: every path write→return has Done
		if bad, ok := mustPass(locOf(wr), isReturn, isDoneAny, nil); !ok {
			why += fmt.Sprintf(" a path from the write reaches the return at %s without qwg.Done;", c.Pos(bad.Pos()))
		}
		r.Check(why == "", rule, key+"#done-after-write", c.Pos(wr.Pos()), "qwg.Done only after the call that writes the block has returned", why)

		// (a') the compressor goes back to the pool only after its buffer was
		// written: whoever takes it from the pool compresses the next block into
		// the same buffer, under the bytes the underlying writer is still given
		r.Instance(rule, 1)
		why = ""
		isReleaseAny := effAt("send:waiting")
		allInstrs(fn, func(ins ssa.Instruction) {
			if isReleaseAny(ins) {
				if _, reach := pathTo(locOf(ins), isWrite, nil, nil); reach {
					why += fmt.Sprintf(" the compressor is handed back (waiting<-c at %s) before its block is written: the next block is compressed into the buffer the underlying writer is still reading from;", c.Pos(ins.Pos()))
				}
			}
		})
		r.Check(why == "", rule, key+"#release-after-write", c.Pos(wr.Pos()), "waiting<-c only after the call that writes the block has returned", why)

		// (b) error edges: latch before release and before Done
		r.Instance(rule, 1)
		why = ""
		nerr := 0
		for _, b := range fn.Blocks {
			i := ifOf(b)
			if i == nil {
				continue
			}
			bo, ok := i.Cond.(*ssa.BinOp)
			if !ok || (bo.Op != token.NEQ && bo.Op != token.EQL) || !isNilConst(bo.Y) {
				continue
			}
			if !types.Identical(bo.X.Type(), types.Universe.Lookup("error").Type()) {
				continue
			}
			// error value: result of the write, or the compressor's err
			isErrOfWrite := false
			if e, ok := bo.X.(*ssa.Extract); ok && e.Tuple == wr.(ssa.Value) {
				isErrOfWrite = true
			}
			f, _ := loadedField(bo.X)
			if !isErrOfWrite && (f == nil || f != m.fCErr) {
				continue
			}
			nerr++
			k := 0
			if bo.Op == token.EQL {
				k = 1
			}
			start := Loc{b.Succs[k], -1}
			if bad, ok := mustPass(start, isRelease, isLatch, nil); !ok {
				why += fmt.Sprintf(" on the error edge at %s the compressor is released (waiting<-c at %s) before the error is latched: a Write/Flush that obtains it can return nil;", c.Pos(i.Pos()), c.Pos(bad.Pos()))
			}
			if bad, ok := mustPass(start, isDone, isLatch, nil); !ok {
				why += fmt.Sprintf(" on the error edge at %s qwg.Done (at %s) precedes the latch: Wait can return nil for a block that was not written;", c.Pos(i.Pos()), c.Pos(bad.Pos()))
			}
			if bad, ok := mustPass(start, isReturn, isLatch, nil); !ok {
				why += fmt.Sprintf(" the error tested at %s is not latched on the path to %s;", c.Pos(i.Pos()), c.Pos(bad.Pos()))
			}
		}
		// Done before the error test of the write (Done; if err != nil {setErr})
		allInstrs(fn, func(ins ssa.Instruction) {
			if isDone(ins) {
				if bad, reach := pathTo(locOf(ins), isLatch, nil, nil); reach {
					why += fmt.Sprintf(" qwg.Done at %s can be followed by the latch at %s: Wait can observe a nil error for a failed write;", c.Pos(ins.Pos()), c.Pos(bad.Pos()))
				}
			}
		})
		if nerr < 2 {
			why += fmt.Sprintf(" only %d error tests (write result, compressor error) found: undecided;", nerr)
		}
		r.Check(why == "", rule, key+"#latch-before-release", c.Pos(fn.Pos()), "on both error edges: setErr, then waiting<-c and qwg.Done", why)
	}
}

// W6: close(queue) once, in Close, on the not-closed edge; EOF marker written
// only in Close after wg.Wait and on the err==nil edge.
func (m *writerModel) ruleW6(r *Rep, rule string) {
	c := m.c
	closeFn := c.Func(m.cfg.pkg, "(*"+m.cfg.writer+")."+m.cfg.closeMeth)
	closes := m.findAll("close:queue")
	r.Instance(rule, 1)
	why := ""
	if len(closes) != 1 || closes[0].Parent() != closeFn {
		why += fmt.Sprintf(" close(queue) occurs at %d sites, want exactly one, in %s;", len(closes), m.cfg.closeMeth)
	} else {
		cl := closes[0]
		if !m.dominatedByNotClosed(closeFn, cl) {
			why += " close(queue) is not guarded by !closed: a second Close panics;"
		}
		// closed = true stored before or after, on the same path
		stored := false
		allInstrs(closeFn, func(ins ssa.Instruction) {
			if st, ok := ins.(*ssa.Store); ok {
				if fa, ok := st.Addr.(*ssa.FieldAddr); ok && fieldVarOfAddr(fa) == m.fCls {
					if cst, ok := st.Val.(*ssa.Const); ok && cst.Value != nil && constant.BoolVal(cst.Value) {
						if instrDominates(ins, cl) || instrDominates(cl, ins) {
							stored = true
						}
					}
				}
			}
		})
		if !stored {
			why += " closed is not set on the path that closes the queue;"
		}
		// the active compressor is submitted before closing
		if _, ok := mustPass(entryLoc(closeFn), func(x ssa.Instruction) bool { return x == cl }, m.isEff("send:queue"), nil); !ok {
			why += " the queue is closed without submitting the active block;"
		}
		if _, ok := mustPass(locOf(cl), isReturn, m.isEff("wg.Wait"), nil); !ok {
			why += " Close returns without waiting for the emitter (wg.Wait);"
		}
		// every path of a first Close (the closed == false edge) closes the queue
		// and waits for the emitter: otherwise the emitting goroutine is leaked
		for _, b := range closeFn.Blocks {
			i := ifOf(b)
			if i == nil {
				continue
			}
			cond := i.Cond
			k := 1
			if u, ok := cond.(*ssa.UnOp); ok && u.Op == token.NOT {
				cond, k = u.X, 0
			}
			if f, _ := loadedField(cond); f != m.fCls {
				continue
			}
			start := Loc{b.Succs[k], -1}
			if bad, ok := mustPass(start, isReturn, m.isEff("close:queue"), nil); !ok {
				why += fmt.Sprintf(" a first Close can return at %s without closing the queue: the emitting goroutine is never told to stop (goroutine leak);", c.Pos(bad.Pos()))
			}
			if bad, ok := mustPass(start, isReturn, m.isEff("wg.Wait"), nil); !ok {
				why += fmt.Sprintf(" a first Close can return at %s without waiting for the emitting goroutine;", c.Pos(bad.Pos()))
			}
		}
	}
	r.Check(why == "", rule, c.FnName(closeFn)+"#close-queue", c.Pos(closeFn.Pos()), "close(queue) once, under !closed, after submitting the active block, followed by wg.Wait", why)

	// EOF marker
	mc, _ := c.ByPath[m.cfg.pkg].Types.Scope().Lookup(m.cfg.magic).(*types.Const)
	if mc == nil {
		unresolved("constant %s.%s", m.cfg.pkg, m.cfg.magic)
	}
	magic := constant.StringVal(mc.Val())
	var sites []ssa.Instruction
	for _, f := range m.fns {
		allInstrs(f, func(ins ssa.Instruction) {
			cv, ok := ins.(*ssa.Convert)
			if !ok {
				return
			}
			if k, ok := cv.X.(*ssa.Const); ok && k.Value != nil && k.Value.Kind() == constant.String && constant.StringVal(k.Value) == magic {
				sites = append(sites, ins)
			}
		})
	}
	r.Instance(rule, 1)
	why = ""
	if len(sites) != 1 || sites[0].Parent() != closeFn {
		why += fmt.Sprintf(" the EOF marker is materialised at %d sites, want exactly one, in Close;", len(sites))
	} else {
		cv := sites[0].(*ssa.Convert)
		var wr ssa.Instruction
		for _, ref := range *cv.Referrers() {
			if m.isUnderlyingWrite(ref) {
				wr = ref
			}
		}
		if wr == nil {
			why += " the marker is not written to the underlying writer;"
		} else {
			if _, ok := mustPass(entryLoc(closeFn), func(x ssa.Instruction) bool { return x == wr }, m.isEff("wg.Wait"), nil); !ok {
				why += " the marker can be written before the emitter finished (no wg.Wait on the path);"
			}
			// dominated by the edge err == nil
			ok := false
			for _, b := range closeFn.Blocks {
				i := ifOf(b)
				if i == nil {
					continue
				}
				bo, isB := i.Cond.(*ssa.BinOp)
				if !isB || !isNilConst(bo.Y) {
					continue
				}
				f, _ := loadedField(bo.X)
				isGetter := false
				if call, isCall := bo.X.(*ssa.Call); isCall && staticCallee(&call.Call) == m.getter {
					isGetter = true
				}
				if (f == nil || f != m.fErr) && !isGetter {
					continue
				}
				k := 0
				if bo.Op == token.NEQ {
					k = 1
				}
				if dominatedByEdge(closeFn, b, k, wr.Block()) {
					ok = true
				}
			}
			if !ok {
				why += " the marker write is not guarded by err == nil: a stream that failed would end with a valid EOF marker;"
			}
			// its error is latched (stored to err or passed to latch)
			latched := false
			if v, isV := wr.(ssa.Value); isV {
				for _, ref := range *v.Referrers() {
					if e, isE := ref.(*ssa.Extract); isE && e.Index == 1 {
						for _, r2 := range *e.Referrers() {
							if st, isSt := r2.(*ssa.Store); isSt {
								if fa, isFa := st.Addr.(*ssa.FieldAddr); isFa && fieldVarOfAddr(fa) == m.fErr {
									latched = true
								}
							}
							if m.isEff("latch")(r2) {
								latched = true
							}
							if _, isRet := r2.(*ssa.Return); isRet {
								latched = true
							}
						}
					}
				}
			}
			if !latched {
				why += " the error of the marker write is dropped;"
			}
		}
	}
	r.Check(why == "", rule, c.FnName(closeFn)+"#eof-marker", c.Pos(closeFn.Pos()), "marker written once, in Close, after wg.Wait, only if err == nil, its error kept", why)
}

func (m *writerModel) dominatedByNotClosed(fn *ssa.Function, ins ssa.Instruction) bool {
	for _, b := range fn.Blocks {
		i := ifOf(b)
		if i == nil {
			continue
		}
		cond := i.Cond
		k := 1 // successor taken when closed == false
		if u, ok := cond.(*ssa.UnOp); ok && u.Op == token.NOT {
			cond, k = u.X, 0
		}
		f, _ := loadedField(cond)
		if f == nil || f != m.fCls {
			continue
		}
		if dominatedByEdge(fn, b, k, ins.Block()) {
			return true
		}
	}
	return false
}

// W7: API guards.
func (m *writerModel) ruleW7(r *Rep, rule string) {
	c := m.c
	for _, s := range m.findAll("send:queue") {
		fn := s.Parent()
		r.Instance(rule, 1)
		key := c.FnName(fn) + "#closed-guard"
		if m.dominatedByNotClosed(fn, s) {
			r.Pass(rule, key, c.Pos(s.Pos()), "send on queue only on the closed == false edge")
		} else {
			r.Fail(rule, key, c.Pos(s.Pos()), "a send on queue is reachable with closed == true: send on a closed channel panics")
		}
	}
	// ERR-RETLATCH: constant-nil error results of the API are dominated by a test of the latch
	for _, name := range m.cfg.api {
		fn := c.FuncOpt(m.cfg.pkg, "(*"+m.cfg.writer+")."+name)
		if fn == nil {
			continue
		}
		res := fn.Signature.Results()
		ei := -1
		for i := 0; i < res.Len(); i++ {
			if types.Identical(res.At(i).Type(), types.Universe.Lookup("error").Type()) {
				ei = i
			}
		}
		if ei < 0 {
			continue
		}
		allInstrs(fn, func(ins ssa.Instruction) {
			ret, ok := ins.(*ssa.Return)
			if !ok {
				return
			}
			r.Instance(rule, 1)
			v := retValue(ret, ei)
			key := c.FnName(fn) + "#return-error"
			if !isNilConst(v) {
				r.Pass(rule, key, c.Pos(ret.Pos()), "returns a computed error value")
				return
			}
			// must be dominated by latch == nil edge
			ok = false
			for _, b := range fn.Blocks {
				i := ifOf(b)
				if i == nil {
					continue
				}
				bo, isB := i.Cond.(*ssa.BinOp)
				if !isB || !isNilConst(bo.Y) {
					continue
				}
				isLatchVal := false
				if call, isCall := strip(bo.X).(*ssa.Call); isCall && staticCallee(&call.Call) == m.getter {
					isLatchVal = true
				}
				if f, _ := loadedField(bo.X); f != nil && f == m.fErr {
					isLatchVal = true
				}
				if !isLatchVal {
					continue
				}
				k := 0
				if bo.Op == token.NEQ {
					k = 1
				}
				if dominatedByEdge(fn, b, k, ret.Block()) {
					ok = true
				}
			}
			r.Check(ok, rule, key, c.Pos(ret.Pos()), "nil error returned only after the error latch was tested nil", "returns a constant nil error without having consulted the error latch: a failure known to the writer is not reported")
		})
	}
}

// W8: writeBlock signals flush exactly once on every path.
func (m *writerModel) ruleW8(r *Rep, rule string) {
	c := m.c
	r.Instance(rule, 1)
	w := m.walker()
	sums := w.Summary(m.wb)
	why := ""
	for _, s := range sums {
		if s["send:flush"] != 1 {
			why += fmt.Sprintf(" a path of writeBlock sends on flush %d times;", s["send:flush"])
		}
		if s["send:waiting"] != 0 || s["qwg.Done"] != 0 {
			why += " writeBlock itself releases the compressor or calls Done;"
		}
	}
	r.Check(why == "", rule, c.FnName(m.wb)+"#flush-once", c.Pos(m.wb.Pos()), "exactly one send on the compressor's flush channel on every path (deferred)", "the emitter waits on flush for each queued compressor:"+why)
	// Wait: reaches qwg.Wait and returns the latch afterwards (PATH-WAIT)
}

// latchNilEdge: if block b ends in a test of the error latch against nil,
// return the successor index taken when the latch is nil.
func (m *writerModel) latchNilEdge(b *ssa.BasicBlock) (int, bool) {
	i := ifOf(b)
	if i == nil {
		return 0, false
	}
	bo, ok := i.Cond.(*ssa.BinOp)
	if !ok || (bo.Op != token.EQL && bo.Op != token.NEQ) || !isNilConst(bo.Y) {
		return 0, false
	}
	isLatch := false
	if call, isCall := strip(bo.X).(*ssa.Call); isCall && staticCallee(&call.Call) == m.getter {
		isLatch = true
	}
	if f, _ := loadedField(bo.X); f != nil && f == m.fErr {
		isLatch = true
	}
	if !isLatch {
		return 0, false
	}
	if bo.Op == token.EQL {
		return 0, true
	}
	return 1, true
}

// errorEdges: blocks entered when the write's error, or the compressor's
// error, is non-nil.
func (m *writerModel) errorEdges(fn *ssa.Function, wr ssa.Instruction) []Loc {
	var out []Loc
	for _, b := range fn.Blocks {
		i := ifOf(b)
		if i == nil {
			continue
		}
		bo, ok := i.Cond.(*ssa.BinOp)
		if !ok || (bo.Op != token.NEQ && bo.Op != token.EQL) || !isNilConst(bo.Y) {
			continue
		}
		isErr := false
		if e, ok := bo.X.(*ssa.Extract); ok && wr != nil && e.Tuple == wr.(ssa.Value) {
			isErr = true
		}
		if f, _ := loadedField(bo.X); f != nil && f == m.fCErr {
			isErr = true
		}
		if !isErr {
			continue
		}
		k := 0
		if bo.Op == token.EQL {
			k = 1
		}
		out = append(out, Loc{b.Succs[k], -1})
	}
	return out
}

// W9: nothing is written past a failed block.
func (m *writerModel) ruleW9(r *Rep, rule string) {
	c := m.c
	if m.emitter == nil {
		r.Fail(rule, "emitter#no-write-after-failure", "-", "emitter not identified: undecided")
		return
	}
	fns := map[*ssa.Function]bool{}
	var visit func(f *ssa.Function)
	visit = func(f *ssa.Function) {
		if f == nil || fns[f] || f.Blocks == nil || c.PkgOf(f) == nil {
			return
		}
		fns[f] = true
		allInstrs(f, func(ins ssa.Instruction) {
			if cc := callCommon(ins); cc != nil {
				if _, isGo := ins.(*ssa.Go); !isGo {
					visit(staticCallee(cc))
				}
			}
		})
	}
	visit(m.emitter)
	var starts []Loc
	for _, wr := range m.findAll("write:out") {
		if fns[wr.Parent()] {
			starts = append(starts, m.errorEdges(wr.Parent(), wr)...)
		}
	}
	r.Instance(rule, len(starts))
	isWrite := func(ins ssa.Instruction) bool {
		if _, isDefer := ins.(*ssa.Defer); isDefer {
			return false
		}
		return m.isEff("write:out")(ins)
	}
	edgeOK := func(from, to *ssa.BasicBlock) bool {
		if k, ok := m.latchNilEdge(from); ok && from.Succs[k] == to && from.Succs[1-k] != to {
			return false
		}
		return true
	}
	key := c.FnName(m.emitter) + "#no-write-after-failure"
	if len(starts) == 0 {
		r.Fail(rule, key, c.Pos(m.emitter.Pos()), "no error edge found in the emitting goroutine: undecided")
		return
	}
	if bad, reach := superReach(fns, starts, isWrite, nil, edgeOK); reach {
		r.Fail(rule, key, c.Pos(bad.Pos()), "after a block failed to compress or to be written, the emitting goroutine can still write a later block (the write at this position is reachable from the error edge without a test that the error latch is nil): the bytes delivered are no longer whole blocks decoding to a prefix of the data")
	} else {
		r.Pass(rule, key, c.Pos(m.emitter.Pos()), fmt.Sprintf("from each of the %d error edges no write to the underlying writer is reachable except over a latch==nil edge", len(starts)))
	}
}

// PATH-WAIT: Wait reaches qwg.Wait() when the latch is nil and returns the
// latch afterwards.
func (m *writerModel) ruleWait(r *Rep, rule string) {
	c := m.c
	fn := c.Func(m.cfg.pkg, "(*"+m.cfg.writer+").Wait")
	r.Instance(rule, 1)
	why := ""
	isQW := m.isEff("qwg.Wait")
	// every return is either on a latch != nil edge or after qwg.Wait
	edgeOK := func(from, to *ssa.BasicBlock) bool {
		if k, ok := m.latchNilEdge(from); ok && from.Succs[1-k] == to && from.Succs[k] != to {
			return false // non-nil edge: excluded, returning the error early is fine
		}
		return true
	}
	if bad, ok := mustPass(entryLoc(fn), isReturn, isQW, edgeOK); !ok {
		why += fmt.Sprintf(" the return at %s is reachable with a nil latch without qwg.Wait(): Wait does not wait;", c.Pos(bad.Pos()))
	}
	// after qwg.Wait the returned error is read from the latch after the wait
	allInstrs(fn, func(ins ssa.Instruction) {
		if !isQW(ins) {
			return
		}
		pathTo(locOf(ins), func(x ssa.Instruction) bool {
			ret, ok := x.(*ssa.Return)
			if !ok {
				return false
			}
			v := strip(retValue(ret, 0))
			good := false
			if call, isCall := v.(*ssa.Call); isCall && staticCallee(&call.Call) == m.getter && instrDominates(ins, call) {
				good = true
			}
			if u, isU := v.(*ssa.UnOp); isU {
				if f, _ := loadedField(u); f == m.fErr && instrDominates(ins, u) {
					good = true
				}
			}
			if !good {
				why += fmt.Sprintf(" after qwg.Wait() the return at %s does not report the error latch as read after the wait;", c.Pos(ret.Pos()))
			}
			return false
		}, nil, nil)
	})
	r.Check(why == "", rule, c.FnName(fn)+"#wait", c.Pos(fn.Pos()), "nil latch ⇒ qwg.Wait() on every path, then the latch is re-read and returned", why)
}
