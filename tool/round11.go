package main

import (
	"fmt"
	"go/token"
	"go/types"
	"sort"

	"golang.org/x/tools/go/ssa"
)

// ---- EOF-MID-HEADER ----------------------------------------------------------
//
// io.EOF is the library's word for "the input ended cleanly". Once the binary
// header's magic number has been read the header has begun, so a source that
// ends at any later field boundary (with a bgzf.Reader as source: a stream cut
// at a BGZF block boundary inside a header of more than one block) stops in
// the middle of the header. binary.Read and io.ReadFull answer io.EOF – not
// io.ErrUnexpectedEOF – when the source ends before the first byte they ask
// for, so an error of such a read that is returned as it is tells the caller
// "clean end" (C10: a clean end only at a block and record boundary).
//
// Decided on the value flow of the decoder: the error value of every read of
// the source after the first one (the read that dominates the others: an empty
// input may be io.EOF) reaches a return only
//   – on paths where it has been compared with io.EOF and found different, or
//   – through a function of the module that does not return its argument on
//     its io.EOF edge, or through any function outside the module (wrapping
//     makes a different value).
// A helper of the module that is handed the source is looked into the same
// way, without the exemption for its first read; if none of its reads can
// come back raw its result needs no conversion by the caller.

type eofFlow struct {
	c    *Ctx
	src  map[*ssa.Function]bool
	memo map[*ssa.Function]int // 1 may return raw io.EOF of a read, 2 not
}

// readCalls lists the calls of fn that are handed v (the source) and have an
// error result, with that error value.
type readCall struct {
	call *ssa.Call
	err  ssa.Value
}

func (e *eofFlow) readCalls(fn *ssa.Function, src ssa.Value) []readCall {
	var out []readCall
	allInstrs(fn, func(ins ssa.Instruction) {
		call, ok := ins.(*ssa.Call)
		if !ok {
			return
		}
		uses := call.Call.IsInvoke() && call.Call.Value == src
		for _, a := range call.Call.Args {
			if a == src {
				uses = true
			}
			if mi, ok := a.(*ssa.MakeInterface); ok && mi.X == src {
				uses = true
			}
			if ci, ok := a.(*ssa.ChangeInterface); ok && ci.X == src {
				uses = true
			}
		}
		if !uses {
			return
		}
		var ev ssa.Value
		if isErrorTyped(call) {
			ev = call
		} else if tup, ok := call.Type().(*types.Tuple); ok {
			for _, ref := range *call.Referrers() {
				if ex, ok := ref.(*ssa.Extract); ok && types.Identical(tup.At(ex.Index).Type(), errorType) {
					ev = ex
				}
			}
		}
		if ev != nil {
			out = append(out, readCall{call, ev})
		}
	})
	sort.Slice(out, func(i, j int) bool { return out[i].call.Pos() < out[j].call.Pos() })
	return out
}

// guardedAt: is the CFG edge from→to (to == nil: the block from itself) only
// taken with ev != io.EOF?
func guardedAt(fn *ssa.Function, ev ssa.Value, from, to *ssa.BasicBlock) bool {
	for _, b := range fn.Blocks {
		ifi := ifOf(b)
		if ifi == nil {
			continue
		}
		bo, ok := ifi.Cond.(*ssa.BinOp)
		if !ok || (bo.Op != token.EQL && bo.Op != token.NEQ) {
			continue
		}
		var other ssa.Value
		switch {
		case bo.X == ev:
			other = bo.Y
		case bo.Y == ev:
			other = bo.X
		default:
			continue
		}
		if !isGlobalLoad(other, "io", "EOF") {
			continue
		}
		k := 0 // the edge on which ev != io.EOF
		if bo.Op == token.EQL {
			k = 1
		}
		if dominatedByEdge(fn, b, k, from) {
			return true
		}
		if to != nil && from == b && b.Succs[k] == to && b.Succs[1-k] != to {
			return true
		}
	}
	return false
}

// raw: can v, used on the edge from→to (or in block from), be ev itself with
// ev == io.EOF not excluded?
func (e *eofFlow) raw(fn *ssa.Function, v, ev ssa.Value, from, to *ssa.BasicBlock, seen map[ssa.Value]bool) bool {
	if v == ev {
		return !guardedAt(fn, ev, from, to)
	}
	if seen[v] {
		return false
	}
	seen[v] = true
	switch x := v.(type) {
	case *ssa.Phi:
		for i, ed := range x.Edges {
			if e.raw(fn, ed, ev, x.Block().Preds[i], x.Block(), seen) {
				return true
			}
		}
	case *ssa.Call:
		callee := staticCallee(&x.Call)
		if callee == nil || !e.src[callee] {
			return false // a value made elsewhere is not the sentinel
		}
		for i, a := range x.Call.Args {
			if a != ev && !(func() bool { p, ok := a.(*ssa.Phi); return ok && e.raw(fn, p, ev, from, to, seen) })() {
				continue
			}
			if a == ev && guardedAt(fn, ev, x.Block(), nil) {
				continue
			}
			if i < len(callee.Params) && e.passesEOF(callee, callee.Params[i]) {
				return true
			}
		}
	}
	return false
}

// passesEOF: can callee return its parameter p when p == io.EOF?
func (e *eofFlow) passesEOF(callee *ssa.Function, p *ssa.Parameter) bool {
	for _, b := range callee.Blocks {
		ret, ok := b.Instrs[len(b.Instrs)-1].(*ssa.Return)
		if !ok {
			continue
		}
		for i := range ret.Results {
			if !isErrorTyped(ret.Results[i]) {
				continue
			}
			if e.raw(callee, retValue(ret, i), p, b, nil, map[ssa.Value]bool{}) {
				return true
			}
		}
	}
	return false
}

// rawReturns lists the reads of fn (source: src) whose error can be returned as
// it is; exemptFirst leaves out the read that dominates all the others.
func (e *eofFlow) rawReturns(fn *ssa.Function, src ssa.Value, exemptFirst bool) (reads []readCall, first int, bad map[ssa.Value]string, undecided string) {
	reads = e.readCalls(fn, src)
	bad = map[ssa.Value]string{}
	first = -1
	if exemptFirst {
		for i, rc := range reads {
			all := true
			for j, o := range reads {
				if i != j && !instrDominates(rc.call, o.call) {
					all = false
				}
			}
			if all {
				first = i
			}
		}
		if first < 0 && len(reads) > 0 {
			return reads, first, bad, "no read of the source dominates the others: cannot tell which one may see the clean end"
		}
	}
	for i, rc := range reads {
		if i == first {
			continue
		}
		// a helper of the module that cannot hand back a raw io.EOF
		if callee := staticCallee(&rc.call.Call); callee != nil && e.src[callee] {
			if !e.helperMayReturnEOF(callee, rc.call, src) {
				continue
			}
		}
		for _, b := range fn.Blocks {
			ret, ok := b.Instrs[len(b.Instrs)-1].(*ssa.Return)
			if !ok {
				continue
			}
			for k := range ret.Results {
				if !isErrorTyped(ret.Results[k]) {
					continue
				}
				if e.raw(fn, retValue(ret, k), rc.err, b, nil, map[ssa.Value]bool{}) {
					bad[rc.err] = e.c.Pos(ret.Pos())
				}
			}
		}
	}
	return reads, first, bad, ""
}

func (e *eofFlow) helperMayReturnEOF(callee *ssa.Function, call *ssa.Call, src ssa.Value) bool {
	if m := e.memo[callee]; m != 0 {
		return m == 1
	}
	e.memo[callee] = 1 // recursion: assume the worst
	may := false
	found := false
	for i, a := range call.Call.Args {
		if a != src || i >= len(callee.Params) {
			continue
		}
		found = true
		reads, _, bad, und := e.rawReturns(callee, callee.Params[i], false)
		if len(bad) > 0 || und != "" || len(reads) == 0 {
			may = true
		}
	}
	if !found {
		may = true
	}
	if !may {
		e.memo[callee] = 2
	}
	return may
}

func ruleEOFMidHeader(c *Ctx, r *Rep, tier string) {
	rule := "EOF-MID-HEADER"
	fn := c.Func("sam", "(*Header).DecodeBinary")
	e := &eofFlow{c: c, src: map[*ssa.Function]bool{}, memo: map[*ssa.Function]int{}}
	for _, f := range c.SrcFuncs() {
		e.src[f] = true
	}
	if len(fn.Params) < 2 {
		r.Fail(rule, c.FnName(fn)+"#source", c.Pos(fn.Pos()), "no source parameter: undecided")
		return
	}
	src := fn.Params[1]
	reads, firstIdx, bad, und := e.rawReturns(fn, src, true)
	if und != "" {
		r.Instance(rule, 1)
		r.Fail(rule, c.FnName(fn)+"#first-read", c.Pos(fn.Pos()), und)
		return
	}
	n := 0
	for i, rc := range reads {
		name := calleeFullName(&rc.call.Call)
		if i == firstIdx {
			continue // the dominating read: an empty input is a clean end
		}
		n++
		r.Instance(rule, 1)
		key := fmt.Sprintf("%s#eof:%s~%d", c.FnName(fn), name, n)
		why := ""
		if at, ok := bad[rc.err]; ok {
			why = "the error of this read of the source is returned as it is at " + at + ": when the source ends exactly before the field (a BGZF stream cut at a block boundary inside the header) the caller is told io.EOF, the clean end of input"
		}
		r.Check(why == "", rule, key, c.Pos(rc.call.Pos()), "io.EOF of a read after the magic number is not returned unchanged", why)
	}
}

// ---- GEN-BIND ------------------------------------------------------------------
//
// Since the read-ahead repair every instruction to the read-ahead goroutine
// carries a generation and every result the generation of the instruction it
// was read for; nextBlock goes on waiting past a result only when its
// generation is not the Reader's (PIPE-STALL's consumer clause). That is safe
// only if a result read for the latest instruction can never look stale – or
// the Reader drops it and waits for a goroutine that is parked:
//
//   #gen-sent     the generation in the value sent on control is Reader.gen as it
//                 is when the sending function returns (loaded after the last
//                 store, or the very value stored);
//   #gen-stamped  in the goroutine, the decompressor sent on working has been
//                 stamped with the gen field of the same instruction value whose
//                 next field was the offset given to nextBlockAt: both are read
//                 from the same variable with no receive into it (and no store to
//                 the field) in between.
func ruleGenBind(c *Ctx, r *Rep, tier string) {
	rule := "GEN-BIND"
	fControl := c.Field("bgzf", "Reader", "control")
	fWorking := c.Field("bgzf", "Reader", "working")
	fRGen := c.Field("bgzf", "Reader", "gen")
	fDGen := c.Field("bgzf", "decompressor", "gen")
	fIGen := c.Field("bgzf", "readAhead", "gen")
	fINext := c.Field("bgzf", "readAhead", "next")
	nba := c.Func("bgzf", "(*decompressor).nextBlockAt")

	chanField := func(v ssa.Value) *types.Var { f, _ := loadedField(v); return f }
	storesTo := func(fn *ssa.Function, f *types.Var) []*ssa.Store {
		var out []*ssa.Store
		allInstrs(fn, func(ins ssa.Instruction) {
			if st, ok := ins.(*ssa.Store); ok {
				if fa, ok := st.Addr.(*ssa.FieldAddr); ok && fieldVarOfAddr(fa) == f {
					out = append(out, st)
				}
			}
		})
		return out
	}

	// #gen-sent
	for _, fn := range c.FuncsIn("bgzf") {
		fn := fn
		k := 0
		allInstrs(fn, func(ins ssa.Instruction) {
			snd, ok := ins.(*ssa.Send)
			if !ok || chanField(snd.Chan) != fControl {
				return
			}
			k++
			r.Instance(rule, 1)
			key := fmt.Sprintf("%s#gen-sent~%d", c.FnName(fn), k)
			// the value sent: a load of a local composite, or a struct built in registers
			var genVal ssa.Value
			if u, ok := snd.X.(*ssa.UnOp); ok && u.Op == token.MUL {
				if al, ok := u.X.(*ssa.Alloc); ok {
					for _, ref := range *al.Referrers() {
						if fa, ok := ref.(*ssa.FieldAddr); ok && fieldVarOfAddr(fa) == fIGen {
							for _, r2 := range *fa.Referrers() {
								if st, ok := r2.(*ssa.Store); ok && st.Addr == fa {
									genVal = st.Val
								}
							}
						}
					}
				}
			}
			why := ""
			switch {
			case genVal == nil:
				why = "the generation of the instruction sent on control is not set (the zero value): every result is stamped 0 and looks stale after the first redirect"
			default:
				f, _ := loadedField(genVal)
				stores := storesTo(fn, fRGen)
				if f == fRGen {
					// a load of Reader.gen: no store to Reader.gen may follow it
					ld := genVal.(ssa.Instruction)
					for _, st := range stores {
						if _, reach := pathTo(locOf(ld), is(st), nil, nil); reach {
							why = "Reader.gen is stored again (" + c.Pos(st.Pos()) + ") after the value sent on control was read from it: results for this instruction carry a generation that is not the Reader's and are dropped as stale"
						}
					}
				} else {
					// the very value stored last
					okv := false
					for _, st := range stores {
						if st.Val == genVal && instrDominates(st, snd) {
							okv = true
							for _, st2 := range stores {
								if st2 != st {
									if _, reach := pathTo(locOf(st), is(st2), nil, nil); reach {
										okv = false
									}
								}
							}
						}
					}
					if !okv {
						why = "the generation sent on control is neither Reader.gen read after its last store nor the value stored to it"
					}
				}
			}
			r.Check(why == "", rule, key, c.Pos(snd.Pos()), "the generation sent is the Reader's generation when the function returns", why)
		})
	}

	// #gen-stamped
	for _, fn := range c.FuncsIn("bgzf") {
		fn := fn
		k := 0
		allInstrs(fn, func(ins ssa.Instruction) {
			snd, ok := ins.(*ssa.Send)
			if !ok || chanField(snd.Chan) != fWorking {
				return
			}
			k++
			r.Instance(rule, 1)
			key := fmt.Sprintf("%s#gen-stamped~%d", c.FnName(fn), k)
			dec := snd.X
			// the call that fills dec, and the stamp
			var call *ssa.Call
			var stamp *ssa.Store
			allInstrs(fn, func(x ssa.Instruction) {
				if cl, ok := x.(*ssa.Call); ok && staticCallee(&cl.Call) == nba && len(cl.Call.Args) > 1 && cl.Call.Args[0] == dec && instrDominates(cl, snd) {
					call = cl
				}
				if st, ok := x.(*ssa.Store); ok {
					if fa, ok := st.Addr.(*ssa.FieldAddr); ok && fieldVarOfAddr(fa) == fDGen && fa.X == dec && instrDominates(st, snd) {
						stamp = st
					}
				}
			})
			cellOf := func(v ssa.Value, f *types.Var) (ssa.Value, ssa.Instruction) {
				u, ok := v.(*ssa.UnOp)
				if !ok || u.Op != token.MUL {
					return nil, nil
				}
				fa, ok := u.X.(*ssa.FieldAddr)
				if !ok || fieldVarOfAddr(fa) != f {
					return nil, nil
				}
				return fa.X, u
			}
			why := ""
			switch {
			case call == nil:
				why = "no nextBlockAt call on the decompressor dominates the send: undecided"
			case stamp == nil:
				why = "the decompressor is sent on working without its generation having been set on every path: the result keeps the generation of an earlier use and is dropped as stale"
			default:
				c1, l1 := cellOf(stamp.Val, fIGen)
				c2, l2 := cellOf(call.Call.Args[1], fINext)
				if c1 == nil || c2 == nil || c1 != c2 {
					why = "generation and offset do not come from the same instruction variable"
					break
				}
				first, second := l1, l2
				if instrDominates(l2, l1) {
					first, second = l2, l1
				}
				writes := func(x ssa.Instruction) bool {
					st, ok := x.(*ssa.Store)
					if !ok {
						return false
					}
					if st.Addr == c1 {
						return true
					}
					if fa, ok := st.Addr.(*ssa.FieldAddr); ok && fa.X == c1 {
						return fieldVarOfAddr(fa) == fIGen || first == l1
					}
					return false
				}
				if wr, reach := pathTo(locOf(first), writes, is(second), nil); reach {
					if _, on := pathTo(locOf(wr), is(second), nil, nil); on {
						why = "between reading the generation and reading the offset the instruction variable is written (" + c.Pos(wr.Pos()) + "): a result read for the new instruction is stamped with the old generation (or the other way round)"
					}
				}
			}
			r.Check(why == "", rule, key, c.Pos(snd.Pos()), "stamp and offset are taken from one instruction", why)
		})
	}
}

// ---- SYNC-REDIRECT -------------------------------------------------------------
//
// When the Reader fills a decompressor of the pool itself (one it received from
// waiting or working: the synchronous fall-back of nextBlock, Seek's slow path)
// the read-ahead chain is, by construction, not where the Reader is – that is
// why the Reader had to read – or it has ended. Unless the goroutine is told
// where to go on before the Reader next waits for it, the Reader waits on a
// goroutine that is parked or produces what is not wanted. R4 decides this for
// Seek with its path walker (the decompressor there may also be the
// synchronous one, Reader.dec); this rule decides it for every other call of
// nextBlockAt whose receiver is, on every path, a decompressor received from the
// pool: from the call every path to a return passes a send on control (directly
// or through a helper that sends on all its paths).
func ruleSyncRedirect(c *Ctx, r *Rep, tier string) {
	rule := "SYNC-REDIRECT"
	m := newReaderModel(c, htsReaderCfg)
	nba := c.Func("bgzf", "(*decompressor).nextBlockAt")
	fWaiting := c.Field("bgzf", "Reader", "waiting")
	fWorking := c.Field("bgzf", "Reader", "working")
	// methods that return their receiver on every path
	identity := func(f *ssa.Function) bool {
		if f == nil || len(f.Params) == 0 || f.Blocks == nil {
			return false
		}
		n := 0
		for _, b := range f.Blocks {
			if ret, ok := b.Instrs[len(b.Instrs)-1].(*ssa.Return); ok {
				if len(ret.Results) != 1 || ret.Results[0] != f.Params[0] {
					return false
				}
				n++
			}
		}
		return n > 0
	}
	var fromPool func(v ssa.Value, seen map[ssa.Value]bool) bool
	fromPool = func(v ssa.Value, seen map[ssa.Value]bool) bool {
		if seen[v] {
			return true
		}
		seen[v] = true
		switch x := v.(type) {
		case *ssa.UnOp:
			if x.Op == token.ARROW {
				f, _ := loadedField(x.X)
				return f == fWaiting || f == fWorking
			}
		case *ssa.Extract:
			if u, ok := x.Tuple.(*ssa.UnOp); ok && u.Op == token.ARROW && x.Index == 0 {
				f, _ := loadedField(u.X)
				return f == fWaiting || f == fWorking
			}
		case *ssa.Call:
			if callee := staticCallee(&x.Call); identity(callee) && len(x.Call.Args) > 0 {
				return fromPool(x.Call.Args[0], seen)
			}
		case *ssa.Phi:
			for _, e := range x.Edges {
				if !fromPool(e, seen) {
					return false
				}
			}
			return true
		}
		return false
	}
	for _, fn := range m.fns {
		if m.goEntry[fn] || rootFn(fn).Name() == m.cfg.newReader {
			continue
		}
		fn := fn
		k := 0
		allInstrs(fn, func(ins ssa.Instruction) {
			call, ok := ins.(*ssa.Call)
			if !ok || staticCallee(&call.Call) != nba || len(call.Call.Args) == 0 {
				return
			}
			if !fromPool(call.Call.Args[0], map[ssa.Value]bool{}) {
				return
			}
			k++
			r.Instance(rule, 1)
			key := fmt.Sprintf("%s#sync-redirect~%d", c.FnName(fn), k)
			var redirects func(x ssa.Instruction, depth int) bool
			redirects = func(x ssa.Instruction, depth int) bool {
				if m.isEff("send:control")(x) {
					return true
				}
				cl, ok := x.(*ssa.Call)
				if !ok || depth > 2 {
					return false
				}
				callee := staticCallee(&cl.Call)
				if callee == nil || callee.Blocks == nil || callee.Pkg != fn.Pkg {
					return false
				}
				// a helper that sends on control on every path to its returns
				_, all := mustPass(entryLoc(callee), isReturn, func(y ssa.Instruction) bool { return redirects(y, depth+1) }, nil)
				return all
			}
			at, ok2 := mustPass(locOf(call), isReturn, func(x ssa.Instruction) bool { return redirects(x, 0) }, nil)
			why := ""
			if !ok2 {
				why = "after the Reader has filled a pool decompressor itself a return can be reached without a send on control"
				if at != nil {
					why += " (" + c.Pos(at.Pos()) + ")"
				}
				why += ": the read-ahead goroutine stays where it was – elsewhere, or parked at the end of its chain – and the next wait on working does not return"
			}
			r.Check(why == "", rule, key, c.Pos(call.Pos()), "a synchronous read with a pool decompressor is followed by a redirect on every path", why)
		})
	}
}

// ---- ATOMIC-COMPOSE ------------------------------------------------------------
//
// C14's last clause names Free among the operations that take effect atomically
// when several goroutines use one cache. Free is a function of the package, not
// a method: whatever it does to the cache it does through the Cache interface,
// and every method of the provided caches is a critical section of its own
// (LOCK-5). Two method calls on the shared cache on one path are therefore two
// operations, and another goroutine's Get or Put can fall between them (the
// unchanged tree read Cap()−Len(), then called Drop: a Get in between made Free
// evict a block that no order of the two operations evicts).
//
// Decided for every function of bgzf/cache, outside the cache types, that has a
// parameter of a cache interface type:
//   – on no path are there two dynamic calls on that parameter, except on paths
//     that are only taken by foreign implementations: the not-ok edge of an
//     assertion of the parameter to an interface that every cache type of the
//     package implements;
//   – the methods such an assertion dispatches to are single critical sections
//     (one acquisition of the receiver's mutex, not in a loop, nothing of the
//     receiver touched after an explicit release).
func ruleAtomicCompose(c *Ctx, r *Rep, tier string) {
	rule := "ATOMIC-COMPOSE"
	allImpls := discoverCaches(c, hts_cacheCfg)
	la := newLockAnalysis(c, []string{"bgzf/cache"})
	for _, fn := range c.FuncsIn("bgzf/cache") {
		if fn.Signature.Recv() != nil || fn.Parent() != nil || fn.Blocks == nil {
			continue
		}
		for _, p := range fn.Params {
			if _, isI := p.Type().Underlying().(*types.Interface); !isI {
				continue
			}
			pit := p.Type().Underlying().(*types.Interface)
			if pit.NumMethods() == 0 {
				continue
			}
			var impls []cacheImpl
			for _, ci := range allImpls {
				if types.Implements(types.NewPointer(ci.named), pit) {
					impls = append(impls, ci)
				}
			}
			if len(impls) == 0 {
				continue
			}
			r.Instance(rule, 1)
			key := fmt.Sprintf("%s#one-operation:%s", c.FnName(fn), "param"+fmt.Sprint(indexOfParam(fn, p)))
			// dynamic calls on the parameter (or on a view of it)
			views := map[ssa.Value]bool{p: true}
			foreign := map[*ssa.BasicBlock]bool{}
			var dispatched []*types.Func
			why := ""
			allInstrs(fn, func(ins ssa.Instruction) {
				ta, ok := ins.(*ssa.TypeAssert)
				if !ok || ta.X != p {
					return
				}
				it, isI := ta.AssertedType.Underlying().(*types.Interface)
				if !isI || !ta.CommaOk {
					return
				}
				all := true
				for _, ci := range impls {
					if !types.Implements(types.NewPointer(ci.named), it) {
						all = false
					}
				}
				for _, ref := range *ta.Referrers() {
					ex, ok := ref.(*ssa.Extract)
					if !ok {
						continue
					}
					if ex.Index == 0 {
						views[ex] = true
					}
					if ex.Index == 1 && all {
						for _, b := range fn.Blocks {
							if ifi := ifOf(b); ifi != nil && ifi.Cond == ex {
								for _, t := range fn.Blocks {
									if dominatedByEdge(fn, b, 1, t) {
										foreign[t] = true
									}
								}
							}
						}
					}
				}
				if all {
					for i := 0; i < it.NumMethods(); i++ {
						dispatched = append(dispatched, it.Method(i))
					}
				}
			})
			var calls []*ssa.Call
			allInstrs(fn, func(ins ssa.Instruction) {
				if cl, ok := ins.(*ssa.Call); ok && cl.Call.IsInvoke() && views[cl.Call.Value] {
					calls = append(calls, cl)
				}
			})
			for _, a := range calls {
				if foreign[a.Block()] {
					continue
				}
				for _, b := range calls {
					if foreign[b.Block()] {
						continue
					}
					if _, reach := pathTo(locOf(a), is(b), nil, nil); reach {
						why = fmt.Sprintf("%s at %s and %s at %s are two operations on the shared cache on one path – each takes and releases the cache's lock on its own, and what another goroutine does in between (a Get, a Put) is not seen: the function's effect is not that of any sequential order", a.Call.Method.Name(), c.Pos(a.Pos()), b.Call.Method.Name(), c.Pos(b.Pos()))
					}
				}
			}
			r.Check(why == "", rule, key, c.Pos(fn.Pos()), fmt.Sprintf("at most one operation on the shared cache per path (%d dynamic calls, %d on paths of foreign implementations only)", len(calls), countForeign(calls, foreign)), why)

			// the methods dispatched to
			for _, m := range dispatched {
				for _, ci := range impls {
					sel := c.Prog.MethodSets.MethodSet(types.NewPointer(ci.named)).Lookup(m.Pkg(), m.Name())
					if sel == nil {
						continue
					}
					mf := c.Prog.MethodValue(sel)
					if mf == nil || mf.Blocks == nil {
						continue
					}
					la.ruleSingleSection(r, rule, []*ssa.Function{mf})
					// nothing of the receiver is touched after an explicit release
					r.Instance(rule, 1)
					k2 := c.FnName(mf) + "#nothing-after-release"
					w2 := ""
					allInstrs(mf, func(ins ssa.Instruction) {
						cl, ok := ins.(*ssa.Call)
						if !ok {
							return
						}
						op, ok := mutexOp(&cl.Call)
						if !ok || op.acquire {
							return
						}
						if bad, reach := pathTo(locOf(cl), func(x ssa.Instruction) bool {
							switch y := x.(type) {
							case *ssa.FieldAddr:
								return y.X == mf.Params[0] && !isMutexField(y)
							case *ssa.Call:
								return len(y.Call.Args) > 0 && y.Call.Args[0] == mf.Params[0]
							}
							return false
						}, nil, nil); reach {
							w2 = "after the release at " + c.Pos(cl.Pos()) + " the cache is used again at " + c.Pos(bad.Pos())
						}
					})
					r.Check(w2 == "", rule, k2, c.Pos(mf.Pos()), "the critical section covers the whole operation", w2)
				}
			}
		}
	}
}

func indexOfParam(fn *ssa.Function, p *ssa.Parameter) int {
	for i, q := range fn.Params {
		if q == p {
			return i
		}
	}
	return -1
}

func countForeign(calls []*ssa.Call, foreign map[*ssa.BasicBlock]bool) int {
	n := 0
	for _, cl := range calls {
		if foreign[cl.Block()] {
			n++
		}
	}
	return n
}

func isMutexField(fa *ssa.FieldAddr) bool {
	t := fa.Type().(*types.Pointer).Elem()
	if n, ok := t.(*types.Named); ok && n.Obj().Pkg() != nil && n.Obj().Pkg().Path() == "sync" {
		return true
	}
	return false
}
